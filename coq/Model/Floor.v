(* C03: the unit-level kernels "max with the partial count, then round" of ConformalElectionModel.get_unit_predictions,
   NonparametricElectionModel / GaussianElectionModel.get_unit_prediction_intervals, and the copy of counted votes into
   every column for reporting / unexpected / non-modelled units (ModelResultsHandler). *)
From Coq Require Import ZArith QArith Qminmax List.
From Elex Require Import Base.QRound Model.Aggregate Model.Compare.
Import ListNotations.
Open Scope Q_scope.

(* raw: the regression output in normalised-residual space (any rational, any sign), corr: correction subtracted/added,
   last: baseline + 1, res: the unit's counted votes so far *)
Definition unit_value (raw : Q) (last res : Z) : Z :=
  rhe (Qmax (raw * inject_Z last + inject_Z last) (inject_Z res)).
Definition unit_lower (raw corr : Q) (last res : Z) : Z := unit_value (raw - corr) last res.
Definition unit_upper (raw corr : Q) (last res : Z) : Z := unit_value (raw + corr) last res.

(* ModelResultsHandler.add_unit_predictions / add_unit_intervals *)
Definition unit_cols (fr : frame) (res : Z) (pred : Z) (ints : list (Z * Z)) : Z * list (Z * Z) :=
  match fr with
  | FNon => (pred, ints)
  | _ => (res, map (fun _ => (res, res)) ints)
  end.

(* comparator: captured raw prediction (exact binary64 value), implementation's rounded value *)
Definition check_unit_value (raw : Q) (last res impl : Z) : bool :=
  round_agrees (Qmax (raw * inject_Z last + inject_Z last) (inject_Z res)) impl.
