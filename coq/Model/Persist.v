(* C18: what an estimate run persists, as a decision function of the configuration. *)
From Coq Require Import List String Bool Ascii Arith.
Import ListNotations.
Open Scope string_scope.

Inductive estimator := Nonparametric | Gaussian | Bootstrap.

Record cfg := {
  c_results : bool; c_data : bool; c_config : bool; c_conf : bool;   (* membership of save_output *)
  c_local : bool;                                                    (* APP_ENV = "local" *)
  c_estimator : estimator;
  c_gate_ok : bool;                                                  (* enough reporting units *)
  c_tables : list string;                                            (* names of the returned tables, in order *)
  c_gauss_fits : nat                                                 (* top-level aggregate gaussian fits = estimands x aggregate levels x interval levels *)
}.

Inductive event :=
  | LocalConfig | LocalData
  | PutLive | PutLiveCounties
  | PutGaussConf | PutGaussBounds
  | PutTable (name : string).

Fixpoint repeat_pair (n : nat) : list event :=
  match n with O => [] | S k => PutGaussConf :: PutGaussBounds :: repeat_pair k end.

Definition remote_results (c : cfg) : bool := negb (c_local c) && c_results c.

Definition before_gate (c : cfg) : list event :=
  (if c_config c then [LocalConfig] else [])
  ++ (if c_data c then [LocalData] else [])
  ++ (if remote_results c then [PutLive; PutLiveCounties] else []).

Definition after_gate (c : cfg) : list event :=
  (match c_estimator c with Gaussian => if c_conf c then repeat_pair (c_gauss_fits c) else [] | _ => [] end)
  ++ (if remote_results c then map PutTable (c_tables c) else []).

Definition writes (c : cfg) : list event :=
  before_gate c ++ (if c_gate_ok c then after_gate c else []).

Definition is_remote (e : event) : bool := match e with LocalConfig | LocalData => false | _ => true end.

Definition event_eqb (a b : event) : bool :=
  match a, b with
  | LocalConfig, LocalConfig | LocalData, LocalData | PutLive, PutLive | PutLiveCounties, PutLiveCounties
  | PutGaussConf, PutGaussConf | PutGaussBounds, PutGaussBounds => true
  | PutTable x, PutTable y => String.eqb x y
  | _, _ => false
  end.
Fixpoint events_eqb (a b : list event) : bool :=
  match a, b with [], [] => true | x :: a', y :: b' => event_eqb x y && events_eqb a' b' | _, _ => false end.

Definition check_writes (c : cfg) (observed : list event) : bool := events_eqb (writes c) observed.

(* ---- key templates ---- *)
Definition is_space (c : ascii) : bool :=
  let n := nat_of_ascii c in Nat.eqb n 32 || Nat.eqb n 9 || Nat.eqb n 10 || Nat.eqb n 13 || Nat.eqb n 11 || Nat.eqb n 12.
Fixpoint has_space (s : string) : bool := match s with EmptyString => false | String c r => is_space c || has_space r end.
Definition starts_with_slash (s : string) : bool := match s with String "/"%char _ => true | _ => false end.

(* a concrete key: whitespace-free, under <root>/<election id>/ *)
Definition key_ok (root election key : string) : bool :=
  negb (has_space key) && String.prefix (root ++ "/" ++ election ++ "/") key.
