(* C20: what dropping the weight normalisation does to the problem the retry solves.
   Intercept-only-free, one coefficient b on a column of ones that IS regularised -- the smallest instance of
   QuantileRegressionSolver._fit_with_regularization:  sum_i w_i * |y_i - b| / 2  +  lambda * b^2   (tau = 1/2). *)
From Coq Require Import QArith Qabs List.
From Elex Require Import Base.Loss.
Import ListNotations.

Definition scale (c : Q) (l : list obs) : list obs := map (fun o => (c * ow o, ov o)) l.

(* objective of the (un)regularised median fit; [loss] is sum w |v - b| *)
Definition objective (lambda : Q) (l : list obs) (b : Q) : Q := (1 # 2) * loss l b + lambda * (b * b).

Definition minimises (f : Q -> Q) (b : Q) : Prop := forall b', f b <= f b'.
