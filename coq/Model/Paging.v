(* C19: S3VersionUtil.list_versions (recursive paging with early stop) and get (sampling, skipping failed downloads). *)
From Coq Require Import ZArith List Bool.
Import ListNotations.
Open Scope Z_scope.

Record ver := { v_id : Z; v_lm : Z }.        (* version id, LastModified (seconds) *)
Definition page := (list ver * bool)%type.    (* Versions, IsTruncated *)

Definition ge_start (start : option Z) (v : ver) : bool := match start with None => true | Some s => s <=? v_lm v end.
Definition le_stop (stop : option Z) (v : ver) : bool := match stop with None => true | Some e => v_lm v <=? e end.
Definition in_window (start stop : option Z) (v : ver) : bool := ge_start start v && le_stop stop v.

Definition last_ok (start : option Z) (vs : list ver) : bool :=
  match vs with [] => false | _ => ge_start start (last vs {| v_id := 0; v_lm := 0 |}) end.

(* one request per page; the service answers the i-th request with the i-th page *)
Fixpoint list_versions (pages : list page) (start stop : option Z) : list ver :=
  match pages with
  | [] => []
  | (vs, truncated) :: rest =>
      let more := if truncated && last_ok start vs then list_versions rest start stop else [] in
      filter (le_stop stop) (filter (ge_start start) (vs ++ more))
  end.

(* number of requests made (pages fetched) *)
Fixpoint requests (pages : list page) (start : option Z) : nat :=
  match pages with
  | [] => O
  | (vs, truncated) :: rest => S (if truncated && last_ok start vs then requests rest start else O)
  end.

(* versions[::k] *)
Fixpoint every_nth_aux (k : nat) (skip : nat) (l : list ver) : list ver :=
  match l with
  | [] => []
  | x :: r => match skip with O => x :: every_nth_aux k (k - 1) r | S s => every_nth_aux k s r end
  end.
Definition every_nth (k : nat) (l : list ver) : list ver := every_nth_aux k 0 l.

Inductive outcome := NoData | AllFailed | Rows (stamps : list (Z * Z)).   (* (version id, stamp put on its rows) *)

Definition zmem (x : Z) (l : list Z) : bool := existsb (Z.eqb x) l.

Definition get (listed : list ver) (k : nat) (fails : list Z) (tz_shift : Z) : outcome :=
  match listed with
  | [] => NoData
  | _ => match filter (fun v => negb (zmem (v_id v) fails)) (every_nth k listed) with
         | [] => AllFailed
         | ok => Rows (map (fun v => (v_id v, v_lm v + tz_shift)) ok)
         end
  end.

(* comparators *)
Fixpoint zlist_eqb (a b : list Z) : bool :=
  match a, b with [], [] => true | x :: a', y :: b' => Z.eqb x y && zlist_eqb a' b' | _, _ => false end.
Definition check_list (pages : list page) (start stop : option Z) (impl_ids : list Z) (impl_requests : nat) : bool :=
  zlist_eqb (map v_id (list_versions pages start stop)) impl_ids && Nat.eqb (requests pages start) impl_requests
  && zlist_eqb (map v_id (list_versions pages start stop)) (map v_id (filter (in_window start stop) (concat (map fst pages)))).
Definition outcome_code (o : outcome) : Z := match o with NoData => 0 | AllFailed => 1 | Rows _ => 2 end.
Definition check_get (listed : list ver) (k : nat) (fails : list Z) (code : Z) (impl : list (Z * Z)) : bool :=
  match get listed k fails 0 with
  | Rows st => Z.eqb code 2 && zlist_eqb (map fst st) (map fst impl) && zlist_eqb (map snd st) (map snd impl)
  | o => Z.eqb code (outcome_code o)
  end.
