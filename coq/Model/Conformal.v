(* C04 / C05: conformity scores, the population-weighted correction, the robust option, the step to vote space,
   and the no-covariate (uniform swing) closed form. *)
From Coq Require Import ZArith QArith Qabs Qminmax Qround List Bool.
From Elex Require Import Base.QRound Base.Loss Model.Compare Model.Ranks Model.Floor.
Import ListNotations.
Open Scope Q_scope.

(* conformity score of a calibration unit: how far its true residual lies outside [lower, upper] (negative = inside) *)
Definition score (l u r : Q) : Q := Qmax (l - r) (r - u).

(* calibration set as (weight = baseline + 1, score) *)
Definition sw := list obs.
Definition wle (c : Q) (l : sw) : Q := wsum (fun o => Qle_bool (ov o) c) l.   (* weight of units with score <= c *)
Definition qualifies (l : sw) (q c : Q) : bool := Qltb (q * total l) (wle c l).

Fixpoint qmin_list (l : list Q) : option Q :=
  match l with
  | [] => None
  | x :: r => match qmin_list r with None => Some x | Some m => Some (Qmin x m) end
  end.

(* _compute_population_correction: smallest score whose cumulative (baseline-normalised) weight exceeds q *)
Definition pop_correction (l : sw) (q : Q) : option Q :=
  qmin_list (map ov (filter (fun o => qualifies l q (ov o)) l)).

Definition correction (robust : bool) (l : sw) (q : Q) : option Q :=
  match pop_correction l q with
  | None => None
  | Some p => Some (if robust then Qmax (quantile_lin (qsort (map ov l)) q) p else p)
  end.

(* bounds of a nonreporting unit in vote space *)
Definition np_lower (raw_lo c : Q) (last res : Z) : Z := unit_lower raw_lo c last res.
Definition np_upper (raw_hi c : Q) (last res : Z) : Z := unit_upper raw_hi c last res.

(* ---- C05: weighted median of the reporting units' relative changes ---- *)
Definition strict_wmedian (l : list obs) (m : Q) : bool := Qltb (2 * below l m) (total l) && Qltb (2 * above l m) (total l).
Definition weak_wmedian (l : list obs) (m : Q) : bool := Qle_bool (2 * below l m) (total l) && Qle_bool (2 * above l m) (total l).
Definition find_wmedian (l : list obs) : option Q :=
  match find (fun o => strict_wmedian l (ov o)) l with Some o => Some (ov o) | None => None end.
Definition weak_medians (l : list obs) : list Q := map ov (filter (fun o => weak_wmedian l (ov o)) l).

(* uniform swing: prediction of a nonreporting unit with baseline last (= previous result + 1) and partial count res *)
Definition swing_pred (m : Q) (last res : Z) : Z := unit_value m last res.

(* ---- comparators ---- *)
(* a cumulative share within 1e-9 of the level but not equal to it: binary64 cumsum may fall on either side *)
Definition ambiguous_share (l : sw) (q : Q) : bool :=
  existsb (fun o => Qle_bool (Qabs (wle (ov o) l - q * total l)) ((1 # 1000000000) * total l)
                    && negb (Qeq_bool (wle (ov o) l) (q * total l))) l.
Definition check_pop_correction (l : sw) (q : Q) (impl : Q) : bool :=
  ambiguous_share l q || match pop_correction l q with Some c => Qeq_bool c impl | None => false end.
Definition check_correction (robust : bool) (l : sw) (q : Q) (impl : Q) : bool :=
  ambiguous_share l q || match correction robust l q with Some c => close9 c impl | None => false end.
Definition check_np_bounds (raw_lo raw_hi c : Q) (last res lo hi : Z) : bool :=
  round_agrees (Qmax ((raw_lo - c) * inject_Z last + inject_Z last) (inject_Z res)) lo
  && round_agrees (Qmax ((raw_hi + c) * inject_Z last + inject_Z last) (inject_Z res)) hi.
(* uniform swing: unique median -> exact closed form; otherwise anywhere between the extreme weak medians *)
Definition check_swing (l : list obs) (coef : Q) (units : list (Z * Z * Z)) : bool :=
  match find_wmedian l with
  | Some m => close9 m coef && forallb (fun u : Z * Z * Z => let '(last, res, pred) := u in check_unit_value m last res pred) units
  | None =>
      match qmin_list (weak_medians l), qmin_list (map Qopp (weak_medians l)) with
      | Some lo, Some nhi =>
          Qle_bool (lo - (1 # 1000000000)) coef && Qle_bool coef (- nhi + (1 # 1000000000))
          && forallb (fun u : Z * Z * Z => let '(last, res, pred) := u in
                        Z.leb (unit_value lo last res - 1) pred && Z.leb pred (unit_value (- nhi) last res + 1)) units
      | _, _ => false
      end
  end.

(* regularised runs go through an iterative conic solver: the coefficient is the weighted median only up to the solver's
   tolerance (1e-5 relative), predictions within one vote of the closed form *)
Definition check_swing_approx (l : list obs) (coef : Q) (units : list (Z * Z * Z)) : bool :=
  match find_wmedian l with
  | Some m => close_tol (1 # 100000) m coef
              && forallb (fun u : Z * Z * Z => let '(last, res, pred) := u in Z.leb (Z.abs (unit_value m last res - pred)) 1) units
  | None => check_swing l coef units
  end.
