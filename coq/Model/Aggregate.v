(* Unit rows and the aggregate tables of BaseElectionModel.get_aggregate_predictions,
   NonparametricElectionModel.get_aggregate_prediction_intervals and the vote-space part of
   GaussianElectionModel.get_aggregate_prediction_intervals.  Executable definitions only. *)
From Coq Require Import ZArith QArith Qminmax List Bool String Ascii.
From Elex Require Import Base.Frame Base.QRound.
Import ListNotations.
Open Scope Z_scope.

(* which of the three frames held by ModelResultsHandler a unit row lives in *)
Inductive frame := FRep | FNon | FUnx.
Definition frame_eqb (a b : frame) : bool :=
  match a, b with FRep, FRep | FNon, FNon | FUnx, FUnx => true | _, _ => false end.

(* key columns in AGGREGATE_ORDER: 0 postal_code, 1 district, 2 county_classification, 3 county_fips *)
Record urow := {
  uid : string;
  ufr : frame;
  ukeys : okey;
  urep : Z;                 (* the "reporting" column *)
  ures : Z;                 (* results_<estimand> *)
  upred : Z;                (* pred_<estimand> *)
  uints : list (Z * Z)      (* (lower, upper) per requested level, in request order *)
}.

Definition aggr := list nat.
Definition CLS : nat := 2%nat.
Definition has_cls (a : aggr) : bool := existsb (Nat.eqb CLS) a.
Definition proj (a : aggr) (k : okey) : option key := present (map (fun i => nth i k None) a).
Definition kf (a : aggr) (r : urow) : option key := proj a (ukeys r).

Definition rows_of (f : frame) (rows : list urow) : list urow := filter (fun r => frame_eqb (ufr r) f) rows.

Definition ulo (i : nat) (r : urow) : Z := fst (nth i (uints r) (0, 0)).
Definition uhi (i : nat) (r : urow) : Z := snd (nth i (uints r) (0, 0)).

(* _get_reporting_aggregate_votes: key set and one summed column *)
Definition votes_keys (a : aggr) (rows : list urow) : list key :=
  let kr := keys (gsum (kf a) ures (rows_of FRep rows)) in
  if has_cls a then kr else okeys kr (keys (gsum (kf a) ures (rows_of FUnx rows))).

Definition votes_col (a : aggr) (vf : urow -> Z) (rows : list urow) (g : key) : Z :=
  get0 (gsum (kf a) vf (rows_of FRep rows)) g
  + (if has_cls a then 0 else get0 (gsum (kf a) vf (rows_of FUnx rows)) g).

Definition non_col (a : aggr) (vf : urow -> Z) (rows : list urow) (g : key) : Z :=
  get0 (gsum (kf a) vf (rows_of FNon rows)) g.

(* key column of every frame returned for this aggregate list: outer merge with the nonreporting groups, sorted *)
Definition agg_keys (a : aggr) (rows : list urow) : list key :=
  sort_keys (okeys (votes_keys a rows) (keys (gsum (kf a) ures (rows_of FNon rows)))).

Definition agg_results (a : aggr) rows g := votes_col a ures rows g + non_col a ures rows g.
Definition agg_reporting (a : aggr) rows g := votes_col a urep rows g + non_col a urep rows g.
Definition agg_pred (a : aggr) rows g := votes_col a ures rows g + non_col a upred rows g.
Definition agg_lo (a : aggr) (i : nat) rows g := votes_col a ures rows g + non_col a (ulo i) rows g.
Definition agg_hi (a : aggr) (i : nat) rows g := votes_col a ures rows g + non_col a (uhi i) rows g.

Record arow := { akey : key; ares : Z; arepn : Z; apred : Z; aints : list (Z * Z) }.

(* nonparametric: the returned table *)
Definition np_table (a : aggr) (nlev : nat) (rows : list urow) : list arow :=
  map (fun g => {| akey := g; ares := agg_results a rows g; arepn := agg_reporting a rows g; apred := agg_pred a rows g;
                   aints := map (fun i => (agg_lo a i rows g, agg_hi a i rows g)) (seq 0 nlev) |})
      (agg_keys a rows).

(* gaussian: per group with nonreporting units the solver-side bounds (lb, ub) are oracle inputs *)
Definition gauss_bound (last : Z) (b : Q) (partial : Z) : Q := Qmax (inject_Z last + b) (inject_Z partial).
Definition gauss_total (votes : Z) (pl : Q) : Z := rhe (pl + inject_Z votes).
Definition qlookup (g : key) (t : list (key * (Q * Q))) : option (Q * Q) :=
  match find (fun e => key_eqb g (fst e)) t with Some e => Some (snd e) | None => None end.

Definition gauss_lo (a : aggr) (last : urow -> Z) (bounds : list (key * (Q * Q))) rows g : Z :=
  match qlookup g bounds with
  | Some (lb, _) => gauss_total (votes_col a ures rows g) (gauss_bound (non_col a last rows g) lb (non_col a ures rows g))
  | None => votes_col a ures rows g
  end.
Definition gauss_hi (a : aggr) (last : urow -> Z) (bounds : list (key * (Q * Q))) rows g : Z :=
  match qlookup g bounds with
  | Some (_, ub) => gauss_total (votes_col a ures rows g) (gauss_bound (non_col a last rows g) ub (non_col a ures rows g))
  | None => votes_col a ures rows g
  end.

(* ---- key columns of a unit row ---- *)
Fixpoint split_aux (c : ascii) (s : string) (cur : string) : list string :=
  match s with
  | EmptyString => [cur]
  | String x r => if Ascii.eqb x c then cur :: split_aux c r EmptyString else split_aux c r (cur ++ String x EmptyString)
  end.
Definition split_us (s : string) : list string := split_aux "_"%char s EmptyString.

(* CombinedDataHandler._get_unexpected_units: county / district recovered from the id, only when requested *)
Definition unexpected_keys (type_has_district want_county want_district : bool) (postal uid : string) : okey :=
  let comps := split_us uid in
  [Some postal;
   if want_district then nth_error comps 0 else None;
   None;
   if want_county then nth_error comps (if type_has_district then 1 else 0)%nat else None].

(* client.get_aggregate_list: default levels of the office (without "unit") plus the requested one, in AGGREGATE_ORDER *)
Definition aggregate_list (district_office : bool) (level : nat) : aggr :=
  let base := if district_office then [0; 1]%nat else [0]%nat in
  filter (fun i => existsb (Nat.eqb i) (level :: base)) [0; 1; 2; 3]%nat.

(* ---- attribution of a unit's votes to groups (used by the theorems and by the comparators) ---- *)
(* a unit's votes can be attributed to a group of this aggregate list: units outside the model are
   (deliberately, pinned by the repository's tests) left out of classification-level tables *)
Definition attributable (a : aggr) (r : urow) : bool :=
  match ufr r with FUnx => negb (has_cls a) | _ => true end.

Definition contrib (a : aggr) (vnon : urow -> Z) (vf : urow -> Z) (r : urow) : Z :=
  match ufr r with
  | FRep => vf r
  | FNon => vnon r
  | FUnx => if has_cls a then 0 else vf r
  end.

Definition delta (a : aggr) (x : urow) (g : key) : Z :=
  if attributable a x && okey_is (kf a x) g then ures x else 0.

Definition is_some {T} (o : option T) : bool := match o with Some _ => true | None => false end.
