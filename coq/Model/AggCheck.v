(* Comparators of the correspondence check for the aggregation family (C01, C02, C03, C11):
   the implementation's returned tables against the tables the model computes from the unit rows. *)
From Coq Require Import ZArith QArith List Bool String.
From Elex Require Import Base.Frame Base.QRound Model.Aggregate Model.Compare.
Import ListNotations.
Open Scope Z_scope.

(* a unit row as the harness encodes it: baseline key columns when the unit is in the baseline *)
Definition mk_row (type_has_district want_county want_district : bool)
           (id postal : string) (fr : frame) (base : option (option string * string * string))
           (rep res pred : Z) (ints : list (Z * Z)) : urow :=
  {| uid := id; ufr := fr;
     ukeys := match base with
              | Some (d, c, k) => [Some postal; d; Some c; Some k]
              | None => unexpected_keys type_has_district want_county want_district postal id
              end;
     urep := rep; ures := res; upred := pred; uints := ints |}.

Fixpoint list_eqb {T} (eqb : T -> T -> bool) (a b : list T) : bool :=
  match a, b with
  | [], [] => true
  | x :: a', y :: b' => eqb x y && list_eqb eqb a' b'
  | _, _ => false
  end.

Definition zz_eqb (x y : Z * Z) : bool := Z.eqb (fst x) (fst y) && Z.eqb (snd x) (snd y).

Definition arow_eqb (x y : arow) : bool :=
  key_eqb (akey x) (akey y) && Z.eqb (ares x) (ares y) && Z.eqb (arepn x) (arepn y) && Z.eqb (apred x) (apred y)
  && list_eqb zz_eqb (aints x) (aints y).

Definition mk_arow (g : key) (res rep pred : Z) (ints : list (Z * Z)) : arow :=
  {| akey := g; ares := res; arepn := rep; apred := pred; aints := ints |}.

(* nonparametric: the whole table *)
Definition check_np_table (a : aggr) (nlev : nat) (rows : list urow) (impl : list arow) : bool :=
  list_eqb arow_eqb (np_table a nlev rows) impl.

(* every estimator: key column, counted votes, reporting count and point prediction *)
Definition arow_core_eqb (x y : arow) : bool :=
  key_eqb (akey x) (akey y) && Z.eqb (ares x) (ares y) && Z.eqb (arepn x) (arepn y) && Z.eqb (apred x) (apred y).
Definition check_core_table (a : aggr) (rows : list urow) (impl : list arow) : bool :=
  list_eqb arow_core_eqb (np_table a 0 rows) impl.

(* gaussian intervals: lower/upper of level i given the captured (lb, ub) per nonreporting group; a value whose
   exact pre-rounding sum is within 1e-6 of a tie may be either neighbour *)
Definition gauss_check_one (a : aggr) (last : urow -> Z) (bounds : list (key * (Q * Q))) (rows : list urow) (i : nat) (r : arow) : bool :=
  let g := akey r in
  let votes := votes_col a ures rows g in
  match qlookup g bounds with
  | Some (lb, ub) =>
      let pl := gauss_bound (non_col a last rows g) lb (non_col a ures rows g) in
      let pu := gauss_bound (non_col a last rows g) ub (non_col a ures rows g) in
      round_agrees (pl + inject_Z votes)%Q (fst (nth i (aints r) (0, 0)))
      && round_agrees (pu + inject_Z votes)%Q (snd (nth i (aints r) (0, 0)))
  | None => Z.eqb (fst (nth i (aints r) (0, 0))) votes && Z.eqb (snd (nth i (aints r) (0, 0))) votes
  end.
Definition check_gauss_intervals a last bounds rows i (impl : list arow) : bool :=
  forallb (gauss_check_one a last bounds rows i) impl.

(* unit table: every expected id exactly once *)
Fixpoint smem (s : string) (l : list string) : bool :=
  match l with [] => false | h :: r => String.eqb s h || smem s r end.
Fixpoint snodup (l : list string) : bool :=
  match l with [] => true | h :: r => negb (smem h r) && snodup r end.
Definition same_ids (expected got : list string) : bool :=
  snodup got && forallb (fun s => smem s got) expected && forallb (fun s => smem s expected) got
  && Nat.eqb (List.length expected) (List.length got).

(* statement-level predicates evaluated on the implementation's tables (search oracle twin, in Gallina) *)
Definition floors_ok (r : arow) : bool :=
  Z.leb (ares r) (apred r) && forallb (fun p : Z * Z => Z.leb (ares r) (fst p) && Z.leb (ares r) (snd p)) (aints r).

(* bootstrap (margin estimand): counted margin is normalised by the group's predicted two-party turnout *)
Definition boot_row_ok (a : aggr) (rows : list urow) (e : key * (Q * Z * Q)) : bool :=
  let '(g, (rm, rep, pt)) := e in
  Z.eqb rep (agg_reporting a rows g)
  && (if Qeq_bool pt 0 then Qeq_bool rm 0 else close9 (rm * pt)%Q (inject_Z (agg_results a rows g))).
Definition check_boot_core (a : aggr) (rows : list urow) (impl : list (key * (Q * Z * Q))) : bool :=
  list_eqb key_eqb (agg_keys a rows) (map fst impl) && forallb (boot_row_ok a rows) impl.

(* C11: the table after adding one unexpected unit x against the table before *)
Definition tbl_get (t : list arow) (g : key) : option arow := find (fun r => key_eqb (akey r) g) t.
Definition shift_ints (d : Z) (l : list (Z * Z)) : list (Z * Z) := map (fun p => (fst p + d, snd p + d)) l.
Definition check_delta (a : aggr) (x : urow) (nlev : nat) (t0 t1 : list arow) : bool :=
  forallb (fun r1 =>
    let g := akey r1 in let d := delta a x g in
    match tbl_get t0 g with
    | Some r0 => Z.eqb (ares r1) (ares r0 + d) && Z.eqb (apred r1) (apred r0 + d) && Z.eqb (arepn r1) (arepn r0)
                 && list_eqb zz_eqb (aints r1) (shift_ints d (aints r0))
    | None => attributable a x && okey_is (kf a x) g && Z.eqb (ares r1) (ures x) && Z.eqb (apred r1) (ures x) && Z.eqb (arepn r1) 0
              && list_eqb zz_eqb (aints r1) (repeat (ures x, ures x) nlev)
    end) t1
  && forallb (fun r0 => is_some (tbl_get t1 (akey r0))) t0
  && (if attributable a x && is_some (kf a x) then match kf a x with Some g => is_some (tbl_get t1 g) | None => true end else true)
  && list_eqb key_eqb (map akey t1) (sort_keys (map akey t1)).
