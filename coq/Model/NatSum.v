(* C08: BootstrapElectionModel.get_national_summary_estimates with the default hard threshold, both correlation
   modes, and the model object as a state machine over the aggregate computations that precede the summary call. *)
From Coq Require Import ZArith QArith Qminmax Qabs List Bool.
From Elex Require Import Model.Compare Model.Calls Model.Ranks.
Import ListNotations.
Open Scope Q_scope.

Record contest := {
  c_w : Q;                 (* weight (electoral votes, seats) *)
  c_pred : Q;              (* reported margin prediction (after call adjustment) *)
  c_d1 : list Q;           (* bootstrap margins, draw by draw *)
  c_d2 : list Q;
  c_call : call;
  c_stop : bool
}.

Definition b2q (b : bool) : Q := if b then 1 else 0.
Definition pred_state (c : contest) : bool := Qltb 0 (c_pred c).

Definition nat_pred (cs : list contest) : Q := qsum (map (fun c => c_w c * b2q (pred_state c)) cs).

Fixpoint count (f : Q -> bool) (l : list Q) : Z := match l with [] => 0%Z | x :: r => ((if f x then 1 else 0) + count f r)%Z end.
Fixpoint zipminus (a b : list Q) : list Q := match a, b with x :: a', y :: b' => (x - y) :: zipminus a' b' | _, _ => [] end.

(* correlation mode (default): a contest can flip iff more than lower_q of its draws fall on the other side *)
Definition dist (c : contest) : list Q := map (fun e => c_pred c - e) (zipminus (c_d1 c) (c_d2 c)).
Definition frac_gt (n : Z) (B : Z) (q : Q) : bool := Qltb q (inject_Z n / inject_Z B).
Definition can_win (lq : Q) (B : Z) (c : contest) : bool := frac_gt (count (fun x => Qltb 0 x) (dist c)) B lq.
Definition can_lose (lq : Q) (B : Z) (c : contest) : bool := frac_gt (count (fun x => Qltb x 0) (dist c)) B lq.

(* the columns picked by the argsort of the 2B national totals are an oracle in the uncorrelated mode *)
Definition state_at (c : contest) (j : nat) : bool := Qltb 0 (nth j (c_d1 c ++ c_d2 c) 0).

Definition base_loss (corr : bool) (lq : Q) (B : Z) (jlo : nat) (c : contest) : bool :=
  if corr then pred_state c && can_lose lq B c else pred_state c && negb (state_at c jlo).
Definition base_gain (corr : bool) (lq : Q) (B : Z) (jhi : nat) (c : contest) : bool :=
  if corr then negb (pred_state c) && can_win lq B c else negb (pred_state c) && state_at c jhi.

Definition is_called (c : contest) : bool := match c_call c with NoCall => false | _ => true end.

Definition loss (corr : bool) (lq : Q) (B : Z) (jlo : nat) (c : contest) : bool :=
  let l0 := if is_called c then false else base_loss corr lq B jlo c in
  if pred_state c && c_stop c then true else l0.
Definition gain (corr : bool) (lq : Q) (B : Z) (jhi : nat) (c : contest) : bool :=
  let g0 := if is_called c then false else base_gain corr lq B jhi c in
  if negb (pred_state c) && c_stop c then true else g0.

Definition nat_lower corr lq B jlo (cs : list contest) : Q := nat_pred cs - qsum (map (fun c => c_w c * b2q (loss corr lq B jlo c)) cs).
Definition nat_upper corr lq B jhi (cs : list contest) : Q := nat_pred cs + qsum (map (fun c => c_w c * b2q (gain corr lq B jhi c)) cs).

(* None = BootstrapElectionModelException (weights of the wrong size) *)
Definition nat_sum (corr : bool) (a : Q) (B : Z) (jlo jhi : nat) (weights : list Q) (cs : list contest) (base : Q) : option (Q * Q * Q) :=
  if negb (Nat.eqb (List.length weights) (List.length cs)) then None
  else let cs' := map (fun wc : Q * contest => {| c_w := fst wc; c_pred := c_pred (snd wc); c_d1 := c_d1 (snd wc); c_d2 := c_d2 (snd wc);
                                                  c_call := c_call (snd wc); c_stop := c_stop (snd wc) |}) (combine weights cs) in
       let lq := lower_q a B in
       Some (nat_pred cs' + base, nat_lower corr lq B jlo cs' + base, nat_upper corr lq B jhi cs' + base).

(* ---- the model object between calls: which contest-level state the summary reads ---- *)
Record mstate := { m_contests : option (list contest) }.
Inductive op :=
  | AggregateCall (top_level : bool) (payload : list contest)      (* get_aggregate_predictions + intervals for one aggregate list *)
  | Summary.
Definition mstep (s : mstate) (o : op) : mstate :=
  match o with
  | AggregateCall true payload => {| m_contests := Some payload |}
  | AggregateCall false _ => s
  | Summary => s
  end.
Definition mrun (ops : list op) : mstate := fold_left mstep ops {| m_contests := None |}.

(* comparator (correlation mode is deterministic) *)
Definition check_nat_sum (a : Q) (B : Z) (weights : list Q) (cs : list contest) (base : Q) (impl : option (Q * Q * Q)) : bool :=
  match nat_sum true a B 0 0 weights cs base, impl with
  | None, None => true
  | Some (p, l, u), Some (p', l', u') =>
      Qle_bool (Qabs (p - p')) (6 # 1000) && Qle_bool (Qabs (l - l')) (6 # 1000) && Qle_bool (Qabs (u - u')) (6 # 1000)
  | _, _ => false
  end.
