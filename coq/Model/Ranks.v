(* C06: quantile ranks of BootstrapElectionModel._get_quantiles, np.quantile (linear interpolation) on the sorted
   bootstrap draws, unit and aggregate bounds, clipping of margins / turnout factors. *)
From Coq Require Import ZArith QArith Qround Qminmax Qabs List Bool.
From Elex Require Import Base.QRound Model.Compare.
Import ListNotations.
Open Scope Q_scope.

(* ranks (numerators of lower_q, upper_q over B) *)
Definition lower_rank (a : Q) (B : Z) : Z := Qfloor ((1 - a) * (1 # 2) * (inject_Z B + 1)).
Definition upper_rank (a : Q) (B : Z) : Z := Qceiling ((1 - (1 - a) * (1 # 2)) * (inject_Z B - 1)).
Definition lower_q (a : Q) (B : Z) : Q := inject_Z (lower_rank a B) / inject_Z B.
Definition upper_q (a : Q) (B : Z) : Q := inject_Z (upper_rank a B) / inject_Z B.

(* np.quantile(xs, q), default linear interpolation, xs sorted ascending *)
Definition nthq (l : list Q) (i : Z) : Q := nth (Z.to_nat i) l 0.
Definition quantile_lin (xs : list Q) (q : Q) : Q :=
  let n := Z.of_nat (List.length xs) in
  let h := q * inject_Z (n - 1) in
  let k := Qfloor h in
  let k' := Z.min (k + 1) (n - 1) in
  nthq xs k + (h - inject_Z k) * (nthq xs k' - nthq xs k).

Fixpoint qinsert (x : Q) (l : list Q) : list Q :=
  match l with [] => [x] | y :: r => if Qle_bool x y then x :: l else y :: qinsert x r end.
Fixpoint qsort (l : list Q) : list Q := match l with [] => [] | x :: r => qinsert x (qsort r) end.

(* get_unit_prediction_intervals: the tuple unpacking assigns (upper, lower) = pred - quantile(err, [lower_q, upper_q]) *)
Definition unit_interval (a : Q) (B : Z) (pred : Q) (errs : list Q) : Z * Z :=
  let s := qsort errs in
  (rhe (pred - quantile_lin s (upper_q a B)), rhe (pred - quantile_lin s (lower_q a B))).

(* get_aggregate_prediction_intervals before race calls: forced to straddle the prediction by 1/1000 *)
Definition agg_interval (a : Q) (B : Z) (pred : Q) (errs : list Q) : Q * Q :=
  let s := qsort errs in
  (Qmin (pred - quantile_lin s (upper_q a B)) (pred - (1 # 1000)), Qmax (pred - quantile_lin s (lower_q a B)) (pred + (1 # 1000))).

(* np.clip(x, min=lo, max=hi) *)
Definition clip (lo hi x : Q) : Q := Qmin hi (Qmax lo x).

(* _generate_nonreporting_bounds for the normalised margin: f = expected-vote fraction, nm = margin so far *)
Definition y_lower (f nm ylo : Q) : Q := f * nm + (1 - f) * ylo.
Definition y_upper (f nm yhi : Q) : Q := f * nm + (1 - f) * yhi.

Fixpoint qsum (l : list Q) : Q := match l with [] => 0 | x :: r => x + qsum r end.

(* comparators *)
Definition check_ranks (a : Q) (B : Z) (lq uq : Q) : bool :=
  (floor_agrees ((1 - a) * (1 # 2) * (inject_Z B + 1)) (Qfloor (lq * inject_Z B + (1 # 2))) || false)
  && (ceil_agrees ((1 - (1 - a) * (1 # 2)) * (inject_Z B - 1)) (Qfloor (uq * inject_Z B + (1 # 2))))
  && close12 (inject_Z (Qfloor (lq * inject_Z B + (1 # 2))) / inject_Z B) lq
  && close12 (inject_Z (Qfloor (uq * inject_Z B + (1 # 2))) / inject_Z B) uq.

Definition ranks_valid_b (a : Q) (B : Z) : bool :=
  Z.leb 0 (lower_rank a B) && Z.leb (lower_rank a B) (upper_rank a B) && Z.leb (upper_rank a B) B.

Definition check_unit_interval (a : Q) (B : Z) (pred : Q) (errs : list Q) (lo hi : Z) : bool :=
  let s := qsort errs in
  round_agrees (pred - quantile_lin s (upper_q a B)) lo && round_agrees (pred - quantile_lin s (lower_q a B)) hi.

(* the same comparison for several levels at once (the draws are sorted once) *)
Definition check_unit_intervals (B : Z) (pred : Q) (errs : list Q) (l : list (Q * Z * Z)) : bool :=
  let s := qsort errs in
  forallb (fun '(a, lo, hi) =>
    round_agrees (pred - quantile_lin s (upper_q a B)) lo && round_agrees (pred - quantile_lin s (lower_q a B)) hi) l.
