(* C13: column schema of the merged result tables (pandas merge suffixing) and the per-level cache of the gaussian
   estimator's unadjusted bounds. *)
From Coq Require Import List String Bool QArith.
Import ListNotations.
Open Scope string_scope.

Fixpoint smem (s : string) (l : list string) : bool := match l with [] => false | h :: r => String.eqb s h || smem s r end.

(* pd.merge(left, right, on=on): key columns once; a non-key column present on both sides becomes <c>_x / <c>_y *)
Definition merge_cols (on l r : list string) : list string :=
  map (fun c => if smem c on then c else if smem c r then c ++ "_x" else c) l
  ++ map (fun c => if smem c l then c ++ "_y" else c) (filter (fun c => negb (smem c on)) r).

Definition merge_all (on : list string) (frames : list (list string)) : list string :=
  match frames with [] => [] | f :: r => fold_left (merge_cols on) r f end.

(* per-estimand frame = common columns (keys, categories) ++ columns specific to the estimand *)
Definition frame_cols (common : list string) (specific : string -> list string) (e : string) : list string := common ++ specific e.

Fixpoint subsetb (a b : list string) : bool := match a with [] => true | x :: r => smem x b && subsetb r b end.

(* ---- gaussian estimator: unadjusted unit bounds are cached per interval level (the 1.0.8 fix) ---- *)
Section Cache.
  Variable B : Type.
  Definition cache := list (Q * B).
  Fixpoint cache_get (a : Q) (c : cache) : option B :=
    match c with [] => None | (k, v) :: r => if Qeq_bool k a then Some v else cache_get a r end.
  Definition cache_put (a : Q) (v : B) (c : cache) : cache := (a, v) :: c.
  Inductive cop := UnitIntervals (a : Q) (b : B) | AggIntervals (a : Q).
  (* running the nested loops: state after the ops, and what every AggIntervals read *)
  Fixpoint crun (ops : list cop) (c : cache) : list (Q * option B) :=
    match ops with
    | [] => []
    | UnitIntervals a b :: r => crun r (cache_put a b c)
    | AggIntervals a :: r => (a, cache_get a c) :: crun r c
    end.
  (* the single-slot design the fix replaced *)
  Fixpoint crun_single (ops : list cop) (slot : option B) : list (Q * option B) :=
    match ops with
    | [] => []
    | UnitIntervals a b :: r => crun_single r (Some b)
    | AggIntervals a :: r => (a, slot) :: crun_single r slot
    end.
End Cache.
Arguments UnitIntervals {B}. Arguments AggIntervals {B}. Arguments crun {B}. Arguments crun_single {B}. Arguments cache_get {B}. Arguments cache_put {B}.
