(* C09 / C01: which units feed the model.  CombinedDataHandler.__init__ (left join, drop / zero policy),
   get_units, _get_unexpected_units, _get_non_modeled_units written as the code is (filters, isin, concat,
   drop_duplicates keeping the first), and the per-unit decision table.  Executable definitions only.
   Outlier-model flags are oracle inputs (fields of the row). *)
From Coq Require Import ZArith QArith List Bool String.
From Elex Require Import Model.Compare.
Import ListNotations.
Open Scope Q_scope.

Inductive category := Expected | Unexpected | Blocklisted | ZeroBaseline | StrangeTF | StrangeTFModeled | StrangeMarginModeled.

Definition category_eqb (a b : category) : bool :=
  match a, b with
  | Expected, Expected | Unexpected, Unexpected | Blocklisted, Blocklisted | ZeroBaseline, ZeroBaseline
  | StrangeTF, StrangeTF | StrangeTFModeled, StrangeTFModeled | StrangeMarginModeled, StrangeMarginModeled => true
  | _, _ => false
  end.

Record params := {
  p_thr : Q; p_lo : Q; p_hi : Q;
  p_unit_bl : list string; p_postal_bl : list string;
  p_zero_policy : bool;        (* handle_unreporting = "zero" *)
  p_margin : bool              (* "margin" among the estimands: the margin outlier model may run *)
}.

Record brow := { b_id : string; b_postal : string; b_w : Q }.                         (* baseline: id, state, baseline_weights *)
(* feed: id, state, results_weights, percent; f_nan = the row is in the feed but one of the requested results columns is missing (NaN) *)
Record frow := { f_id : string; f_postal : string; f_rw : Q; f_pev : Q; f_nan : bool }.

(* a row of self.data (baseline left-joined with the feed) *)
Record drow := { d_id : string; d_postal : string; d_w : Q; d_rw : Q; d_pev : Q; d_flag_t : bool; d_flag_m : bool }.

Fixpoint smem (s : string) (l : list string) : bool :=
  match l with [] => false | h :: r => String.eqb s h || smem s r end.

Definition find_feed (feed : list frow) (postal id : string) : option frow :=
  find (fun f => String.eqb (f_id f) id && String.eqb (f_postal f) postal) feed.

(* flags: ids flagged by the turnout / margin outlier model (oracle) *)
Definition join (p : params) (flag_t flag_m : list string) (base : list brow) (feed : list frow) : list drow :=
  flat_map (fun b =>
    (* no results for this unit (not in the feed, or in the feed with a missing value): dropna under "drop", zeros under "zero" *)
    let missing := if p_zero_policy p
                   then [ {| d_id := b_id b; d_postal := b_postal b; d_w := b_w b; d_rw := 0; d_pev := 0;
                             d_flag_t := smem (b_id b) flag_t; d_flag_m := smem (b_id b) flag_m |} ]
                   else [] in
    match find_feed feed (b_postal b) (b_id b) with
    | Some f => if f_nan f then missing
                else [ {| d_id := b_id b; d_postal := b_postal b; d_w := b_w b; d_rw := f_rw f; d_pev := f_pev f;
                          d_flag_t := smem (b_id b) flag_t; d_flag_m := smem (b_id b) flag_m |} ]
    | None => missing
    end) base.

(* Estimandizer.add_turnout_factor: nan / inf replaced by 0 *)
Definition safe_div (x y : Q) : Q := if Qeq_bool y 0 then 0 else x / y.
Definition tf (r : drow) : Q := safe_div (d_rw r) (d_w r).

Definition rep0 (p : params) (r : drow) : bool := Qle_bool (p_thr p) (d_pev r).
Definition blk (p : params) (r : drow) : bool := smem (d_id r) (p_unit_bl p) || smem (d_postal r) (p_postal_bl p).
Definition zero_b (r : drow) : bool := Qeq_bool (d_w r) 0.
Definition strange (p : params) (r : drow) : bool := Qle_bool (tf r) (p_lo p) || Qle_bool (p_hi p) (tf r).

(* --- procedural: _get_non_modeled_units = concat of five frames, drop_duplicates(keep first) --- *)
Definition tagged := (string * category)%type.
Definition tag (c : category) (r : drow) : tagged := (d_id r, c).

Fixpoint dedup_first (seen : list string) (l : list tagged) : list tagged :=
  match l with
  | [] => []
  | (i, c) :: r => if smem i seen then dedup_first seen r else (i, c) :: dedup_first (i :: seen) r
  end.

Definition non_modeled_concat (p : params) (data : list drow) : list tagged :=
  map (tag Blocklisted) (filter (blk p) data)
  ++ map (tag ZeroBaseline) (filter zero_b data)
  ++ map (tag StrangeTF) (filter (fun r => rep0 p r && strange p r) data)
  ++ map (tag StrangeTFModeled) (filter (fun r => rep0 p r && d_flag_t r) data)
  ++ map (tag StrangeMarginModeled) (filter (fun r => rep0 p r && d_flag_m r && p_margin p) data).

Definition non_modeled (p : params) (data : list drow) : list tagged := dedup_first [] (non_modeled_concat p data).

(* _get_unexpected_units: feed rows whose id is not in self.data, first occurrence per id *)
Definition not_in_ids (ids : list string) (feed : list frow) : list frow := filter (fun f => negb (smem (f_id f) ids)) feed.
Definition unexpected (data : list drow) (feed : list frow) : list tagged :=
  dedup_first [] (map (fun f => (f_id f, Unexpected)) (not_in_ids (map d_id data) feed)).

Definition ids_of (l : list tagged) : list string := map fst l.

(* frame[~frame.id.isin(ids)] *)
Definition minus_ids (ids : list string) (l : list drow) : list drow := filter (fun r => negb (smem (d_id r) ids)) l.

Definition reporting_units (p : params) (data : list drow) (feed : list frow) : list drow :=
  minus_ids (ids_of (non_modeled p data)) (minus_ids (ids_of (unexpected data feed)) (filter (rep0 p) data)).

Definition nonreporting_units (p : params) (data : list drow) (feed : list frow) : list drow :=
  minus_ids (ids_of (non_modeled p data)) (minus_ids (ids_of (unexpected data feed)) (filter (fun r => negb (rep0 p r)) data)).

Definition all_unexpected (p : params) (data : list drow) (feed : list frow) : list tagged :=
  unexpected data feed ++ non_modeled p data.

(* the unit table: (id, category, reporting flag) *)
Definition unit_table (p : params) (data : list drow) (feed : list frow) : list (string * category * bool) :=
  map (fun r => (d_id r, Expected, true)) (reporting_units p data feed)
  ++ map (fun r => (d_id r, Expected, false)) (nonreporting_units p data feed)
  ++ map (fun t => (fst t, snd t, false)) (all_unexpected p data feed).

(* --- declarative: the decision table for one joined unit --- *)
Definition classify (p : params) (r : drow) : category * bool :=
  if blk p r then (Blocklisted, false)
  else if zero_b r then (ZeroBaseline, false)
  else if rep0 p r && strange p r then (StrangeTF, false)
  else if rep0 p r && d_flag_t r then (StrangeTFModeled, false)
  else if rep0 p r && d_flag_m r && p_margin p then (StrangeMarginModeled, false)
  else (Expected, rep0 p r).

Definition used_for_fit (p : params) (r : drow) : bool :=
  let (c, rep) := classify p r in category_eqb c Expected && rep.

(* --- comparator --- *)
Definition lookup_unit (i : string) (t : list (string * category * bool)) : option (category * bool) :=
  match find (fun e => String.eqb (fst (fst e)) i) t with Some e => Some (snd (fst e), snd e) | None => None end.

Definition unit_eqb (x y : string * category * bool) : bool :=
  String.eqb (fst (fst x)) (fst (fst y)) && category_eqb (snd (fst x)) (snd (fst y)) && Bool.eqb (snd x) (snd y).

Fixpoint units_eqb (a b : list (string * category * bool)) : bool :=
  match a, b with
  | [], [] => true
  | x :: a', y :: b' => unit_eqb x y && units_eqb a' b'
  | _, _ => false
  end.

(* implementation frames (reporting, nonreporting, unexpected) in their own row order vs the model's *)
Definition check_get_units (p : params) (flag_t flag_m : list string) (base : list brow) (feed : list frow)
           (impl : list (string * category * bool)) : bool :=
  units_eqb (unit_table p (join p flag_t flag_m base feed) feed) impl.

(* and the decision table agrees with the procedural pipeline on this input *)
Definition check_decision_table (p : params) (flag_t flag_m : list string) (base : list brow) (feed : list frow) : bool :=
  let data := join p flag_t flag_m base feed in
  let t := unit_table p data feed in
  forallb (fun r => match lookup_unit (d_id r) t with
                    | Some (c, rep) => category_eqb c (fst (classify p r)) && Bool.eqb rep (snd (classify p r))
                    | None => false end) data.

Definition check_tf (w rw impl : Q) : bool := close12 (safe_div rw w) impl.
