(* C15: which calibration set a gaussian aggregate interval is computed from.
   GaussianModel._get_n_units_per_group, the recursion of GaussianModel.fit (small groups use the fit one aggregation
   level up, large groups their own) and the matching loop of GaussianElectionModel.get_aggregate_prediction_intervals
   (from the finest level upwards, cross join at the top).  Calibration units are identified by an index;
   the statistics (_fit, norm.ppf, scipy bootstrap) are oracles. *)
From Coq Require Import ZArith QArith Qminmax List Bool String Arith.
From Elex Require Import Base.Frame Base.QRound Model.Compare.
Import ListNotations.

Definition cal := (key * nat)%type.          (* full (finest) key of a calibration unit, its index *)

Definition prefix (k : nat) (g : key) : key := firstn k g.
Definition cnt_at (k : nat) (conf : list cal) (g : key) : nat :=
  List.length (filter (fun c => key_eqb (prefix k (fst c)) g) conf).
Definition ids_at (k : nat) (conf : list cal) (g : key) : list nat :=
  map snd (filter (fun c => key_eqb (prefix k (fst c)) g) conf).

Fixpoint kdedup (l : list key) : list key :=
  match l with [] => [] | x :: r => if kmem x r then kdedup r else x :: kdedup r end.

(* groups at level k: of the calibration units and of the nonreporting units *)
Definition groups_at (k : nat) (conf : list cal) (nu : list key) : list key :=
  kdedup (map (fun c => prefix k (fst c)) conf ++ map (prefix k) nu).
Definition conf_groups_at (k : nat) (conf : list cal) : list key := kdedup (map (fun c => prefix k (fst c)) conf).

Definition threshold (conf : list cal) : nat := Nat.min 10 (List.length conf).

(* a fitted model row: the key prefix it belongs to (shorter than the aggregate list = fitted at a coarser level) and the
   calibration units it was fitted on *)
Definition mrow := (nat * key * list nat)%type.   (* level (number of key columns that are not NaN), key prefix, calibration units *)
Definition mk (k : nat) (conf : list cal) (g : key) : mrow := (k, g, ids_at k conf g).

Fixpoint gfit (k : nat) (conf : list cal) (nu : list key) : list mrow :=
  match conf with
  | [] => []
  | _ =>
    let T := threshold conf in
    if forallb (fun g => Nat.leb T (cnt_at k conf g)) (groups_at k conf nu)
    then map (mk k conf) (conf_groups_at k conf)
    else match k with
         | O => map (mk 0 conf) (conf_groups_at 0 conf)     (* unreachable: the single group has all units *)
         | S k' =>
             gfit k' conf nu
             ++ map (mk k conf) (filter (fun g => Nat.leb T (cnt_at k conf g)) (groups_at k conf nu))
         end
  end.

(* the matching loop: exact key first, then one level up, ..., finally the model of all calibration units *)
Definition find_level (j : nat) (models : list mrow) (g : key) : option (list nat) :=
  match find (fun m : mrow => Nat.eqb (fst (fst m)) j && key_eqb (snd (fst m)) (prefix j g)) models with
  | Some m => Some (snd m)
  | None => None
  end.
Fixpoint match_from (j : nat) (models : list mrow) (g : key) : option (nat * list nat) :=
  match find_level j models g with
  | Some ids => Some (j, ids)
  | None => match j with O => None | S j' => match_from j' models g end
  end.

Definition assign (k : nat) (conf : list cal) (nu : list key) (g : key) : option (nat * list nat) :=
  match_from k (gfit k conf nu) g.

(* declarative rule: own calibration set if it holds at least T units, otherwise the parent's, ..., otherwise all *)
Fixpoint rule (k : nat) (conf : list cal) (g : key) : nat * list nat :=
  match k with
  | O => (O, ids_at 0 conf (prefix 0 g))
  | S k' => if Nat.leb (threshold conf) (cnt_at k conf (prefix k g)) then (k, ids_at k conf (prefix k g)) else rule k' conf g
  end.

(* bounds formula pieces over Q (norm.ppf is an oracle of (q, loc, variance)) *)
Section Formula.
  Open Scope Q_scope.
  Variable ppf : Q -> Q -> Q -> Q.
  Definition agg_variance (sigma kappa wsum wssum : Q) : Q := sigma * sigma * (wssum + kappa * (wsum * wsum)).
  Definition gauss_lb (alpha unadjusted_lower wsum wssum mu sigma kappa : Q) : Q :=
    unadjusted_lower - ppf ((3 + alpha) * (1 # 4)) (wsum * mu) (agg_variance sigma kappa wsum wssum).
  Definition gauss_ub (alpha unadjusted_upper wsum wssum mu sigma kappa : Q) : Q :=
    unadjusted_upper + ppf ((3 + alpha) * (1 # 4)) (wsum * mu) (agg_variance sigma kappa wsum wssum).
End Formula.

(* comparator: the level (length of the matched key) the implementation used must be the model's; [levels] are the
   levels whose calibration statistics are indistinguishable from the implementation's row *)
Definition check_assign (k : nat) (conf : list cal) (nu : list key) (g : key) (levels : list nat) : bool :=
  match assign k conf nu g with
  | Some (j, ids) => existsb (Nat.eqb j) levels
                     && (let (j', ids') := rule k conf g in Nat.eqb j j' && Nat.eqb (List.length ids) (List.length ids'))
  | None => false
  end.

(* the reported aggregate bound (GaussianElectionModel.get_aggregate_prediction_intervals, last two steps):
     max( sum of baselines + (summed unit bound -/+ normal quantile), votes already counted in the outstanding units )
       + votes counted in the rest of the group,
   rounded.  [ppfv] is the value norm.ppf returned for this group's row (oracle). *)
Definition reported_bound (upper : bool) (unadjusted wsum ppfv vn rest : Q) : Q :=
  Qmax (wsum + (if upper then unadjusted + ppfv else unadjusted - ppfv)) vn + rest.
Definition check_reported_bound (upper : bool) (unadjusted wsum ppfv vn rest : Q) (reported : Z) : bool :=
  round_agrees (reported_bound upper unadjusted wsum ppfv vn rest) reported.
