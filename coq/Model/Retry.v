(* C20: ConformalElectionModel.fit_model -- a failed / inaccurate solve is retried without weight normalisation. *)
From Coq Require Import List String Bool.
Import ListNotations.
Open Scope string_scope.

(* ---- call shapes: which value every parameter of the solver receives ---- *)
Fixpoint assoc (k : string) (l : list (string * string)) : option string :=
  match l with [] => None | (a, b) :: r => if String.eqb a k then Some b else assoc k r end.

Fixpoint smemb (s : string) (l : list string) : bool :=
  match l with [] => false | h :: r => String.eqb s h || smemb s r end.

Fixpoint nodupb (l : list string) : bool := match l with [] => true | h :: r => negb (smemb h r) && nodupb r end.

(* effective argument of every parameter: positional, else keyword, else default *)
Fixpoint effective (params : list (string * string)) (pos : list string) (kw : list (string * string)) : list (string * string) :=
  match params with
  | [] => []
  | (n, d) :: ps =>
      match pos with
      | v :: pos' => (n, v) :: effective ps pos' kw
      | [] => (n, match assoc n kw with Some v => v | None => d end) :: effective ps [] kw
      end
  end.

Fixpoint set_arg (k v : string) (l : list (string * string)) : list (string * string) :=
  match l with [] => [] | (a, b) :: r => if String.eqb a k then (a, v) :: r else (a, b) :: set_arg k v r end.

(* a call is accepted by the signature: every keyword is a parameter, none given twice, not more positionals than parameters *)
Definition call_ok (params : list (string * string)) (pos : list string) (kw : list (string * string)) : bool :=
  forallb (fun k => smemb k (map fst params)) (map fst kw)
  && nodupb (map fst kw)
  && Nat.leb (List.length pos) (List.length params)
  && forallb (fun k => negb (smemb k (firstn (List.length pos) (map fst params)))) (map fst kw).

Fixpoint pairs_eqb (a b : list (string * string)) : bool :=
  match a, b with
  | [], [] => true
  | (x, y) :: a', (u, v) :: b' => String.eqb x u && String.eqb y v && pairs_eqb a' b'
  | _, _ => false
  end.

(* ---- control flow ---- *)
Section Control.
  Variables (Args Coef : Type).
  Inductive failure := InaccurateWarning | SolverBroke | Other.
  Inductive result := Ok (c : Coef) | Err (e : failure).

  Definition caught (e : failure) : bool := match e with Other => false | _ => true end.

  (* solve normalize args *)
  Variable solve : bool -> Args -> result.

  Definition fit_model (a : Args) : result :=
    match solve true a with
    | Ok c => Ok c
    | Err e => if caught e then solve false a else Err e
    end.

  (* a run = a list of fits, each with its own arguments; a fault injected at one position replaces the first
     attempt of that fit only *)
  Definition run (fits : list Args) : list result := map fit_model fits.
End Control.
Arguments Ok {Coef}. Arguments Err {Coef}. Arguments fit_model {Args Coef}. Arguments run {Args Coef}.
