(* C07: race calls and call-stops in BootstrapElectionModel (_format_called_contests, _adjust_called_contests and the
   four np.where of get_aggregate_prediction_intervals, in the code's order). *)
From Coq Require Import ZArith QArith Qminmax List Bool String.
From Elex Require Import Model.Compare.
Import ListNotations.
Open Scope Q_scope.

Inductive call := CallL | CallR | NoCall.

Fixpoint smem (s : string) (l : list string) : bool :=
  match l with [] => false | h :: r => String.eqb s h || smem s r end.

(* None = BootstrapElectionModelException *)
Definition format_called (lhs rhs contests : list string) : option (list call) :=
  if existsb (fun c => smem c rhs) lhs then None
  else if negb (forallb (fun c => smem c contests) lhs) then None
  else if negb (forallb (fun c => smem c contests) rhs) then None
  else Some (map (fun c => if smem c lhs then CallL else if smem c rhs then CallR else NoCall) contests).

Definition format_stops (stops contests : list string) : option (list bool) :=
  if negb (forallb (fun c => smem c contests) stops) then None
  else Some (map (fun c => smem c stops) contests).

Definition lhs_thr : Q := 5 # 1000.
Definition rhs_thr : Q := - (5 # 1000).

Definition adjust_pred (c : call) (p : Q) : Q :=
  match c with CallL => Qmax lhs_thr p | CallR => Qmin rhs_thr p | NoCall => p end.

Definition is_L (c : call) : bool := match c with CallL => true | _ => false end.
Definition is_R (c : call) : bool := match c with CallR => true | _ => false end.

Definition adjust_bounds (c : call) (stop : bool) (b : Q * Q) : Q * Q :=
  let (lo, hi) := b in
  let lo1 := if Qltb lo 0 && is_L c then lhs_thr else lo in
  let hi1 := if Qltb 0 hi && is_R c then rhs_thr else hi in
  let lo2 := if Qltb 0 lo1 && stop then rhs_thr else lo1 in
  let hi2 := if Qltb hi1 0 && stop then lhs_thr else hi1 in
  (lo2, hi2).

(* comparators *)
Definition call_code (c : call) : Z := match c with CallL => 1 | CallR => 0 | NoCall => -1 end%Z.
Fixpoint zl_eqb (a b : list Z) : bool :=
  match a, b with [], [] => true | x :: a', y :: b' => Z.eqb x y && zl_eqb a' b' | _, _ => false end.
Definition check_format (lhs rhs contests : list string) (impl : option (list Z)) : bool :=
  match format_called lhs rhs contests, impl with
  | None, None => true
  | Some l, Some m => zl_eqb (map call_code l) m
  | _, _ => false
  end.
(* raw bounds as produced before the calls are applied: forced to straddle the (already adjusted) prediction by 1/1000 *)
Definition straddle (p lo hi : Q) : Q * Q := (Qmin lo (p - (1 # 1000)), Qmax hi (p + (1 # 1000))).
Definition check_adjust (c : call) (stop : bool) (p lo hi p' lo' hi' : Q) : bool :=
  let pa := adjust_pred c p in
  let b := adjust_bounds c stop (straddle pa (pa - (p - lo)) (pa + (hi - p))) in
  close12 pa p' && close12 (fst b) lo' && close12 (snd b) hi'.
