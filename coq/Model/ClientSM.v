(* C12: determinism.  (1) every source of randomness of an estimate run is a site that draws either from a generator
   derived from the seed setting or from process-global state; (2) the client object as a state machine over calls. *)
From Coq Require Import List String Bool.
Import ListNotations.

Section Randomness.
  Variable Site Seed Global Draw Out : Type.
  Variable seeded : Site -> bool.
  Variable from_seed : Seed -> Site -> Draw.          (* what a seeded site draws: a function of the seed setting and the site *)
  Variable from_global : Global -> Site -> Draw.      (* what an unseeded site draws: depends on process-global generator state *)
  Variable compute : list Draw -> Out.                (* everything else is a deterministic function of the arguments *)

  Definition draw (sd : Seed) (g : Global) (s : Site) : Draw := if seeded s then from_seed sd s else from_global g s.
  Definition exec (sites : list Site) (sd : Seed) (g : Global) : Out := compute (map (draw sd g) sites).
End Randomness.

Section Client.
  Variable Args Field Out : Type.
  (* the fields of the client object; [reads] = the fields get_estimates may read before writing them *)
  Variable State : Type.
  Variable project : list string -> State -> list Field.        (* the values of the named fields *)
  Variable after : Args -> State.                               (* get_estimates overwrites every field it uses from its arguments *)
  Variable body : Args -> list Field -> Out.                    (* the call's result: a function of the arguments and of what it read *)

  Inductive call := GetEstimates (a : Args).
  Definition cstep (reads : list string) (s : State) (c : call) : State * Out :=
    match c with GetEstimates a => (after a, body a (project reads s)) end.
  Fixpoint crun (reads : list string) (s : State) (cs : list call) : State :=
    match cs with [] => s | c :: r => crun reads (fst (cstep reads s c)) r end.
End Client.
