(* The only canonicalisations used when implementation output (binary64, transported exactly) is compared
   with the exact-rational model. *)
From Coq Require Import ZArith QArith Qround Qabs Qminmax Bool List.
From Elex Require Import Base.QRound.
Import ListNotations.
Open Scope Q_scope.

Definition Qleb := Qle_bool.
Definition Qltb (x y : Q) : bool := negb (Qle_bool y x).
Definition Qeqb (x y : Q) : bool := Qeq_bool x y.

(* |x - y| <= tol * max(1, |y|) *)
Definition close_tol (tol x y : Q) : bool :=
  Qle_bool (Qabs (x - y)) (tol * Qmax 1 (Qabs y)).
Definition close9 := close_tol (1 # 1000000000).
Definition close6 := close_tol (1 # 1000000).
Definition close12 := close_tol (1 # 1000000000000).

(* distance of q to the nearest integer *)
Definition dist_int (q : Q) : Q := Qabs (q - inject_Z (rhe q)).
Definition near_int (q : Q) : bool := Qle_bool (dist_int q) (1 # 1000000000).
(* q within 1e-6 of a half-integer k + 1/2 *)
Definition near_half (q : Q) : bool := Qle_bool (dist_int (q - (1 # 2))) (1 # 1000000).

(* an integer produced by rounding the float value: exact, except that next to a tie either neighbour is accepted *)
Definition round_agrees (exact : Q) (impl : Z) : bool :=
  Z.eqb (rhe exact) impl || (near_half exact && Z.leb (Z.abs (rhe exact - impl)) 1).
Definition floor_agrees (exact : Q) (impl : Z) : bool :=
  Z.eqb (Qfloor exact) impl || (near_int exact && Z.leb (Z.abs (Qfloor exact - impl)) 1).
Definition ceil_agrees (exact : Q) (impl : Z) : bool :=
  Z.eqb (Qceiling exact) impl || (near_int exact && Z.leb (Z.abs (Qceiling exact - impl)) 1).

Fixpoint all_true (l : list bool) : bool := match l with [] => true | b :: r => b && all_true r end.
