(* C14: the arithmetic of the minimum-units gate and of the train / calibration split.
   Executable definitions only (no proofs here). *)
From Coq Require Import ZArith QArith Qround Qminmax Qabs List.
From Elex Require Import Base.QRound.
Import ListNotations.
Open Scope Q_scope.

(* NonparametricElectionModel.get_minimum_reporting_units *)
Definition np_minimum (a : Q) : Z := Qceiling ((1 + a) / (1 - a)).

(* NonparametricElectionModel._compute_conf_frac *)
Definition np_conf_frac (n : Z) (a : Q) : Q :=
  round2 (Qmin (1 - (1 + a) / (inject_Z n * (1 - a))) (9 # 10)).

(* ConformalElectionModel.get_unit_prediction_interval_bounds: rows used for training (after the F7 repair) *)
Definition train_rows (n : Z) (frac : Q) : Z := Z.max 1 (Qfloor (inject_Z n * frac)).
Definition train_rows_unrepaired (n : Z) (frac : Q) : Z := Qfloor (inject_Z n * frac).

Definition np_train (n : Z) (a : Q) : Z := train_rows n (np_conf_frac n a).
Definition np_ncal (n : Z) (a : Q) : Z := (n - np_train n a)%Z.

(* quantile level used for the conformal correction *)
Definition correction_quantile (a : Q) (ncal : Z) : Q := a * (1 + 1 / inject_Z ncal).

(* gaussian *)
Definition gauss_conf_frac : Q := 7 # 10.
Definition gauss_minimum : Q := 10 * gauss_conf_frac.
Definition gauss_train (n : Z) : Z := train_rows n gauss_conf_frac.

(* the gate of client.get_estimates: maximum over the requested levels, compared with the number of
   modelled reporting units; then the duplicate check *)
Inductive outcome := NotEnough | Duplicate | Runs.

Fixpoint max_minimum (mins : list Q) : Q :=
  match mins with
  | [] => 0
  | m :: r => let t := max_minimum r in if Qlt_le_dec t m then m else t
  end.

Definition gate (n : Z) (mins : list Q) (has_dup : bool) : outcome :=
  if Qlt_le_dec (inject_Z n) (max_minimum mins) then NotEnough
  else if has_dup then Duplicate else Runs.

(* ---- comparators used by the correspondence check (run by vm_compute on generated cases) ---- *)
From Elex Require Import Model.Compare.

(* one level a (exact value of the binary64 level), the implementation's minimum, and a list of
   (n, implementation training fraction) *)
Definition check_np_minimum (a : Q) (m_impl : Z) : bool := ceil_agrees ((1 + a) / (1 - a)) m_impl.

Definition check_np_frac (a : Q) (nf : Z * Q) : bool :=
  let (n, f) := nf in
  close12 (np_conf_frac n a) f
  || (near_half (Qmin (1 - (1 + a) / (inject_Z n * (1 - a))) (9 # 10) * 100) && Qle_bool (Qabs (np_conf_frac n a - f)) (1 # 99)).

Definition check_np_level (a : Q) (m_impl : Z) (nfs : list (Z * Q)) : bool :=
  check_np_minimum a m_impl && forallb (check_np_frac a) nfs.

(* the statement of C14 evaluated on the implementation's own numbers: n >= minimum -> valid split *)
Definition split_ok (a : Q) (n : Z) (f : Q) : bool :=
  let tr := train_rows n f in let c := (n - tr)%Z in
  Z.leb 1 tr && Z.leb 1 c && Qltb (a * (inject_Z c + 1)) (inject_Z c).
Definition check_np_split (a : Q) (m_impl : Z) (nfs : list (Z * Q)) : bool :=
  forallb (fun nf : Z * Q => let (n, f) := nf in if Z.leb m_impl n then split_ok a n f else true) nfs.

Definition outcome_eqb (x y : outcome) : bool :=
  match x, y with NotEnough, NotEnough | Duplicate, Duplicate | Runs, Runs => true | _, _ => false end.
Definition check_gate (n : Z) (mins : list Q) (dup : bool) (impl : outcome) : bool := outcome_eqb (gate n mins dup) impl.
