(* C10: which rows can influence a fit.  Generic over the row type; instantiated with the unit model of C09. *)
From Coq Require Import ZArith QArith Qminmax List Bool String.
From Elex Require Import Model.Compare Model.Units.
Import ListNotations.

Section Generic.
  Variable R : Type.
  Variable rid : R -> string.
  Variable cand : R -> bool.                         (* rows the outlier models are fitted on (after the F5 repair) *)
  Variable fit_ok : R -> bool -> bool -> bool.       (* used for fitting, given the turnout / margin outlier flags of the row *)
  Variables outlier_t outlier_m : list R -> list string.   (* the outlier models: ANY function of the candidate rows *)

  Definition flags_t (data : list R) : list string := outlier_t (filter cand data).
  Definition flags_m (data : list R) : list string := outlier_m (filter cand data).
  Definition fit_rows (data : list R) : list R :=
    filter (fun r => fit_ok r (smem (rid r) (flags_t data)) (smem (rid r) (flags_m data))) data.

  (* every quantity fitted by an estimator is a function of the fitting rows (and of features / keys of other rows that
     do not depend on counts): represented by an arbitrary function [estimate] *)
  Definition pipeline {Y} (estimate : list R -> Y) (data : list R) : Y := estimate (fit_rows data).
End Generic.

(* instantiation with the C09 unit model *)
Definition cand_unit (p : params) (r : drow) : bool :=
  rep0 p r && negb (blk p r) && negb (zero_b r) && negb (strange p r).
Definition fit_ok_unit (p : params) (r : drow) (ft fm : bool) : bool :=
  cand_unit p r && negb ft && negb (fm && p_margin p).

(* bootstrap: a unit's partial count enters only the clipping bounds of the same unit's draws *)
Section Clip.
  Open Scope Q_scope.
  Variable U : Type.
  Variable bounds : U -> Q -> Q * Q.          (* per-unit clip bounds as a function of the unit's own partial count *)
  Variable raw : U -> Q.                      (* the unit's draw before clipping: a function of the training summary, the unit's
                                                 features and its slice of the seeded generator -- not of any partial count *)
  Definition clipq (b : Q * Q) (x : Q) : Q := Qmin (snd b) (Qmax (fst b) x).
  Definition draws (units : list (U * Q)) : list Q := map (fun uc => clipq (bounds (fst uc) (snd uc)) (raw (fst uc))) units.
End Clip.

(* historical evaluation: results of units below the threshold are hidden before the model sees them *)
Definition hide (thr : Q) (rows : list (string * Q * list Q)) : list (string * Q * list Q) :=
  map (fun r => let '(i, pev, res) := r in if Qle_bool thr pev then r else (i, pev, map (fun _ => 0%Q) res)) rows.
