(* C09 (derived quantities) / C05 (baseline = previous result + 1): Estimandizer.add_estimand_results / add_estimand_baselines /
   add_turnout_factor and the residual column of CombinedDataHandler.get_units, one unit at a time, over exact rationals.
   nan / inf produced by a zero denominator are replaced by 0 (np.nan_to_num(..., nan=0, posinf=0, neginf=0)). *)
From Coq Require Import ZArith QArith Qabs List Bool.
From Elex Require Import Model.Compare.
Import ListNotations.
Open Scope Q_scope.

Definition qdiv0 (x y : Q) : Q := if Qeq_bool y 0 then 0 else x / y.

Record derived := { dv_weights : Q; dv_margin : Q; dv_nmargin : Q }.

(* the margin estimand: two-party weights, margin, normalised margin *)
Definition margin_columns (dem gop : Q) : derived :=
  {| dv_weights := dem + gop; dv_margin := dem - gop; dv_nmargin := qdiv0 (dem - gop) (dem + gop) |}.

(* add_weights for the other estimands: the weight is the turnout *)
Definition plain_weights (turnout : Q) : Q := turnout.

Definition turnout_factor (results_weights baseline_weights : Q) : Q := qdiv0 results_weights baseline_weights.

(* last_election_results_<e> = baseline_<e> + 1 ; residuals_<e> = (results_<e> - last) / last *)
Definition last_election (baseline : Q) : Q := baseline + 1.
Definition residual (results baseline : Q) : Q := (results - last_election baseline) / last_election baseline.

(* comparators (implementation floats transported exactly; 1e-9 relative) *)
Definition check_margin_columns (dem gop w m nm : Q) : bool :=
  let d := margin_columns dem gop in Qeq_bool (dv_weights d) w && Qeq_bool (dv_margin d) m && close9 (dv_nmargin d) nm.
Definition check_turnout_factor (rw bw tf : Q) : bool := close9 (turnout_factor rw bw) tf.
Definition check_residual (results baseline last resid : Q) : bool :=
  Qeq_bool (last_election baseline) last && close9 (residual results baseline) resid.

(* C12 (known finding F23): add_estimand_baselines on the columns that decide the baseline weights of a unit, for a run that requests
   the margin.  The frame is processed in place; `has_margin` says whether baseline_margin is already a column of the frame handed in
   (it is after a first pass, and in the file a call with "data" in save_output writes). *)
Record bframe := { bf_dem : Q; bf_gop : Q; bf_turnout : Q; bf_weights : option Q; bf_has_margin : bool }.
Definition add_baselines_margin (f : bframe) : bframe :=
  (* add_weights: baseline_weights = baseline_turnout, whatever was there *)
  let f1 := {| bf_dem := bf_dem f; bf_gop := bf_gop f; bf_turnout := bf_turnout f; bf_weights := Some (bf_turnout f); bf_has_margin := bf_has_margin f |} in
  (* "if baseline_col not in data_df.columns": margin() -- which overwrites the weights with the two-party vote -- runs only then *)
  if bf_has_margin f1 then f1
  else {| bf_dem := bf_dem f; bf_gop := bf_gop f; bf_turnout := bf_turnout f; bf_weights := Some (bf_dem f + bf_gop f); bf_has_margin := true |}.
Definition weights_eqb (a b : option Q) : bool :=
  match a, b with Some x, Some y => Qeq_bool x y | None, None => true | _, _ => false end.
(* comparator: baseline_weights of a unit after one and after two passes over the same frame *)
Definition check_add_baselines (dem gop turnout w1 w2 : Q) : bool :=
  let f0 := {| bf_dem := dem; bf_gop := gop; bf_turnout := turnout; bf_weights := None; bf_has_margin := false |} in
  weights_eqb (bf_weights (add_baselines_margin f0)) (Some w1) && weights_eqb (bf_weights (add_baselines_margin (add_baselines_margin f0))) (Some w2).
