(* C11 / C10 (bootstrap, district offices): which contests get a random effect of their own in
   BootstrapElectionModel.compute_bootstrap_errors.

     all_units            = reporting ++ nonreporting ++ unexpected        (e ++ u below; e = the first n_train + n_test rows)
     postal_code_filter   = F.groupby(state)[contest].nunique() > 1         (states that are not at-large)
     valid_districts      = F[F.state in valid states][contest].unique()    (order of first appearance)
     filtered             = indicator[:, valid_districts][:, count(contest) > threshold]

   Each of the three decisions reads a frame F that is either the expected prefix or all units; which one is re-derived from the
   source on every run (Gen/Contests.v). A unit is represented by its contest key (state, district). *)
From Coq Require Import List String Bool Arith.
Import ListNotations.

Inductive frame := Expected | AllUnits.
Definition contest := (string * string)%type.

Definition pick (f : frame) (e u : list contest) : list contest :=
  match f with Expected => e | AllUnits => (e ++ u)%list end.

Definition ceqb (a b : contest) : bool := String.eqb (fst a) (fst b) && String.eqb (snd a) (snd b).
Definition cmem (c : contest) (l : list contest) : bool := existsb (ceqb c) l.

(* pandas unique(): first appearances, in order *)
Fixpoint uniq_acc (seen l : list contest) : list contest :=
  match l with
  | [] => []
  | c :: r => if cmem c seen then uniq_acc seen r else c :: uniq_acc (c :: seen) r
  end.
Definition uniq (l : list contest) : list contest := uniq_acc [] l.

Definition in_state (s : string) (c : contest) : bool := String.eqb (fst c) s.
Definition n_contests (l : list contest) (s : string) : nat := List.length (uniq (filter (in_state s) l)).
Definition multi (l : list contest) (s : string) : bool := Nat.ltb 1 (n_contests l s).
Definition count (c : contest) (l : list contest) : nat := List.length (filter (ceqb c) l).

Definition valid_districts (fm fv : frame) (e u : list contest) : list contest :=
  uniq (filter (fun c => multi (pick fm e u) (fst c)) (pick fv e u)).

Definition selected (fm fv fc : frame) (thr : nat) (e u : list contest) : list contest :=
  filter (fun c => Nat.ltb thr (count c (pick fc e u))) (valid_districts fm fv e u).

(* comparator for the correspondence check: the implementation's contest-effect columns, in order *)
Fixpoint clist_eqb (a b : list contest) : bool :=
  match a, b with
  | [], [] => true
  | x :: a', y :: b' => ceqb x y && clist_eqb a' b'
  | _, _ => false
  end.
Definition check_selected (fm fv fc : frame) (thr : nat) (e u impl : list contest) : bool :=
  clist_eqb (selected fm fv fc thr e u) impl.
