(* Bootstrap estimator: aggregate turnout / normalised margin by indicator-matrix sums
   (BootstrapElectionModel.get_aggregate_predictions), and the positional assignment of the
   contest-ordered vectors onto the key-sorted frame.  Executable definitions only. *)
From Coq Require Import ZArith QArith List Bool String Ascii.
From Elex Require Import Base.Frame Model.Aggregate Model.Compare.
Import ListNotations.
Open Scope Q_scope.

Record brow := {
  b_fr : frame;
  b_keys : okey;
  b_resm : Q;      (* counted (unnormalised) margin of the unit *)
  b_predm : Q;     (* predicted unnormalised margin: results for reporting / unexpected units *)
  b_predt : Q      (* predicted two-party turnout *)
}.

Definition bkf (a : aggr) (r : brow) : option key := proj a (b_keys r).

(* column c of  indicator^T @ v  *)
Fixpoint qsum_where (a : aggr) (vf : brow -> Q) (g : key) (rows : list brow) : Q :=
  match rows with
  | [] => 0
  | r :: rs => (if okey_is (bkf a r) g then vf r else 0) + qsum_where a vf g rs
  end.

(* distinct complete keys in order of first appearance *)
Fixpoint distinct_keys (a : aggr) (rows : list brow) (acc : list key) : list key :=
  match rows with
  | [] => acc
  | r :: rs => match bkf a r with
               | Some g => distinct_keys a rs (if kmem g acc then acc else acc ++ [g])
               | None => distinct_keys a rs acc
               end
  end.

(* "_".join of the key columns *)
Fixpoint joined (g : key) : string :=
  match g with [] => EmptyString | [s] => s | s :: r => (s ++ "_" ++ joined r)%string end.

(* contests = columns of the indicator matrix.  After the repair of F2 they are ordered like the frame
   (by the key tuple); before, pd.get_dummies ordered them by the joined string. *)
Definition contests (a : aggr) (rows : list brow) : list key := sort_keys (distinct_keys a rows []).
Definition contests_joined_order (a : aggr) (rows : list brow) : list key :=
  isort (fun x y => String.leb (joined x) (joined y)) (distinct_keys a rows []).

Definition z_total (a : aggr) (rows : list brow) (g : key) : Q := qsum_where a b_predt g rows.
Definition yz_total (a : aggr) (rows : list brow) (g : key) : Q := qsum_where a b_predm g rows.
Definition safe_div (x y : Q) : Q := if Qeq_bool y 0 then 0 else x / y.

(* the frame has one row per key of frame_keys (tuple-sorted, from the base class); the vectors computed per
   contest are assigned by position *)
Definition assign_positional {V} (frame_keys : list key) (vec : list V) : list (key * V) := combine frame_keys vec.

Definition boot_turnout_column (a : aggr) (rows : list brow) (frame_keys : list key) : list (key * Q) :=
  assign_positional frame_keys (map (z_total a rows) (contests a rows)).
Definition boot_turnout_column_joined (a : aggr) (rows : list brow) (frame_keys : list key) : list (key * Q) :=
  assign_positional frame_keys (map (z_total a rows) (contests_joined_order a rows)).

Fixpoint list_eqb_keys (x y : list key) : bool :=
  match x, y with [], [] => true | h :: x', k :: y' => key_eqb h k && list_eqb_keys x' y' | _, _ => false end.

(* comparator: implementation rows (key, pred_margin, pred_turnout); pred_margin before any race-call adjustment *)
Definition boot_agg_row_ok (a : aggr) (rows : list brow) (e : key * (Q * Q)) : bool :=
  let '(g, (pm, pt)) := e in
  close9 pt (z_total a rows g) && close_tol (1 # 1000000) (pm * pt) (yz_total a rows g).
Definition check_boot_agg (a : aggr) (rows : list brow) (impl : list (key * (Q * Q))) : bool :=
  list_eqb_keys (contests a rows) (map fst impl) && forallb (boot_agg_row_ok a rows) impl.
