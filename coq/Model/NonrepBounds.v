(* C06: BootstrapElectionModel._generate_nonreporting_bounds -- the bounds every bootstrap draw of a nonreporting unit is clipped to.
   f = percent_expected_vote.clip(max=100) / 100; for the normalised margin the counted part keeps its margin and the outstanding
   part may go entirely one way; for the turnout factor the expected vote is trusted up to an error bound; below one half counted
   (or with everything counted) the naive bounds are used.  np.isclose(a, b) is |a - b| <= 1e-8 + 1e-5 |b|. *)
From Coq Require Import ZArith QArith Qabs Qminmax List Bool.
From Elex Require Import Model.Compare.
Import ListNotations.
Open Scope Q_scope.

Definition isclose (a b : Q) : bool := Qle_bool (Qabs (a - b)) ((1 # 100000000) + (1 # 100000) * Qabs b).
Definition frac (pev : Q) : Q := Qmin pev 100 * (1 # 100).
(* "if percent reporting is 0 or 1 ... revert to naive bounds": less than half counted, or everything counted *)
Definition naive (f : Q) : bool := Qltb f (1 # 2) || isclose f 1.

Definition y_bounds (ylo yhi pev nm : Q) : Q * Q :=
  let f := frac pev in
  if naive f then (ylo, yhi) else (f * nm + (1 - f) * ylo, f * nm + (1 - f) * yhi).

Definition z_bounds (zlo zhi err pev tf : Q) : Q * Q :=
  let f := frac pev in
  if naive f then (zlo, zhi)
  else let up := tf / Qmax (f - err) (1 # 100) in
       (tf / (f + err), if isclose up 0 then zhi else up).

(* comparator: the implementation's pair for one unit (binary64, transported exactly) *)
Definition check_bounds (model impl : Q * Q) : bool := close9 (fst model) (fst impl) && close9 (snd model) (snd impl).
Definition check_y_bounds (ylo yhi : Q) (rows : list (Q * Q * (Q * Q))) : bool :=
  forallb (fun r => check_bounds (y_bounds ylo yhi (fst (fst r)) (snd (fst r))) (snd r)) rows.
Definition check_z_bounds (zlo zhi err : Q) (rows : list (Q * Q * (Q * Q))) : bool :=
  forallb (fun r => check_bounds (z_bounds zlo zhi err (fst (fst r)) (snd (fst r))) (snd r)) rows.
