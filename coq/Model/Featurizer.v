(* C16: Featurizer.prepare_data / filter_to_active_features / generate_holdout_data over Q.
   Fixed-effect columns are addressed structurally (effect index, level); the code addresses them by the string
   "<effect>_<level>" and groups them with startswith(<effect>): faithful when no effect name is a prefix of another's
   dummy names (hypothesis stated in DESIGN.md; the column NAMES are compared by the correspondence check). *)
From Coq Require Import ZArith QArith List Bool String.
From Elex Require Import Base.Frame Model.Compare.
Import ListNotations.
Open Scope Q_scope.

Record frow := {
  f_fit : bool;            (* reporting and unit_category = expected: a fitting row *)
  f_rep : bool;            (* reporting = 1 (used by the per-state feature copies) *)
  f_state : string;
  f_levels : list string;  (* raw value of every fixed-effect column *)
  f_feats : list Q         (* raw value of every feature *)
}.

Record fparams := {
  p_fes : list (string * option (list string));   (* effect name, selected levels (None = "all") *)
  p_feats : list string;
  p_sep : list string;                            (* states_for_separate_model *)
  p_center : bool
}.

Fixpoint smem (s : string) (l : list string) : bool := match l with [] => false | h :: r => String.eqb s h || smem s r end.

(* levels not selected by the user are pooled into "other" *)
Definition pooled (sel : option (list string)) (lv : string) : string :=
  match sel with Some ls => if smem lv ls then lv else "other"%string | None => lv end.
Definition level_of (p : fparams) (i : nat) (r : frow) : string :=
  pooled (snd (nth i (p_fes p) (""%string, None))) (nth i (f_levels r) ""%string).

(* sorted distinct values (pd.get_dummies orders categories by code point) *)
Fixpoint sdedup (l : list string) : list string :=
  match l with [] => [] | x :: r => if smem x r then sdedup r else x :: sdedup r end.
Definition sorted_distinct (l : list string) : list string := isort String.leb (sdedup l).

Definition levels (p : fparams) (i : nat) (rows : list frow) : list string := sorted_distinct (map (level_of p i) rows).
Definition observed (p : fparams) (i : nat) (rows : list frow) : list string :=
  filter (fun lv => existsb (fun r => f_fit r && String.eqb (level_of p i r) lv) rows) (levels p i rows).
(* with an intercept the first observed level of every effect is dropped: the intercept stands in for it *)
Definition absorbed (p : fparams) (i : nat) (rows : list frow) : option string := hd_error (observed p i rows).
Definition active (p : fparams) (i : nat) (rows : list frow) : list string := tl (observed p i rows).
Definition expanded (p : fparams) (i : nat) (rows : list frow) : list string :=
  filter (fun lv => match absorbed p i rows with Some a => negb (String.eqb lv a) | None => true end) (levels p i rows).

(* per-state copies only for listed states that have reporting units *)
Definition live_sep (p : fparams) (rows : list frow) : list string :=
  filter (fun st => existsb (fun r => f_rep r && String.eqb (f_state r) st) rows) (p_sep p).

Definition raw_feat (p : fparams) (rows : list frow) (j : nat) (r : frow) : Q :=
  if smem (f_state r) (live_sep p rows) then 0 else nth j (f_feats r) 0.
Fixpoint qsum (l : list Q) : Q := match l with [] => 0 | x :: r => x + qsum r end.
Definition mean (l : list Q) : Q := match l with [] => 0 | _ => qsum l / inject_Z (Z.of_nat (List.length l)) end.
Definition feat_value (p : fparams) (rows : list frow) (j : nat) (r : frow) : Q :=
  raw_feat p rows j r - (if p_center p then mean (map (raw_feat p rows j) rows) else 0).
Definition copy_value (st : string) (j : nat) (r : frow) : Q := if String.eqb (f_state r) st then nth j (f_feats r) 0 else 0.
Definition intercept_value (p : fparams) (r : frow) : Q := if smem (f_state r) (p_sep p) then 0 else 1.

(* column names *)
Definition dummy_name (fe lv : string) : string := (fe ++ "_" ++ lv)%string.
Definition fe_name (p : fparams) (i : nat) : string := fst (nth i (p_fes p) (""%string, None)).
Definition copy_names (p : fparams) (rows : list frow) : list string :=
  flat_map (fun st => map (fun f => (f ++ "_" ++ st)%string) (p_feats p)) (live_sep p rows).
Definition idx (n : nat) : list nat := seq 0 n.
Definition fe_cols (p : fparams) (rows : list frow) (which : fparams -> nat -> list frow -> list string) : list string :=
  flat_map (fun i => map (dummy_name (fe_name p i)) (which p i rows)) (idx (List.length (p_fes p))).

(* _sort_features: stable sort by (intercept, baseline_normalized_margin*, rest) *)
Definition key_of (s : string) : nat :=
  if String.prefix "intercept" s then 0%nat else if String.prefix "baseline_normalized_margin" s then 1%nat else 2%nat.
Definition sort_features (l : list string) : list string :=
  filter (fun s => Nat.eqb (key_of s) 0) l ++ filter (fun s => Nat.eqb (key_of s) 1) l ++ filter (fun s => Nat.eqb (key_of s) 2) l.

Definition complete_features (p : fparams) (rows : list frow) : list string :=
  sort_features ("intercept"%string :: p_feats p ++ copy_names p rows ++ fe_cols p rows expanded).
Definition active_features (p : fparams) (rows : list frow) : list string :=
  sort_features ("intercept"%string :: p_feats p ++ copy_names p rows ++ fe_cols p rows active).

(* one row of the prepared matrix, as (column name, value), before sorting the columns *)
Definition indicator (p : fparams) (i : nat) (r : frow) (lv : string) : Q := if String.eqb (level_of p i r) lv then 1 else 0.

(* generate_holdout_data: a row whose level was not observed in fitting gets 1/(k+1) on the k active levels of that effect *)
Definition holdout_value (p : fparams) (rows : list frow) (i : nat) (r : frow) (lv : string) : Q :=
  let unseen := negb (smem (level_of p i r) (observed p i rows)) in
  if unseen then 1 / inject_Z (Z.of_nat (List.length (active p i rows)) + 1) else indicator p i r lv.

Definition named_row (p : fparams) (rows : list frow) (holdout : bool) (which : fparams -> nat -> list frow -> list string) (r : frow) : list (string * Q) :=
  ("intercept"%string, intercept_value p r)
  :: combine (p_feats p) (map (fun j => feat_value p rows j r) (idx (List.length (p_feats p))))
  ++ flat_map (fun st => combine (map (fun f => (f ++ "_" ++ st)%string) (p_feats p)) (map (fun j => copy_value st j r) (idx (List.length (p_feats p))))) (live_sep p rows)
  ++ flat_map (fun i => map (fun lv => (dummy_name (fe_name p i) lv, if holdout then holdout_value p rows i r lv else indicator p i r lv)) (which p i rows))
              (idx (List.length (p_fes p))).

Fixpoint lookup (s : string) (l : list (string * Q)) : Q :=
  match l with [] => 0 | (a, v) :: r => if String.eqb a s then v else lookup s r end.
Definition ordered_row (names : list string) (nr : list (string * Q)) : list Q := map (fun s => lookup s nr) names.

Definition prepared_row p rows r := ordered_row (complete_features p rows) (named_row p rows false expanded r).
Definition fitting_row p rows r := ordered_row (active_features p rows) (named_row p rows false active r).
Definition holdout_row p rows r := ordered_row (active_features p rows) (named_row p rows true active r).

(* comparators *)
Fixpoint slist_eqb (a b : list string) : bool :=
  match a, b with [], [] => true | x :: a', y :: b' => String.eqb x y && slist_eqb a' b' | _, _ => false end.
Fixpoint qlist_close (a b : list Q) : bool :=
  match a, b with [], [] => true | x :: a', y :: b' => close9 x y && qlist_close a' b' | _, _ => false end.
Fixpoint rows_close (a b : list (list Q)) : bool :=
  match a, b with [], [] => true | x :: a', y :: b' => qlist_close x y && rows_close a' b' | _, _ => false end.
Definition check_featurizer (p : fparams) (rows : list frow) (impl_complete impl_active : list string)
           (impl_prepared : list (list Q)) (fit_rows hold_rows : list frow) (impl_fit impl_hold : list (list Q)) : bool :=
  slist_eqb (complete_features p rows) impl_complete && slist_eqb (active_features p rows) impl_active
  && rows_close (map (prepared_row p rows) rows) impl_prepared
  && rows_close (map (fitting_row p rows) fit_rows) impl_fit
  && rows_close (map (holdout_row p rows) hold_rows) impl_hold.
