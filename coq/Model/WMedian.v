(* C15: the centre and the variance inflation of a gaussian calibration group.
   math_utils.weighted_median (argsort, cumulative normalised weights, last index with cumulative weight <= 1/2,
   average of the two neighbours when that cumulative weight is exactly 1/2, first element when it alone is over 1/2)
   and math_utils.compute_inflate (sum of squares over square of the sum). *)
From Coq Require Import ZArith QArith Qabs Qminmax List Bool.
From Elex Require Import Base.Loss Model.Compare.
Import ListNotations.
Open Scope Q_scope.

(* np.argsort on the values: insertion sort by value (ties keep their order; the result does not depend on it) *)
Fixpoint oinsert (o : obs) (l : list obs) : list obs :=
  match l with
  | [] => [o]
  | p :: r => if Qle_bool (ov o) (ov p) then o :: p :: r else p :: oinsert o r
  end.
Fixpoint osort (l : list obs) : list obs := match l with [] => [] | o :: r => oinsert o (osort r) end.

(* how a cumulative weight c compares with half of the total T (weights are divided by their sum in the code) *)
Definition cls_exact (T c : Q) : comparison := (2 * c ?= T).

(* scan of the sorted units: [prev] = value and class of the last unit whose cumulative weight is <= 1/2 *)
Fixpoint wm_scan (cls : Q -> comparison) (prev : option (Q * comparison)) (l : list obs) (acc : Q) : option Q :=
  match l with
  | [] => None
  | o :: r =>
      let c := acc + ow o in
      match cls c with
      | Gt => match prev with
              | Some (p, Eq) => Some ((p + ov o) * (1 # 2))     (* cumulative weight exactly 1/2: average *)
              | _ => Some (ov o)                                (* next larger element, or the first one *)
              end
      | k => wm_scan cls (Some (ov o, k)) r c
      end
  end.
Definition wm_with (cls : Q -> Q -> comparison) (l : list obs) : option Q := wm_scan (cls (total l)) None (osort l) 0.
Definition weighted_median (l : list obs) : option Q := wm_with cls_exact l.

Fixpoint qsum (l : list Q) : Q := match l with [] => 0 | x :: r => x + qsum r end.
Definition ssq (l : list Q) : Q := qsum (map (fun x => x * x) l).
Definition inflate (l : list Q) : Q := ssq l / (qsum l * qsum l).

(* ---- comparators ---- *)
(* binary64: the normalised cumulative weight next to 1/2 may fall on either side, or on it *)
Definition near_half_w (T c : Q) : bool := Qle_bool (Qabs (2 * c - T)) ((1 # 1000000000) * T).
Definition cls_tol (k : comparison) (T c : Q) : comparison := if near_half_w T c then k else cls_exact T c.
Definition check_wmedian (l : list obs) (impl : Q) : bool :=
  existsb (fun r => match r with Some m => close12 m impl | None => false end)
          [wm_with cls_exact l; wm_with (cls_tol Lt) l; wm_with (cls_tol Eq) l; wm_with (cls_tol Gt) l].
Definition check_inflate (w : list Q) (impl : Q) : bool := close12 (inflate w) impl.
