(* C17: VersionedDataHandler.compute_versioned_margin_estimate for one unit's version history, over Q. *)
From Coq Require Import ZArith QArith Qround Qabs Qminmax List Bool.
From Elex Require Import Base.QRound Model.Compare.
Import ListNotations.
Open Scope Q_scope.

Record version := { v_turnout : Q; v_pev : Q; v_dem : Q; v_gop : Q; v_nm : Q }.   (* v_nm = results_normalized_margin *)
Definition v_w (v : version) : Q := v_dem v + v_gop v.

Definition lastv (d : version) (l : list version) : version := last l d.
Definition dummy : version := {| v_turnout := 0; v_pev := 0; v_dem := 0; v_gop := 0; v_nm := 0 |}.

(* share of the final turnout; 0 everywhere when the final turnout is 0 *)
Definition perc_corr (tl : Q) (v : version) : Q := if Qeq_bool tl 0 then 0 else v_turnout v / tl.

Fixpoint nondecreasing (l : list Q) : bool :=
  match l with
  | a :: ((b :: _) as r) => Qle_bool a b && nondecreasing r
  | _ => true
  end.

(* np.diff(x, append=x[-1]): successive differences, last one 0 *)
Fixpoint diffs (f : version -> Q) (l : list version) : list Q :=
  match l with
  | a :: ((b :: _) as r) => (f b - f a) :: diffs f r
  | [_] => [0]
  | [] => []
  end.

(* batch margin: 0/0 -> 0 (NaN replaced), x/0 with x <> 0 -> infinite = impossible batch *)
Inductive bm := Fin (q : Q) | Inf.
Definition batch1 (num den : Q) : bm :=
  if Qeq_bool den 0 then (if Qeq_bool num 0 then Fin 0 else Inf) else Fin (num / den).
Fixpoint batches (l : list version) : list bm :=
  match l with
  | a :: ((b :: _) as r) => batch1 ((v_dem b - v_dem a) - (v_gop b - v_gop a)) (v_w b - v_w a) :: batches r
  | [_] => [Fin 0]
  | [] => []
  end.
Definition bm_bad (b : bm) : bool := match b with Inf => true | Fin q => Qltb 1 (Qabs q) end.
Definition bm_val (b : bm) : Q := match b with Fin q => q | Inf => 0 end.

Inductive err := NonMonotone | BatchMargin.

(* rows used by the interpolation: (re-scaled percent, normalised margin, batch margin of the next batch) *)
Definition obs := (Q * Q * Q)%type.
Definition o_pv (o : obs) : Q := fst (fst o).
Definition o_nm (o : obs) : Q := snd (fst o).
Definition o_b (o : obs) : Q := snd o.

(* searchsorted(pv, p, side="right") - 1 on an ascending array: the last observation with pv <= p *)
Fixpoint last_le (p : Q) (l : list obs) (acc : option obs) : option obs :=
  match l with
  | [] => acc
  | x :: r => if Qle_bool (o_pv x) p then last_le p r (Some x) else acc
  end.

Definition est (nm0 : Q) (rows : list obs) (p : Q) : Q :=
  if Qeq_bool p 0 then 0
  else match last_le p rows None with
       | None => (nm0 * 0 + nm0 * (p - 0)) / p
       | Some o => (o_nm o * o_pv o + o_b o * (p - o_pv o)) / p
       end.

Definition analyse (l : list version) : err + (list obs * Q (* nm of the last version *) * Z (* max whole percent *)) :=
  let tl := v_turnout (lastv dummy l) in
  let pc := map (perc_corr tl) l in
  if negb (nondecreasing pc) then inl NonMonotone
  else let bs := batches l in
       if existsb bm_bad bs then inl BatchMargin
       else let pl := v_pev (lastv dummy l) in
            let rows := map (fun vb : version * bm => (perc_corr tl (fst vb) * pl, v_nm (fst vb), bm_val (snd vb))) (combine l bs) in
            inr (rows, v_nm (lastv dummy l), Qfloor (fold_right Qmax 0 (map o_pv rows))).

(* the returned frame: one row per whole percent; None = missing (NaN) *)
Definition out_row := (Z * option Q * option Q)%type.   (* percent, est_margin, est_correction *)
Definition table (l : list version) : option err * list out_row :=
  match analyse l with
  | inl e => (Some e, map (fun k => (Z.of_nat k, None, None)) (seq 0 101))
  | inr (rows, nml, maxp) =>
      let nm0 := match rows with o :: _ => o_nm o | [] => 0 end in
      (None, map (fun k => let p := inject_Z (Z.of_nat k) in (Z.of_nat k, Some (est nm0 rows p), Some (nml - est nm0 rows p)))
                 (seq 0 (Z.to_nat (maxp + 1))))
  end.

(* extrapolation step of BootstrapElectionModel._extrapolate_unit_margin: only non-missing corrections close to an
   observation are averaged *)
Definition usable (maxd : Q) (c : Q * option Q) : option Q :=
  match snd c with Some x => if Qltb (fst c) maxd then Some x else None | None => None end.
Fixpoint keep_some {T} (l : list (option T)) : list T :=
  match l with [] => [] | Some x :: r => x :: keep_some r | None :: r => keep_some r end.
Definition mean (l : list Q) : option Q :=
  match l with [] => None | _ => Some (fold_right Qplus 0 l / inject_Z (Z.of_nat (List.length l))) end.
Definition extrapolated (maxd : Q) (cands : list (Q * option Q)) : option Q := mean (keep_some (map (usable maxd) cands)).

(* comparator *)
Definition row_ok (m : out_row) (i : Z * option Q * option Q) : bool :=
  let '(p, e, c) := m in let '(p', e', c') := i in
  Z.eqb p p' &&
  match e, e' with Some x, Some y => close9 x y | None, None => true | _, _ => false end &&
  match c, c' with Some x, Some y => close9 x y | None, None => true | _, _ => false end.
Fixpoint rows_ok (a : list out_row) (b : list (Z * option Q * option Q)) : bool :=
  match a, b with [], [] => true | x :: a', y :: b' => row_ok x y && rows_ok a' b' | _, _ => false end.
Definition err_code (e : option err) : Z := match e with None => 0 | Some NonMonotone => 1 | Some BatchMargin => 2 end.
(* a whole percent that coincides (within 1e-9) with a re-scaled observation percent other than the final one: the
   binary64 product share*percent may fall on either side, so the row is not compared (counted by the harness) *)
Definition ambiguous (rows : list obs) (pl : Q) (p : Z) : bool :=
  existsb (fun o => Qle_bool (Qabs (o_pv o - inject_Z p)) (1 # 1000000000) && negb (Qeq_bool (o_pv o) pl)) rows.
Fixpoint rows_ok_amb (rows : list obs) (pl : Q) (a : list out_row) (b : list (Z * option Q * option Q)) : bool :=
  match a, b with
  | [], [] => true
  | x :: a', y :: b' => (row_ok x y || ambiguous rows pl (fst (fst x))) && rows_ok_amb rows pl a' b'
  | _, _ => false
  end.
Definition check_versioned (l : list version) (code : Z) (impl : list (Z * option Q * option Q)) : bool :=
  let (e, t) := table l in
  Z.eqb (err_code e) code &&
  match analyse l with
  | inr (rows, _, _) => rows_ok_amb rows (v_pev (lastv dummy l)) t impl
  | inl _ => rows_ok t impl
  end.
Definition count_ambiguous (l : list version) : nat :=
  match analyse l with
  | inr (rows, _, maxp) => List.length (filter (fun k => ambiguous rows (v_pev (lastv dummy l)) (Z.of_nat k)) (seq 0 (Z.to_nat (maxp + 1))))
  | inl _ => O
  end.
