(* Weighted absolute loss and weighted medians (C05, C15), cumulative-weight search (C04). Definitions + lemmas. *)
From Coq Require Import ZArith QArith Qabs Qminmax List Bool Lia Lqa.
Import ListNotations.
Open Scope Q_scope.

Definition obs := (Q * Q)%type.   (* (weight, value) *)
Definition ow (o : obs) : Q := fst o.
Definition ov (o : obs) : Q := snd o.

Fixpoint loss (l : list obs) (b : Q) : Q :=
  match l with [] => 0 | o :: r => ow o * Qabs (ov o - b) + loss r b end.
Fixpoint wsum (f : obs -> bool) (l : list obs) : Q :=
  match l with [] => 0 | o :: r => (if f o then ow o else 0) + wsum f r end.
Definition total (l : list obs) : Q := wsum (fun _ => true) l.
Definition below (l : list obs) (m : Q) : Q := wsum (fun o => negb (Qle_bool m (ov o))) l.   (* value < m *)
Definition above (l : list obs) (m : Q) : Q := wsum (fun o => negb (Qle_bool (ov o) m)) l.   (* value > m *)
Definition nonneg (l : list obs) : Prop := forall o, In o l -> 0 <= ow o.

Lemma Qabs_cases (x : Q) : (0 <= x /\ Qabs x == x) \/ (x <= 0 /\ Qabs x == - x).
Proof.
  destruct (Qlt_le_dec x 0) as [H | H].
  - right. split; [lra | apply Qabs_neg; lra].
  - left. split; [exact H | apply Qabs_pos; exact H].
Qed.

(* moving the location from m up to b changes the loss by at least (b - m) (total - 2 above m) *)
Lemma loss_shift_up (l : list obs) (m b : Q) : nonneg l -> m <= b ->
  (b - m) * (total l - 2 * above l m) <= loss l b - loss l m.
Proof.
  intros N Hmb. unfold total, above. induction l as [|o r IH]; simpl; [lra|].
  assert (W : 0 <= ow o) by (apply N; left; reflexivity).
  assert (IH' := IH (fun x I => N x (or_intror I))). clear IH.
  destruct (Qle_bool (ov o) m) eqn:E; simpl.
  - apply Qle_bool_iff in E.
    destruct (Qabs_cases (ov o - b)) as [[A1 A2] | [A1 A2]], (Qabs_cases (ov o - m)) as [[B1 B2] | [B1 B2]]; rewrite A2, B2; nra.
  - assert (G : m < ov o).
    { apply Qnot_le_lt. intros C. apply Qle_bool_iff in C. congruence. }
    destruct (Qabs_cases (ov o - b)) as [[A1 A2] | [A1 A2]], (Qabs_cases (ov o - m)) as [[B1 B2] | [B1 B2]]; rewrite A2, B2; nra.
Qed.

Lemma loss_shift_down (l : list obs) (m b : Q) : nonneg l -> b <= m ->
  (m - b) * (total l - 2 * below l m) <= loss l b - loss l m.
Proof.
  intros N Hmb. unfold total, below. induction l as [|o r IH]; simpl; [lra|].
  assert (W : 0 <= ow o) by (apply N; left; reflexivity).
  assert (IH' := IH (fun x I => N x (or_intror I))). clear IH.
  destruct (Qle_bool m (ov o)) eqn:E; simpl.
  - apply Qle_bool_iff in E.
    destruct (Qabs_cases (ov o - b)) as [[A1 A2] | [A1 A2]], (Qabs_cases (ov o - m)) as [[B1 B2] | [B1 B2]]; rewrite A2, B2; nra.
  - assert (G : ov o < m).
    { apply Qnot_le_lt. intros C. apply Qle_bool_iff in C. congruence. }
    destruct (Qabs_cases (ov o - b)) as [[A1 A2] | [A1 A2]], (Qabs_cases (ov o - m)) as [[B1 B2] | [B1 B2]]; rewrite A2, B2; nra.
Qed.

(* a point with at most half of the weight strictly on either side minimises the weighted absolute loss *)
Theorem half_conditions_optimal (l : list obs) (m : Q) : nonneg l ->
  2 * below l m <= total l -> 2 * above l m <= total l -> forall b, loss l m <= loss l b.
Proof.
  intros N Hb Ha b. destruct (Qlt_le_dec b m) as [H | H].
  - pose proof (loss_shift_down l m b N ltac:(lra)). nra.
  - pose proof (loss_shift_up l m b N H). nra.
Qed.

(* strictly less than half on either side: the minimiser is unique *)
Theorem strict_half_unique (l : list obs) (m : Q) : nonneg l ->
  2 * below l m < total l -> 2 * above l m < total l -> forall b, loss l b <= loss l m -> b == m.
Proof.
  intros N Hb Ha b Hl. destruct (Qlt_le_dec b m) as [H | H].
  - pose proof (loss_shift_down l m b N ltac:(lra)). nra.
  - destruct (Qlt_le_dec m b) as [H2 | H2]; [|lra].
    pose proof (loss_shift_up l m b N H). nra.
Qed.
