(* The pandas fragment the properties depend on, as total functions on lists:
     groupby(keys).sum()   -> gsum      (rows whose key has a missing component are dropped, as pandas does)
     merge(how="outer") + fillna(0) -> okeys + get0
     sort_values(keys)     -> isort     (lexicographic code-point order of the key tuple)
   No proofs about the implementation here; lemmas about these functions are at the end of the file
   (they are part of the library, not of any model). *)
From Coq Require Import ZArith List Bool String Ascii Permutation Lia.
Import ListNotations.
Open Scope Z_scope.

Definition key := list string.
Definition okey := list (option string).

Definition key_eq_dec : forall a b : key, {a = b} + {a <> b} := list_eq_dec string_dec.
Definition key_eqb (a b : key) : bool := if key_eq_dec a b then true else false.

Lemma key_eqb_eq a b : key_eqb a b = true <-> a = b.
Proof. unfold key_eqb. destruct (key_eq_dec a b); split; intros; congruence. Qed.
Lemma key_eqb_refl a : key_eqb a a = true.
Proof. apply key_eqb_eq. reflexivity. Qed.
Lemma key_eqb_neq a b : key_eqb a b = false <-> a <> b.
Proof. unfold key_eqb. destruct (key_eq_dec a b); split; intros; congruence. Qed.

(* a row's key: Some iff no component is missing (NaN) *)
Fixpoint present (k : okey) : option key :=
  match k with
  | [] => Some []
  | None :: _ => None
  | Some s :: r => match present r with Some t => Some (s :: t) | None => None end
  end.

Definition okey_is (k : option key) (g : key) : bool :=
  match k with Some h => key_eqb h g | None => false end.

Fixpoint kmem (g : key) (l : list key) : bool :=
  match l with [] => false | h :: r => key_eqb g h || kmem g r end.

Lemma kmem_In g l : kmem g l = true <-> In g l.
Proof.
  induction l as [|h r IH]; simpl; [split; [discriminate | tauto]|].
  rewrite orb_true_iff, IH, key_eqb_eq. split; intros [A | A]; auto.
Qed.

(* association tables *)
Definition table := list (key * Z).

Fixpoint lookup (g : key) (t : table) : option Z :=
  match t with [] => None | (h, v) :: r => if key_eqb g h then Some v else lookup g r end.

Definition get0 (t : table) (g : key) : Z := match lookup g t with Some v => v | None => 0 end.

Fixpoint add_key (g : key) (v : Z) (t : table) : table :=
  match t with
  | [] => [(g, v)]
  | (h, w) :: r => if key_eqb g h then (h, w + v) :: r else (h, w) :: add_key g v r
  end.

Section GroupBy.
  Variable A : Type.
  Variable kf : A -> option key.

  Definition gstep (vf : A -> Z) (t : table) (r : A) : table :=
    match kf r with Some g => add_key g (vf r) t | None => t end.

  (* groupby(kf).sum() of one column, groups in order of first appearance *)
  Definition gsum (vf : A -> Z) (rows : list A) : table := fold_left (gstep vf) rows [].

  (* declarative counterparts *)
  Fixpoint sum_where (vf : A -> Z) (g : key) (rows : list A) : Z :=
    match rows with [] => 0 | r :: rs => (if okey_is (kf r) g then vf r else 0) + sum_where vf g rs end.

  Fixpoint has_key (g : key) (rows : list A) : bool :=
    match rows with [] => false | r :: rs => okey_is (kf r) g || has_key g rs end.

  Fixpoint sum_all (vf : A -> Z) (rows : list A) : Z :=
    match rows with [] => 0 | r :: rs => vf r + sum_all vf rs end.
End GroupBy.
Arguments gsum {A}. Arguments sum_where {A}. Arguments has_key {A}. Arguments sum_all {A}. Arguments gstep {A}.

Definition keys (t : table) : list key := map fst t.

(* key set of an outer merge: left keys, then right keys not on the left *)
Definition okeys (a b : list key) : list key := a ++ filter (fun g => negb (kmem g a)) b.

(* lexicographic order on key tuples, code-point order on components *)
Fixpoint key_compare (a b : key) : comparison :=
  match a, b with
  | [], [] => Eq
  | [], _ => Lt
  | _, [] => Gt
  | x :: a', y :: b' => match String.compare x y with Eq => key_compare a' b' | c => c end
  end.
Definition key_leb (a b : key) : bool := match key_compare a b with Gt => false | _ => true end.

Section Sort.
  Variable B : Type.
  Variable leb : B -> B -> bool.
  Fixpoint insert (x : B) (l : list B) : list B :=
    match l with [] => [x] | y :: r => if leb x y then x :: l else y :: insert x r end.
  Fixpoint isort (l : list B) : list B := match l with [] => [] | x :: r => insert x (isort r) end.

  Lemma insert_perm x l : Permutation (insert x l) (x :: l).
  Proof.
    induction l as [|y r IH]; simpl; [reflexivity|].
    destruct (leb x y); [reflexivity|]. rewrite IH. apply perm_swap.
  Qed.
  Lemma isort_perm l : Permutation (isort l) l.
  Proof. induction l as [|x r IH]; simpl; [reflexivity|]. rewrite insert_perm, IH. reflexivity. Qed.
End Sort.
Arguments insert {B}. Arguments isort {B}.

Definition sort_keys (l : list key) : list key := isort key_leb l.

(* ------------------------------------------------------------------------------------------------ *)
(* Lemmas *)

Lemma lookup_add_key_same g v t :
  lookup g (add_key g v t) = Some (match lookup g t with Some w => w + v | None => v end).
Proof.
  induction t as [|[h w] r IH]; simpl.
  - rewrite key_eqb_refl. reflexivity.
  - destruct (key_eqb g h) eqn:E; simpl; rewrite E; [reflexivity | exact IH].
Qed.

Lemma lookup_add_key_other g h v t : g <> h -> lookup g (add_key h v t) = lookup g t.
Proof.
  intros N. induction t as [|[k w] r IH]; simpl.
  - apply key_eqb_neq in N. rewrite N. reflexivity.
  - destruct (key_eqb h k) eqn:E; simpl.
    + apply key_eqb_eq in E. subst k. apply key_eqb_neq in N. rewrite N. reflexivity.
    + destruct (key_eqb g k); [reflexivity | exact IH].
Qed.

Lemma keys_add_key g v t : keys (add_key g v t) = if kmem g (keys t) then keys t else keys t ++ [g].
Proof.
  induction t as [|[h w] r IH]; simpl; [reflexivity|].
  destruct (key_eqb g h) eqn:E; simpl; [reflexivity|]. rewrite IH.
  destruct (kmem g (keys r)); reflexivity.
Qed.

Lemma NoDup_snoc (l : list key) g : NoDup l -> ~ In g l -> NoDup (l ++ [g]).
Proof.
  intros H N. induction H as [|x l Hx Hl IH]; simpl; [constructor; [tauto | constructor]|].
  constructor.
  - rewrite in_app_iff. simpl. intros [A | [A | []]]; [tauto | subst; apply N; left; reflexivity].
  - apply IH. intros I. apply N. right. exact I.
Qed.

Lemma NoDup_keys_add_key g v t : NoDup (keys t) -> NoDup (keys (add_key g v t)).
Proof.
  intros H. rewrite keys_add_key. destruct (kmem g (keys t)) eqn:E; [exact H|].
  apply NoDup_snoc; [exact H|]. intros I. apply kmem_In in I. congruence.
Qed.

Definition oadd (a b : option Z) : option Z :=
  match a, b with
  | None, x => x
  | Some x, None => Some x
  | Some x, Some y => Some (x + y)
  end.

Section GroupByLemmas.
  Variable A : Type.
  Variable kf : A -> option key.

  Lemma sum_where_not_in (vf : A -> Z) g rows : has_key kf g rows = false -> sum_where kf vf g rows = 0.
  Proof.
    induction rows as [|r rs IH]; simpl; [reflexivity|]. intros H. apply orb_false_iff in H.
    destruct H as [H1 H2]. rewrite H1, (IH H2). reflexivity.
  Qed.

  Lemma lookup_fold (vf : A -> Z) g rows : forall t,
    lookup g (fold_left (gstep kf vf) rows t) =
    oadd (lookup g t) (if has_key kf g rows then Some (sum_where kf vf g rows) else None).
  Proof.
    induction rows as [|r rs IH]; intros t; simpl.
    - destruct (lookup g t); reflexivity.
    - rewrite IH. unfold gstep. unfold okey_is.
      pose proof (sum_where_not_in vf g rs) as Z0.
      destruct (kf r) as [h|]; simpl.
      + destruct (key_eqb h g) eqn:E.
        * apply key_eqb_eq in E. subst h. rewrite lookup_add_key_same. simpl.
          destruct (lookup g t), (has_key kf g rs); simpl; try rewrite (Z0 eq_refl); f_equal; lia.
        * assert (N : g <> h) by (intros ->; rewrite key_eqb_refl in E; discriminate).
          rewrite (lookup_add_key_other g h _ _ N). simpl.
          destruct (lookup g t), (has_key kf g rs); simpl; f_equal; lia.
      + destruct (lookup g t), (has_key kf g rs); simpl; f_equal; lia.
  Qed.

  Theorem lookup_gsum (vf : A -> Z) g rows :
    lookup g (gsum kf vf rows) = if has_key kf g rows then Some (sum_where kf vf g rows) else None.
  Proof. unfold gsum. rewrite lookup_fold. reflexivity. Qed.

  Corollary get0_gsum (vf : A -> Z) g rows : get0 (gsum kf vf rows) g = sum_where kf vf g rows.
  Proof.
    unfold get0. rewrite lookup_gsum. destruct (has_key kf g rows) eqn:E; [reflexivity|].
    induction rows as [|r rs IH]; simpl in *; [reflexivity|].
    apply orb_false_iff in E. destruct E as [E1 E2]. rewrite E1, <- (IH E2). reflexivity.
  Qed.

  Lemma NoDup_fold (vf : A -> Z) rows : forall t, NoDup (keys t) -> NoDup (keys (fold_left (gstep kf vf) rows t)).
  Proof.
    induction rows as [|r rs IH]; intros t H; simpl; [exact H|].
    apply IH. unfold gstep. destruct (kf r); [apply NoDup_keys_add_key; exact H | exact H].
  Qed.

  Theorem NoDup_keys_gsum (vf : A -> Z) rows : NoDup (keys (gsum kf vf rows)).
  Proof. apply NoDup_fold. constructor. Qed.

  Lemma lookup_In_keys g (t : table) : In g (keys t) <-> lookup g t <> None.
  Proof.
    induction t as [|[h v] r IH]; simpl; [split; [tauto | congruence]|].
    destruct (key_eqb g h) eqn:E.
    - apply key_eqb_eq in E. subst. split; [congruence | auto].
    - rewrite <- IH. split; [intros [X | X]; [subst; rewrite key_eqb_refl in E; discriminate | exact X] | auto].
  Qed.

  Theorem In_keys_gsum (vf : A -> Z) g rows : In g (keys (gsum kf vf rows)) <-> has_key kf g rows = true.
  Proof.
    rewrite lookup_In_keys, lookup_gsum. destruct (has_key kf g rows); split; congruence.
  Qed.

  Lemma has_key_exists g rows : has_key kf g rows = true <-> exists r, In r rows /\ kf r = Some g.
  Proof.
    induction rows as [|r rs IH]; simpl; [split; [discriminate | intros [? [[] _]]]|].
    rewrite orb_true_iff, IH. unfold okey_is. split.
    - intros [H | [x [I E]]].
      + destruct (kf r) as [h|] eqn:K; [|discriminate]. apply key_eqb_eq in H. subst. exists r. auto.
      + exists x. auto.
    - intros [x [[-> | I] E]].
      + left. rewrite E. apply key_eqb_refl.
      + right. exists x. auto.
  Qed.

  (* the key set of a groupby does not depend on the summed column *)
  Lemma keys_fold_indep (vf wf : A -> Z) rows : forall t u, keys t = keys u ->
    keys (fold_left (gstep kf vf) rows t) = keys (fold_left (gstep kf wf) rows u).
  Proof.
    induction rows as [|r rs IH]; intros t u E; simpl; [exact E|].
    apply IH. unfold gstep. destruct (kf r); [|exact E]. rewrite !keys_add_key, E. reflexivity.
  Qed.
  Theorem keys_gsum_indep (vf wf : A -> Z) rows : keys (gsum kf vf rows) = keys (gsum kf wf rows).
  Proof. apply keys_fold_indep. reflexivity. Qed.

  (* summing group sums over a duplicate-free key list = summing the rows whose key is in the list *)
  Definition in_keys (ks : list key) (r : A) : bool :=
    match kf r with Some g => kmem g ks | None => false end.

  Theorem sum_groups_partition (vf : A -> Z) (ks : list key) rows : NoDup ks ->
    fold_right (fun g acc => sum_where kf vf g rows + acc) 0 ks =
    sum_all (fun r => if in_keys ks r then vf r else 0) rows.
  Proof.
    intros ND. induction rows as [|r rs IH]; simpl.
    - induction ks; simpl; [reflexivity|]. inversion ND; subst. rewrite IHks; auto.
    - rewrite <- IH. clear IH. unfold in_keys, okey_is. destruct (kf r) as [h|].
      + induction ND as [|k ks Hk ND IHk]; simpl; [reflexivity|].
        rewrite <- Z.add_assoc. 
        destruct (key_eqb h k) eqn:E.
        * apply key_eqb_eq in E. subst k. simpl.
          assert (M : kmem h ks = false).
          { destruct (kmem h ks) eqn:M; [|reflexivity]. apply kmem_In in M. contradiction. }
          rewrite M in IHk. lia.
        * simpl. destruct (kmem h ks); lia.
      + induction ks as [|k ks IHk]; simpl; [reflexivity|]. inversion ND; subst. specialize (IHk H2). lia.
  Qed.
End GroupByLemmas.
Arguments lookup_gsum {A}. Arguments get0_gsum {A}. Arguments NoDup_keys_gsum {A}. Arguments In_keys_gsum {A}.
Arguments has_key_exists {A}. Arguments keys_gsum_indep {A}. Arguments sum_groups_partition {A}. Arguments in_keys {A}.
Arguments sum_where_not_in {A}.

Lemma In_okeys g a b : In g (okeys a b) <-> In g a \/ In g b.
Proof.
  unfold okeys. rewrite in_app_iff, filter_In, negb_true_iff. split.
  - intros [H | [H _]]; auto.
  - intros [H | H]; [auto|]. destruct (kmem g a) eqn:E; [left; apply kmem_In; exact E | right; auto].
Qed.

Lemma NoDup_app_disjoint (a c : list key) : NoDup a -> NoDup c -> (forall x, In x a -> In x c -> False) -> NoDup (a ++ c).
Proof.
  intros Ha Hc D. induction Ha as [|x a Hx Ha IH]; simpl; [exact Hc|].
  constructor.
  - rewrite in_app_iff. intros [I | I]; [contradiction | apply (D x); [left; reflexivity | exact I]].
  - apply IH. intros y Iy. apply D. right. exact Iy.
Qed.

Lemma NoDup_okeys a b : NoDup a -> NoDup b -> NoDup (okeys a b).
Proof.
  intros Ha Hb. unfold okeys. apply NoDup_app_disjoint; [exact Ha | apply NoDup_filter; exact Hb |].
  intros x I F. apply filter_In in F. destruct F as [_ F]. apply negb_true_iff in F.
  apply kmem_In in I. congruence.
Qed.

Lemma In_sort_keys g l : In g (sort_keys l) <-> In g l.
Proof.
  unfold sort_keys. split; intros H.
  - eapply Permutation_in; [apply isort_perm | exact H].
  - eapply Permutation_in; [apply Permutation_sym, isort_perm | exact H].
Qed.

Lemma NoDup_sort_keys l : NoDup l -> NoDup (sort_keys l).
Proof. intros H. eapply Permutation_NoDup; [apply Permutation_sym, isort_perm | exact H]. Qed.

Lemma fold_right_perm (f : key -> Z) a b : Permutation a b ->
  fold_right (fun g acc => f g + acc) 0 a = fold_right (fun g acc => f g + acc) 0 b.
Proof. induction 1; simpl; lia. Qed.
