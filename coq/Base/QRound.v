(* Rounding kernels over Q shared by the models: floor / ceiling facts, round-half-even (numpy .round(0)). *)
From Coq Require Import ZArith QArith Qround Qminmax Lia Lqa.
Open Scope Q_scope.

Lemma inj1 (z : Z) : inject_Z (z + 1) == inject_Z z + 1.
Proof. rewrite inject_Z_plus. reflexivity. Qed.

Lemma injm1 (z : Z) : inject_Z (z - 1) == inject_Z z - 1.
Proof. unfold Z.sub. rewrite inject_Z_plus. reflexivity. Qed.

Lemma Zle_of_Qlt1 (a b : Z) : inject_Z a < inject_Z b + 1 -> (a <= b)%Z.
Proof.
  intros H. rewrite <- inj1 in H. rewrite <- Zlt_Qlt in H. lia.
Qed.

Lemma Zle_of_Qle (a b : Z) : inject_Z a <= inject_Z b -> (a <= b)%Z.
Proof. intros H. rewrite <- Zle_Qle in H. exact H. Qed.

Lemma Zlt_of_Qlt (a b : Z) : inject_Z a < inject_Z b -> (a < b)%Z.
Proof. intros H. rewrite <- Zlt_Qlt in H. exact H. Qed.

Lemma floor_lo (q : Q) : inject_Z (Qfloor q) <= q.
Proof. apply Qfloor_le. Qed.

Lemma floor_hi (q : Q) : q < inject_Z (Qfloor q) + 1.
Proof. rewrite <- inj1. apply Qlt_floor. Qed.

Lemma ceil_hi (q : Q) : q <= inject_Z (Qceiling q).
Proof. apply Qle_ceiling. Qed.

Lemma ceil_lo (q : Q) : inject_Z (Qceiling q) - 1 < q.
Proof. rewrite <- injm1. apply Qceiling_lt. Qed.

Lemma floor_ge_int (z : Z) (q : Q) : inject_Z z <= q -> (z <= Qfloor q)%Z.
Proof.
  intros H. apply Zle_of_Qlt1. pose proof (floor_hi q). lra.
Qed.

Lemma floor_le_int (z : Z) (q : Q) : q < inject_Z z + 1 -> (Qfloor q <= z)%Z.
Proof.
  intros H. apply Zle_of_Qlt1. pose proof (floor_lo q). lra.
Qed.

Lemma ceil_le_int (z : Z) (q : Q) : q <= inject_Z z -> (Qceiling q <= z)%Z.
Proof.
  intros H. apply Zle_of_Qlt1. pose proof (ceil_lo q). lra.
Qed.

Lemma ceil_ge_int (z : Z) (q : Q) : inject_Z z - 1 < q -> (z <= Qceiling q)%Z.
Proof.
  intros H. apply Zle_of_Qlt1. pose proof (ceil_hi q). lra.
Qed.

Lemma floor_mono (p q : Q) : p <= q -> (Qfloor p <= Qfloor q)%Z.
Proof. apply Qfloor_resp_le. Qed.

Lemma ceil_mono (p q : Q) : p <= q -> (Qceiling p <= Qceiling q)%Z.
Proof. apply Qceiling_resp_le. Qed.

(* round half to even: numpy's np.round / Series.round(decimals=0) on an exactly represented value *)
Definition rhe (q : Q) : Z :=
  let f := Qfloor q in
  match Qcompare (q - inject_Z f) (1 # 2) with
  | Lt => f
  | Gt => (f + 1)%Z
  | Eq => if Z.even f then f else (f + 1)%Z
  end.

Lemma rhe_cases (q : Q) :
  (rhe q = Qfloor q /\ q - inject_Z (Qfloor q) <= 1 # 2) \/
  (rhe q = (Qfloor q + 1)%Z /\ 1 # 2 <= q - inject_Z (Qfloor q)).
Proof.
  unfold rhe. destruct (Qcompare (q - inject_Z (Qfloor q)) (1 # 2)) eqn:E.
  - apply Qeq_alt in E. destruct (Z.even (Qfloor q)); [left | right]; split; auto; lra.
  - apply Qlt_alt in E. left; split; auto; lra.
  - apply Qgt_alt in E. right; split; auto; lra.
Qed.

Lemma rhe_near (q : Q) : inject_Z (rhe q) - (1 # 2) <= q /\ q <= inject_Z (rhe q) + (1 # 2).
Proof.
  pose proof (floor_lo q) as L. pose proof (floor_hi q) as H.
  destruct (rhe_cases q) as [[E B] | [E B]]; rewrite E; try rewrite inj1; split; lra.
Qed.

Lemma rhe_inject (z : Z) : rhe (inject_Z z) = z.
Proof.
  pose proof (rhe_near (inject_Z z)) as [A B].
  assert (inject_Z (rhe (inject_Z z)) < inject_Z z + 1) by lra.
  assert (inject_Z z < inject_Z (rhe (inject_Z z)) + 1) by lra.
  apply Zle_of_Qlt1 in H. apply Zle_of_Qlt1 in H0. lia.
Qed.

Lemma rhe_ge_int (z : Z) (q : Q) : inject_Z z <= q -> (z <= rhe q)%Z.
Proof.
  intros H. pose proof (rhe_near q) as [A B]. apply Zle_of_Qlt1. lra.
Qed.

Lemma rhe_le_int (z : Z) (q : Q) : q <= inject_Z z -> (rhe q <= z)%Z.
Proof.
  intros H. pose proof (rhe_near q) as [A B]. apply Zle_of_Qlt1. lra.
Qed.

Lemma rhe_monotone (p q : Q) : p <= q -> (rhe p <= rhe q)%Z.
Proof.
  intros H.
  destruct (Z_le_gt_dec (rhe p) (rhe q)) as [|G]; [assumption | exfalso].
  (* rhe p >= rhe q + 1; both within 1/2: forces p = q = half-integer and the tie broken differently *)
  pose proof (rhe_near p) as [A B]. pose proof (rhe_near q) as [C D].
  assert (G' : inject_Z (rhe q) + 1 <= inject_Z (rhe p)).
  { rewrite <- inj1. rewrite <- Zle_Qle. lia. }
  assert (Ep : p == inject_Z (rhe p) - (1 # 2)) by lra.
  assert (Eq' : q == inject_Z (rhe q) + (1 # 2)) by lra.
  assert (Epq : p == q) by lra.
  assert (Er : inject_Z (rhe p) == inject_Z (rhe q) + 1) by lra.
  (* rhe is a morphism for == *)
  assert (M : rhe p = rhe q).
  { unfold rhe. rewrite (Qfloor_comp _ _ Epq).
    assert (X : p - inject_Z (Qfloor q) == q - inject_Z (Qfloor q)) by lra.
    rewrite (Qcompare_comp _ _ X _ _ (Qeq_refl (1#2))). reflexivity. }
  lia.
Qed.

Lemma rhe_comp (p q : Q) : p == q -> rhe p = rhe q.
Proof.
  intros Epq. unfold rhe. rewrite (Qfloor_comp _ _ Epq).
  assert (X : p - inject_Z (Qfloor q) == q - inject_Z (Qfloor q)) by lra.
  rewrite (Qcompare_comp _ _ X _ _ (Qeq_refl (1#2))). reflexivity.
Qed.

(* Python round(x, 2) on the exact value: round-half-even of x*100, divided by 100 *)
Definition round2 (x : Q) : Q := inject_Z (rhe (x * 100)) * (1 # 100).

Lemma round2_near (x : Q) : x - (1 # 200) <= round2 x /\ round2 x <= x + (1 # 200).
Proof. unfold round2. pose proof (rhe_near (x * 100)) as [A B]. split; lra. Qed.

Lemma round2_comp (x y : Q) : x == y -> round2 x == round2 y.
Proof.
  intros E. unfold round2. assert (H : x * 100 == y * 100) by lra.
  rewrite (rhe_comp _ _ H). reflexivity.
Qed.

(* placeholder emitted by the translator for a formula it could not translate: no equivalence lemma holds for it *)
Definition untranslatable_Q : Q := (-987654321) # 1.
