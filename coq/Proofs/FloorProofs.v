From Coq Require Import ZArith QArith Qminmax List Lia Lqa.
From Elex Require Import Base.QRound Model.Aggregate Model.Floor.
Import ListNotations.
Open Scope Q_scope.

Theorem unit_value_floor (raw : Q) (last res : Z) : (res <= unit_value raw last res)%Z.
Proof.
  unfold unit_value. apply rhe_ge_int. apply Q.le_max_r.
Qed.

Theorem unit_value_is_pred_when_above (raw : Q) (last res : Z) :
  inject_Z res <= raw * inject_Z last + inject_Z last ->
  unit_value raw last res = rhe (raw * inject_Z last + inject_Z last).
Proof.
  intros H. unfold unit_value. apply rhe_comp. apply Q.max_l. exact H.
Qed.

Theorem unit_value_is_res_when_below (raw : Q) (last res : Z) :
  raw * inject_Z last + inject_Z last <= inject_Z res -> unit_value raw last res = res.
Proof.
  intros H. unfold unit_value. rewrite (rhe_comp _ (inject_Z res)); [apply rhe_inject | apply Q.max_r; exact H].
Qed.

Theorem unit_lower_le_upper (raw_lo raw_hi corr : Q) (last res : Z) :
  0 <= inject_Z last -> raw_lo - corr <= raw_hi + corr ->
  (unit_lower raw_lo corr last res <= unit_upper raw_hi corr last res)%Z.
Proof.
  intros Hl H. unfold unit_lower, unit_upper, unit_value. apply rhe_monotone.
  apply Q.max_le_compat_r. nra.
Qed.

Theorem unit_cols_reported (fr : frame) (res pred : Z) (ints : list (Z * Z)) :
  fr <> FNon ->
  fst (unit_cols fr res pred ints) = res /\ forall p, In p (snd (unit_cols fr res pred ints)) -> p = (res, res).
Proof.
  intros H. destruct fr; try congruence; simpl; split; auto; intros p I; apply in_map_iff in I; destruct I as [? [<- _]]; reflexivity.
Qed.
