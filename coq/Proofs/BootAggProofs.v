From Coq Require Import ZArith QArith List Bool String Ascii.
From Elex Require Import Base.Frame Model.Aggregate Model.BootAgg.
Import ListNotations.
Open Scope Q_scope.

(* positional assignment puts every value on the row of its own key as soon as the two key orders coincide *)
Lemma assign_aligned {V} (f : key -> V) (ks : list key) :
  assign_positional ks (map f ks) = map (fun g => (g, f g)) ks.
Proof. unfold assign_positional. induction ks as [|g r IH]; simpl; [reflexivity | rewrite IH; reflexivity]. Qed.

Theorem boot_rows_aligned (a : aggr) (rows : list brow) (frame_keys : list key) :
  contests a rows = frame_keys ->
  boot_turnout_column a rows frame_keys = map (fun g => (g, z_total a rows g)) frame_keys.
Proof. intros <-. unfold boot_turnout_column. apply assign_aligned. Qed.

(* the order pd.get_dummies used before the repair disagrees with the frame order as soon as one key component
   is a prefix of another: the turnout of district "10" lands on the row of district "1" *)
Definition ex_rows : list brow :=
  [ {| b_fr := FRep; b_keys := [Some "S"; Some "1"; None; Some "c"]%string; b_resm := 1; b_predm := 1; b_predt := 10 |};
    {| b_fr := FRep; b_keys := [Some "S"; Some "10"; None; Some "c"]%string; b_resm := 2; b_predm := 2; b_predt := 99 |} ].

Theorem joined_order_misaligns :
  let a := [0; 1; 3]%nat in
  let fk := sort_keys (distinct_keys a ex_rows []) in
  boot_turnout_column_joined a ex_rows fk <> map (fun g => (g, z_total a ex_rows g)) fk
  /\ boot_turnout_column a ex_rows fk = map (fun g => (g, z_total a ex_rows g)) fk.
Proof.
  split.
  - vm_compute. intros H. inversion H.
  - apply boot_rows_aligned. reflexivity.
Qed.

(* sums of indicator columns are additive over the row list: each unit contributes to its own contest only *)
Lemma qsum_where_app a vf g r1 r2 : qsum_where a vf g (r1 ++ r2) == qsum_where a vf g r1 + qsum_where a vf g r2.
Proof.
  induction r1 as [|r rs IH]; simpl; [ring|]. rewrite IH. ring.
Qed.

Theorem boot_unit_contributes_own_group a vf g x rows :
  okey_is (bkf a x) g = false -> qsum_where a vf g (rows ++ [x]) == qsum_where a vf g rows.
Proof. intros H. rewrite qsum_where_app. simpl. rewrite H. ring. Qed.

Theorem boot_margin_identity a rows g :
  ~ z_total a rows g == 0 -> safe_div (yz_total a rows g) (z_total a rows g) * z_total a rows g == yz_total a rows g.
Proof.
  intros H. unfold safe_div. destruct (Qeq_bool (z_total a rows g) 0) eqn:E.
  - apply Qeq_bool_iff in E. contradiction.
  - field. exact H.
Qed.

(* C11 for the bootstrap estimator: numerator and denominator of exactly the groups of x change, by x's own margin / two-party votes *)
Theorem boot_delta a x rows g :
  z_total a (rows ++ [x]) g == z_total a rows g + (if okey_is (bkf a x) g then b_predt x else 0) /\
  yz_total a (rows ++ [x]) g == yz_total a rows g + (if okey_is (bkf a x) g then b_predm x else 0).
Proof.
  unfold z_total, yz_total. rewrite !qsum_where_app. simpl. split; ring.
Qed.
