From Coq Require Import List String Bool.
From Elex Require Import Model.ClientSM.
Import ListNotations.

Section Randomness.
  Variable Site Seed Global Draw Out : Type.
  Variable seeded : Site -> bool.
  Variable from_seed : Seed -> Site -> Draw.
  Variable from_global : Global -> Site -> Draw.
  Variable compute : list Draw -> Out.

  (* if every randomness site is seeded, the result does not depend on the process-global generator state *)
  Theorem all_seeded_deterministic (sites : list Site) (sd : Seed) (g1 g2 : Global) :
    forallb seeded sites = true ->
    exec Site Seed Global Draw Out seeded from_seed from_global compute sites sd g1 = exec Site Seed Global Draw Out seeded from_seed from_global compute sites sd g2.
  Proof.
    intros H. unfold exec. f_equal. apply map_ext_in. intros s I. unfold draw.
    rewrite forallb_forall in H. rewrite (H s I). reflexivity.
  Qed.

  (* conversely an unseeded site is a channel from global state to the result *)
  Theorem unseeded_site_leaks (s : Site) (sd : Seed) (g1 g2 : Global) :
    seeded s = false -> from_global g1 s <> from_global g2 s ->
    draw Site Seed Global Draw seeded from_seed from_global sd g1 s <> draw Site Seed Global Draw seeded from_seed from_global sd g2 s.
  Proof. intros H N. unfold draw. rewrite H. exact N. Qed.
End Randomness.

Section Client.
  Variable Args Field Out State : Type.
  Variable project : list string -> State -> list Field.
  Variable after : Args -> State.
  Variable body : Args -> list Field -> Out.
  Hypothesis project_nil : forall s, project [] s = [].

  (* no field is read before it is written: the result of a call does not depend on the object's history *)
  Theorem history_independent (s s' : State) (a : Args) :
    snd (cstep Args Field Out State project after body [] s (GetEstimates Args a)) = snd (cstep Args Field Out State project after body [] s' (GetEstimates Args a)).
  Proof. simpl. rewrite !project_nil. reflexivity. Qed.

  (* whatever calls came before, after get_estimates(a) the object is in the state determined by a: the national summary
     depends on the latest estimate run only *)
  Theorem latest_only (reads : list string) (s : State) (hist : list (call Args)) (a : Args) :
    crun Args Field Out State project after body reads s (hist ++ [GetEstimates Args a]) = after a.
  Proof.
    revert s. induction hist as [|c r IH]; intros s; simpl.
    - reflexivity.
    - apply IH.
  Qed.
End Client.
