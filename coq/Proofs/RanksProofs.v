From Coq Require Import ZArith QArith Qround Qminmax Qabs List Bool Sorting.Sorted Lia Lqa.
From Elex Require Import Base.QRound Model.Compare Model.Ranks.
Import ListNotations.
Open Scope Q_scope.

(* ---------------- rank arithmetic ---------------- *)
Theorem ranks_valid (a : Q) (B : Z) : 0 < a -> a < 1 -> (2 <= B)%Z ->
  (0 <= lower_rank a B)%Z /\ (lower_rank a B <= upper_rank a B)%Z /\ (upper_rank a B <= B)%Z.
Proof.
  intros Ha0 Ha1 HB. unfold lower_rank, upper_rank.
  assert (Hb : 2 <= inject_Z B) by (rewrite Zle_Qle in HB; exact HB).
  set (x := (1 - a) * (1 # 2) * (inject_Z B + 1)).
  set (y := (1 - (1 - a) * (1 # 2)) * (inject_Z B - 1)).
  pose proof (floor_lo x) as FL. pose proof (floor_hi x) as FH.
  pose proof (ceil_lo y) as CL. pose proof (ceil_hi y) as CH.
  assert (X0 : 0 <= x) by (unfold x; nra).
  assert (XY : x < y + 1) by (unfold x, y; nra).
  assert (YB : y <= inject_Z B - 1) by (unfold y; nra).
  split; [|split].
  - apply floor_ge_int. exact X0.
  - apply Zle_of_Qlt1. lra.
  - apply Zle_of_Qlt1. lra.
Qed.

Theorem ranks_nested (a b : Q) (B : Z) : 0 < a -> a <= b -> b < 1 -> (1 <= B)%Z ->
  (lower_rank b B <= lower_rank a B)%Z /\ (upper_rank a B <= upper_rank b B)%Z.
Proof.
  intros Ha Hab Hb HB. unfold lower_rank, upper_rank.
  assert (Hb1 : 1 <= inject_Z B) by (rewrite Zle_Qle in HB; exact HB).
  split; [apply floor_mono | apply ceil_mono]; nra.
Qed.

(* the rational levels lower_q, upper_q are valid quantile levels *)
Theorem quantile_levels_valid (a : Q) (B : Z) : 0 < a -> a < 1 -> (2 <= B)%Z ->
  0 <= lower_q a B /\ lower_q a B <= upper_q a B /\ upper_q a B <= 1.
Proof.
  intros Ha0 Ha1 HB. destruct (ranks_valid a B Ha0 Ha1 HB) as [L [M U]].
  unfold lower_q, upper_q.
  assert (Bp : 0 < inject_Z B) by (assert (2 <= inject_Z B) by (rewrite Zle_Qle in HB; exact HB); lra).
  rewrite Zle_Qle in L, M, U. change (inject_Z 0) with 0 in L.
  split; [|split].
  - apply Qle_shift_div_l; [exact Bp | lra].
  - apply Qle_shift_div_r; [exact Bp|].
    assert (E : inject_Z (upper_rank a B) / inject_Z B * inject_Z B == inject_Z (upper_rank a B)) by (field; lra). lra.
  - apply Qle_shift_div_r; [exact Bp | lra].
Qed.

(* ---------------- sorting and linear-interpolation quantiles ---------------- *)
Lemma qinsert_sorted x l : StronglySorted Qle l -> StronglySorted Qle (qinsert x l).
Proof.
  induction 1 as [|y r Sr IH Hy]; simpl; [constructor; constructor|].
  destruct (Qle_bool x y) eqn:E.
  - apply Qle_bool_iff in E. constructor; [constructor; assumption|]. constructor; [exact E|].
    rewrite Forall_forall in *. intros z Iz. specialize (Hy z Iz). lra.
  - assert (Lt : y <= x).
    { destruct (Qlt_le_dec x y) as [C | C]; [|exact C]. exfalso. assert (x <= y) by lra. apply Qle_bool_iff in H. congruence. }
    constructor; [exact IH|]. rewrite Forall_forall in *. intros z Iz.
    assert (In z (x :: r)).
    { clear - Iz. induction r as [|w r IHr]; simpl in *; [destruct Iz as [<- | []]; auto|].
      destruct (Qle_bool x w); simpl in Iz; [destruct Iz as [<- | Iz]; auto|].
      destruct Iz as [<- | Iz]; [right; left; reflexivity|]. destruct (IHr Iz) as [<- | I]; [left; reflexivity | right; right; exact I]. }
    destruct H as [<- | I]; [exact Lt | apply Hy; exact I].
Qed.

Lemma qsort_sorted l : StronglySorted Qle (qsort l).
Proof. induction l as [|x r IH]; simpl; [constructor | apply qinsert_sorted; exact IH]. Qed.

Lemma qinsert_length x l : List.length (qinsert x l) = S (List.length l).
Proof. induction l as [|y r IH]; simpl; [reflexivity|]. destruct (Qle_bool x y); simpl; [reflexivity | rewrite IH; reflexivity]. Qed.
Lemma qsort_length l : List.length (qsort l) = List.length l.
Proof. induction l as [|x r IH]; simpl; [reflexivity | rewrite qinsert_length, IH; reflexivity]. Qed.

Definition sorted_idx (xs : list Q) : Prop :=
  forall i j, (0 <= i)%Z -> (i <= j)%Z -> (j < Z.of_nat (List.length xs))%Z -> nthq xs i <= nthq xs j.

Lemma sorted_nth (xs : list Q) : StronglySorted Qle xs -> forall i j, (i <= j)%nat -> (j < List.length xs)%nat -> nth i xs 0 <= nth j xs 0.
Proof.
  induction 1 as [|x r Sr IH Hx]; intros i j Hij Hj; simpl in Hj; [lia|].
  destruct i as [|i'], j as [|j']; simpl; try lra; try lia.
  - rewrite Forall_forall in Hx. apply Hx. apply nth_In. lia.
  - apply IH; lia.
Qed.

Lemma sorted_idx_of (xs : list Q) : StronglySorted Qle xs -> sorted_idx xs.
Proof.
  intros S i j Hi Hij Hj. unfold nthq. apply (sorted_nth xs S); lia.
Qed.

Section Quantile.
  Variable xs : list Q.
  Hypothesis S : sorted_idx xs.
  Hypothesis NE : (1 <= Z.of_nat (List.length xs))%Z.
  Let n := Z.of_nat (List.length xs).

  Lemma q_setup (q : Q) : 0 <= q -> q <= 1 ->
    let h := q * inject_Z (n - 1) in
    0 <= h /\ h <= inject_Z (n - 1) /\ (0 <= Qfloor h)%Z /\ (Qfloor h <= n - 1)%Z.
  Proof.
    intros Q0 Q1 h.
    assert (N1 : 0 <= inject_Z (n - 1)) by (change 0 with (inject_Z 0); rewrite <- Zle_Qle; unfold n; lia).
    assert (H0 : 0 <= h) by (unfold h; nra). assert (H1 : h <= inject_Z (n - 1)) by (unfold h; nra).
    repeat split; auto.
    - apply floor_ge_int. exact H0.
    - apply Zle_of_Qlt1. pose proof (floor_lo h). lra.
  Qed.

  (* value at q lies between the bracketing order statistics *)
  Lemma q_between (q : Q) : 0 <= q -> q <= 1 ->
    let h := q * inject_Z (n - 1) in let k := Qfloor h in let k' := Z.min (k + 1) (n - 1) in
    nthq xs k <= quantile_lin xs q /\ quantile_lin xs q <= nthq xs k'.
  Proof.
    intros Q0 Q1 h k k'. destruct (q_setup q Q0 Q1) as [H0 [H1 [K0 K1]]]. fold h in H0, H1, K0, K1. fold k in K0, K1.
    unfold quantile_lin. fold n h k k'.
    assert (Kk : (k <= k')%Z) by (unfold k'; lia).
    assert (Kn : (k' < n)%Z) by (unfold k'; lia).
    pose proof (S k k' K0 Kk Kn) as Le.
    pose proof (floor_lo h) as FL. pose proof (floor_hi h) as FH. fold k in FL, FH.
    split; nra.
  Qed.

  Theorem quantile_monotone (p q : Q) : 0 <= p -> p <= q -> q <= 1 -> quantile_lin xs p <= quantile_lin xs q.
  Proof.
    intros P0 PQ Q1.
    assert (P1 : p <= 1) by lra. assert (Q0 : 0 <= q) by lra.
    set (hp := p * inject_Z (n - 1)). set (hq := q * inject_Z (n - 1)).
    assert (N1 : 0 <= inject_Z (n - 1)) by (change 0 with (inject_Z 0); rewrite <- Zle_Qle; unfold n; lia).
    assert (Hpq : hp <= hq) by (unfold hp, hq; nra).
    destruct (q_setup p P0 P1) as [_ [_ [Kp0 Kp1]]]. destruct (q_setup q Q0 Q1) as [_ [_ [Kq0 Kq1]]].
    fold hp in Kp0, Kp1. fold hq in Kq0, Kq1.
    pose proof (floor_mono hp hq Hpq) as Km.
    destruct (Z.eq_dec (Qfloor hp) (Qfloor hq)) as [E | NEq].
    - (* same segment *)
      unfold quantile_lin. fold n hp hq. rewrite E.
      set (k := Qfloor hq) in *. set (k' := Z.min (k + 1) (n - 1)).
      assert (Le : nthq xs k <= nthq xs k') by (apply S; unfold k'; lia).
      nra.
    - destruct (q_between p P0 P1) as [_ Up]. destruct (q_between q Q0 Q1) as [Lo _].
      fold hp in Up. fold hq in Lo.
      assert (Mid : nthq xs (Z.min (Qfloor hp + 1) (n - 1)) <= nthq xs (Qfloor hq)) by (apply S; lia).
      lra.
  Qed.

  Theorem quantile_bounds (q : Q) : 0 <= q -> q <= 1 -> nthq xs 0 <= quantile_lin xs q /\ quantile_lin xs q <= nthq xs (n - 1).
  Proof.
    intros Q0 Q1. destruct (q_between q Q0 Q1) as [Lo Up]. destruct (q_setup q Q0 Q1) as [_ [_ [K0 K1]]].
    split.
    - assert (nthq xs 0 <= nthq xs (Qfloor (q * inject_Z (n - 1)))) by (apply S; lia). lra.
    - assert (nthq xs (Z.min (Qfloor (q * inject_Z (n - 1)) + 1) (n - 1)) <= nthq xs (n - 1)) by (apply S; lia). lra.
  Qed.
End Quantile.

(* ---------------- intervals ---------------- *)
Theorem unit_interval_ordered (a : Q) (B : Z) (pred : Q) (errs : list Q) :
  0 < a -> a < 1 -> (2 <= B)%Z -> errs <> [] ->
  (fst (unit_interval a B pred errs) <= snd (unit_interval a B pred errs))%Z.
Proof.
  intros Ha0 Ha1 HB NE. unfold unit_interval. simpl. apply rhe_monotone.
  destruct (quantile_levels_valid a B Ha0 Ha1 HB) as [L0 [LU U1]].
  assert (Len : (1 <= Z.of_nat (List.length (qsort errs)))%Z).
  { rewrite qsort_length. destruct errs; [congruence | simpl; lia]. }
  pose proof (quantile_monotone (qsort errs) (sorted_idx_of _ (qsort_sorted errs)) Len (lower_q a B) (upper_q a B) L0 LU U1). lra.
Qed.

Theorem unit_interval_nested (a b : Q) (B : Z) (pred : Q) (errs : list Q) :
  0 < a -> a <= b -> b < 1 -> (2 <= B)%Z -> errs <> [] ->
  (fst (unit_interval b B pred errs) <= fst (unit_interval a B pred errs))%Z /\
  (snd (unit_interval a B pred errs) <= snd (unit_interval b B pred errs))%Z.
Proof.
  intros Ha Hab Hb HB NE.
  assert (Ha1 : a < 1) by lra. assert (Hb0 : 0 < b) by lra.
  destruct (quantile_levels_valid a B Ha Ha1 HB) as [La0 [LUa Ua1]].
  destruct (quantile_levels_valid b B Hb0 Hb HB) as [Lb0 [LUb Ub1]].
  destruct (ranks_nested a b B Ha Hab Hb ltac:(lia)) as [RL RU].
  assert (Bp : 0 < inject_Z B) by (assert (2 <= inject_Z B) by (rewrite Zle_Qle in HB; exact HB); lra).
  assert (QL : lower_q b B <= lower_q a B).
  { unfold lower_q. rewrite Zle_Qle in RL. apply Qle_shift_div_r; [exact Bp|].
    assert (E : inject_Z (lower_rank a B) / inject_Z B * inject_Z B == inject_Z (lower_rank a B)) by (field; lra). lra. }
  assert (QU : upper_q a B <= upper_q b B).
  { unfold upper_q. rewrite Zle_Qle in RU. apply Qle_shift_div_r; [exact Bp|].
    assert (E : inject_Z (upper_rank b B) / inject_Z B * inject_Z B == inject_Z (upper_rank b B)) by (field; lra). lra. }
  assert (Len : (1 <= Z.of_nat (List.length (qsort errs)))%Z).
  { rewrite qsort_length. destruct errs; [congruence | simpl; lia]. }
  pose proof (sorted_idx_of _ (qsort_sorted errs)) as SI.
  unfold unit_interval. simpl. split; apply rhe_monotone.
  - pose proof (quantile_monotone (qsort errs) SI Len (upper_q a B) (upper_q b B) ltac:(lra) QU Ub1). lra.
  - pose proof (quantile_monotone (qsort errs) SI Len (lower_q b B) (lower_q a B) Lb0 QL ltac:(lra)). lra.
Qed.

(* aggregate bounds always straddle the prediction strictly (before race calls) *)
Theorem agg_interval_straddles (a : Q) (B : Z) (pred : Q) (errs : list Q) :
  fst (agg_interval a B pred errs) < pred /\ pred < snd (agg_interval a B pred errs).
Proof.
  unfold agg_interval. simpl. split.
  - assert (H : Qmin (pred - quantile_lin (qsort errs) (upper_q a B)) (pred - (1 # 1000)) <= pred - (1 # 1000)) by apply Q.le_min_r. lra.
  - assert (H : pred + (1 # 1000) <= Qmax (pred - quantile_lin (qsort errs) (lower_q a B)) (pred + (1 # 1000))) by apply Q.le_max_r. lra.
Qed.

Theorem agg_interval_nested (a b : Q) (B : Z) (pred : Q) (errs : list Q) :
  0 < a -> a <= b -> b < 1 -> (2 <= B)%Z -> errs <> [] ->
  fst (agg_interval b B pred errs) <= fst (agg_interval a B pred errs) /\
  snd (agg_interval a B pred errs) <= snd (agg_interval b B pred errs).
Proof.
  intros Ha Hab Hb HB NE.
  assert (Ha1 : a < 1) by lra. assert (Hb0 : 0 < b) by lra.
  destruct (quantile_levels_valid a B Ha Ha1 HB) as [La0 [LUa Ua1]].
  destruct (quantile_levels_valid b B Hb0 Hb HB) as [Lb0 [LUb Ub1]].
  destruct (ranks_nested a b B Ha Hab Hb ltac:(lia)) as [RL RU].
  assert (Bp : 0 < inject_Z B) by (assert (2 <= inject_Z B) by (rewrite Zle_Qle in HB; exact HB); lra).
  assert (QL : lower_q b B <= lower_q a B).
  { unfold lower_q. rewrite Zle_Qle in RL. apply Qle_shift_div_r; [exact Bp|].
    assert (E : inject_Z (lower_rank a B) / inject_Z B * inject_Z B == inject_Z (lower_rank a B)) by (field; lra). lra. }
  assert (QU : upper_q a B <= upper_q b B).
  { unfold upper_q. rewrite Zle_Qle in RU. apply Qle_shift_div_r; [exact Bp|].
    assert (E : inject_Z (upper_rank b B) / inject_Z B * inject_Z B == inject_Z (upper_rank b B)) by (field; lra). lra. }
  assert (Len : (1 <= Z.of_nat (List.length (qsort errs)))%Z).
  { rewrite qsort_length. destruct errs; [congruence | simpl; lia]. }
  pose proof (sorted_idx_of _ (qsort_sorted errs)) as SI.
  pose proof (quantile_monotone (qsort errs) SI Len (upper_q a B) (upper_q b B) ltac:(lra) QU Ub1) as M1.
  pose proof (quantile_monotone (qsort errs) SI Len (lower_q b B) (lower_q a B) Lb0 QL ltac:(lra)) as M2.
  unfold agg_interval. simpl. split.
  - apply Q.min_le_compat_r. lra.
  - apply Q.max_le_compat_r. lra.
Qed.

(* ---------------- margins stay in [-1, 1] ---------------- *)
Lemma clip_range (lo hi x : Q) : lo <= hi -> lo <= clip lo hi x /\ clip lo hi x <= hi.
Proof.
  intros H. unfold clip. split.
  - apply Q.min_glb; [exact H | apply Q.le_max_l].
  - apply Q.le_min_l.
Qed.

Lemma y_bounds_range (f nm : Q) : 0 <= f -> f <= 1 -> -1 <= nm -> nm <= 1 ->
  -1 <= y_lower f nm (-1) /\ y_lower f nm (-1) <= y_upper f nm 1 /\ y_upper f nm 1 <= 1.
Proof. intros. unfold y_lower, y_upper. repeat split; nra. Qed.

Theorem weighted_margin_bounded (ms ts : list Q) :
  Forall2 (fun m t => - t <= m /\ m <= t) ms ts -> 0 < qsum ts ->
  -1 <= qsum ms / qsum ts /\ qsum ms / qsum ts <= 1.
Proof.
  intros F P.
  assert (B : - qsum ts <= qsum ms /\ qsum ms <= qsum ts).
  { clear P. induction F as [|m t ms' ts' [L U] F IH]; simpl; [lra|]. destruct IH. lra. }
  destruct B. split.
  - apply Qle_shift_div_l; [exact P | lra].
  - apply Qle_shift_div_r; [exact P | lra].
Qed.

(* a unit's predicted unnormalised margin is bounded by its predicted turnout once y is clipped into [-1,1] and z >= 0 *)
Lemma unit_margin_bounded (y z w : Q) : -1 <= y -> y <= 1 -> 0 <= z -> 0 <= w -> - (z * w) <= y * z * w /\ y * z * w <= z * w.
Proof. intros. assert (0 <= z * w) by nra. split; nra. Qed.
