From Coq Require Import List String Bool Arith Lia.
From Elex Require Import Model.ContestEffects.
Import ListNotations.
Open Scope string_scope.

(* with every decision taken on the expected units, unexpected units cannot change the contest structure *)
Theorem expected_only (thr : nat) (e u : list contest) :
  selected Expected Expected Expected thr e u = selected Expected Expected Expected thr e [].
Proof. reflexivity. Qed.

Lemma ceqb_eq (a b : contest) : ceqb a b = true <-> a = b.
Proof.
  destruct a as [a1 a2], b as [b1 b2]. unfold ceqb. cbn [fst snd]. rewrite andb_true_iff, !String.eqb_eq.
  split; [intros [-> ->]; reflexivity | intros H; inversion H; auto].
Qed.

Lemma cmem_In (c : contest) (l : list contest) : cmem c l = true <-> In c l.
Proof.
  unfold cmem. rewrite existsb_exists. split.
  - intros [x [Hx E]]. apply ceqb_eq in E. subst. exact Hx.
  - intros H. exists c. split; [exact H | apply ceqb_eq; reflexivity].
Qed.

Lemma uniq_acc_In (seen l : list contest) (c : contest) : In c (uniq_acc seen l) <-> In c l /\ ~ In c seen.
Proof.
  revert seen. induction l as [|x r IH]; intros seen; cbn [uniq_acc].
  - cbn. tauto.
  - destruct (cmem x seen) eqn:M.
    + rewrite IH. apply cmem_In in M. cbn [In]. split.
      * intros [H1 H2]. auto.
      * intros [[->|H1] H2]; [contradiction | auto].
    + assert (~ In x seen) as Hn by (intros H; apply cmem_In in H; congruence).
      cbn [In]. rewrite IH. cbn [In]. split.
      * intros [->|[H1 H2]]; [auto | split; [auto | tauto]].
      * intros [[->|H1] H2]; [auto|]. destruct (ceqb x c) eqn:E.
        -- apply ceqb_eq in E. auto.
        -- right. split; [exact H1|]. intros [->|H]; [|contradiction].
           assert (ceqb c c = true) by (apply ceqb_eq; reflexivity). congruence.
Qed.

Lemma uniq_In (l : list contest) (c : contest) : In c (uniq l) <-> In c l.
Proof. unfold uniq. rewrite uniq_acc_In. cbn. tauto. Qed.

(* what the repaired code selects, stated on the expected units alone: a contest gets an effect of its own iff it has more than
   [thr] expected units and its state has at least two contests among the expected units *)
Theorem selected_spec (thr : nat) (e u : list contest) (c : contest) :
  In c (selected Expected Expected Expected thr e u) <->
  In c e /\ thr < count c e /\ multi e (fst c) = true.
Proof.
  unfold selected, valid_districts, pick. rewrite filter_In, uniq_In, filter_In, Nat.ltb_lt. tauto.
Qed.

(* the pre-repair structure (every decision on all units): one unexpected unit changes it.  Ten expected units in district 1,
   twelve in district 2; the eleventh unit of district 1 arrives as an unexpected unit *)
Definition ex_e : list contest := (repeat ("AA", "1") 10 ++ repeat ("AA", "2") 12)%list.
Definition ex_u : list contest := [("AA", "1")].

Theorem count_on_all_units_refuted :
  selected Expected Expected AllUnits 10 ex_e ex_u <> selected Expected Expected AllUnits 10 ex_e [].
Proof. vm_compute. discriminate. Qed.

(* ... and an unexpected unit in a new district turns an at-large state into a state with districts *)
Definition ex_e2 : list contest := repeat ("AA", "1") 12.
Definition ex_u2 : list contest := [("AA", "7")].

Theorem multi_on_all_units_refuted :
  selected AllUnits Expected Expected 10 ex_e2 ex_u2 <> selected AllUnits Expected Expected 10 ex_e2 [].
Proof. vm_compute. discriminate. Qed.
