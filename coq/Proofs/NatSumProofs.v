From Coq Require Import ZArith QArith Qminmax Qabs List Bool Lia Lqa.
From Elex Require Import Model.Compare Model.Calls Model.Ranks Model.NatSum.
Import ListNotations.
Open Scope Q_scope.

Lemma b2q_range b : 0 <= b2q b /\ b2q b <= 1.
Proof. destruct b; simpl; lra. Qed.

Definition nonneg_weights (cs : list contest) : Prop := forall c, In c cs -> 0 <= c_w c.

Lemma qsum_nonneg (f : contest -> bool) cs : nonneg_weights cs -> 0 <= qsum (map (fun c => c_w c * b2q (f c)) cs).
Proof.
  induction cs as [|c r IH]; simpl; intros H; [lra|].
  assert (0 <= c_w c) by (apply H; left; reflexivity).
  assert (0 <= qsum (map (fun c => c_w c * b2q (f c)) r)) by (apply IH; intros x I; apply H; right; exact I).
  destruct (b2q_range (f c)). nra.
Qed.

Lemma qsum_le (f g : contest -> bool) cs : nonneg_weights cs -> (forall c, In c cs -> f c = true -> g c = true) ->
  qsum (map (fun c => c_w c * b2q (f c)) cs) <= qsum (map (fun c => c_w c * b2q (g c)) cs).
Proof.
  induction cs as [|c r IH]; simpl; intros H I; [lra|].
  assert (0 <= c_w c) by (apply H; left; reflexivity).
  assert (qsum (map (fun c => c_w c * b2q (f c)) r) <= qsum (map (fun c => c_w c * b2q (g c)) r)).
  { apply IH; [intros x Ix; apply H; right; exact Ix | intros x Ix; apply I; right; exact Ix]. }
  specialize (I c (or_introl eq_refl)). destruct (f c), (g c); simpl; [lra | discriminate (I eq_refl) | lra | lra].
Qed.

(* lower <= prediction <= upper, in both correlation modes, for every level, every draw matrix, every call / stop list *)
Theorem order corr lq B jlo jhi cs : nonneg_weights cs ->
  nat_lower corr lq B jlo cs <= nat_pred cs /\ nat_pred cs <= nat_upper corr lq B jhi cs.
Proof.
  intros W. unfold nat_lower, nat_upper.
  pose proof (qsum_nonneg (loss corr lq B jlo) cs W). pose proof (qsum_nonneg (gain corr lq B jhi) cs W). lra.
Qed.

Lemma loss_only_winners corr lq B jlo c : loss corr lq B jlo c = true -> pred_state c = true.
Proof.
  unfold loss, base_loss. destruct (pred_state c); simpl; [reflexivity|].
  destruct (is_called c); [discriminate|]. destruct corr; simpl; discriminate.
Qed.
Lemma gain_only_losers corr lq B jhi c : gain corr lq B jhi c = true -> pred_state c = false.
Proof.
  unfold gain, base_gain. destruct (pred_state c); simpl; [|reflexivity].
  destruct (is_called c); [discriminate|]. destruct corr; simpl; discriminate.
Qed.

(* within [0, total weight] (so within [base, base + total] after adding the base) *)
Theorem range corr lq B jlo jhi cs : nonneg_weights cs ->
  0 <= nat_lower corr lq B jlo cs /\ nat_upper corr lq B jhi cs <= qsum (map c_w cs).
Proof.
  intros W. unfold nat_lower, nat_upper, nat_pred. split.
  - pose proof (qsum_le (loss corr lq B jlo) pred_state cs W (fun c _ => loss_only_winners corr lq B jlo c)). lra.
  - assert (E : qsum (map (fun c => c_w c * b2q (pred_state c)) cs) + qsum (map (fun c => c_w c * b2q (gain corr lq B jhi c)) cs) <= qsum (map c_w cs)).
    { clear - W. induction cs as [|c r IH]; simpl; [lra|].
      assert (0 <= c_w c) by (apply W; left; reflexivity).
      assert (IH' := IH (fun x I => W x (or_intror I))).
      pose proof (gain_only_losers corr lq B jhi c) as G.
      destruct (pred_state c), (gain corr lq B jhi c); simpl; [discriminate (G eq_refl) | lra | lra | lra]. }
    exact E.
Qed.

(* the prediction is the total weight of the contests whose reported margin prediction is positive *)
Theorem pred_def cs : nat_pred cs = qsum (map (fun c => c_w c * (if Qltb 0 (c_pred c) then 1 else 0)) cs).
Proof. reflexivity. Qed.

(* a called contest (not also stop-listed) contributes nothing to either bound *)
Theorem called_no_uncertainty corr lq B jlo jhi c :
  is_called c = true -> c_stop c = false -> loss corr lq B jlo c = false /\ gain corr lq B jhi c = false.
Proof. intros C S. unfold loss, gain. rewrite C, S, !andb_false_r. auto. Qed.

(* a weight list of the wrong size is rejected, a right-sized one is accepted *)
Theorem wrong_size corr a B jlo jhi weights cs base :
  nat_sum corr a B jlo jhi weights cs base = None <-> List.length weights <> List.length cs.
Proof.
  unfold nat_sum. destruct (Nat.eqb (List.length weights) (List.length cs)) eqn:E; simpl.
  - apply Nat.eqb_eq in E. split; [discriminate | congruence].
  - apply Nat.eqb_neq in E. split; [intros _; exact E | reflexivity].
Qed.

(* history independence: whatever finer aggregates were computed, in whatever order, the summary reads the contests of the
   latest top-level aggregate computation only *)
Fixpoint last_top (ops : list op) (acc : option (list contest)) : option (list contest) :=
  match ops with
  | [] => acc
  | AggregateCall true p :: r => last_top r (Some p)
  | _ :: r => last_top r acc
  end.

Lemma mrun_fold ops : forall s, m_contests (fold_left mstep ops s) = last_top ops (m_contests s).
Proof.
  induction ops as [|o r IH]; intros s; simpl; [reflexivity|].
  rewrite IH. destruct o as [[|] p|]; reflexivity.
Qed.

Theorem history_independent ops : m_contests (mrun ops) = last_top ops None.
Proof. unfold mrun. apply mrun_fold. Qed.

Theorem finer_aggregates_irrelevant ops1 ops2 p :
  (forall o, In o ops2 -> match o with AggregateCall true _ => False | _ => True end) ->
  m_contests (mrun (ops1 ++ AggregateCall true p :: ops2)) = Some p.
Proof.
  intros H. rewrite history_independent.
  assert (G : forall acc, last_top (ops1 ++ AggregateCall true p :: ops2) acc = Some p).
  { induction ops1 as [|o r IH]; intros acc; simpl.
    - clear - H. revert H. generalize (Some p) as acc0. induction ops2 as [|o r IH]; intros acc0 H; simpl; [reflexivity|].
      assert (Ho := H o (or_introl eq_refl)). destruct o as [[|] q|]; try contradiction; apply IH; intros x I; apply H; right; exact I.
    - destruct o as [[|] q|]; apply IH. }
  apply G.
Qed.

(* ---- both threshold modes (hard 0/1 and soft expit(T * margin)): whatever the point prediction is, the reported bounds are
   prediction - sum w_i * loss_i and prediction + sum w_i * gain_i with 0/1 (in particular non-negative) losses and gains ---- *)
Fixpoint dot (ws xs : list Q) : Q := match ws, xs with w :: ws', x :: xs' => w * x + dot ws' xs' | _, _ => 0 end.

Lemma dot_nonneg (ws xs : list Q) : Forall (fun w => 0 <= w) ws -> Forall (fun x => 0 <= x) xs -> 0 <= dot ws xs.
Proof.
  revert xs. induction ws as [|w ws IH]; intros xs Hw Hx; cbn [dot]; [lra|].
  destruct xs as [|x xs]; [lra|].
  inversion Hw as [|? ? Hw1 Hw2]; inversion Hx as [|? ? Hx1 Hx2]; subst.
  specialize (IH xs Hw2 Hx2). nra.
Qed.

Theorem order_any_threshold (pred : Q) (ws losses gains : list Q) :
  Forall (fun w => 0 <= w) ws -> Forall (fun x => 0 <= x) losses -> Forall (fun x => 0 <= x) gains ->
  pred - dot ws losses <= pred /\ pred <= pred + dot ws gains.
Proof.
  intros Hw Hl Hg. pose proof (dot_nonneg ws losses Hw Hl). pose proof (dot_nonneg ws gains Hw Hg). lra.
Qed.
