From Coq Require Import ZArith QArith Qround Qminmax Lia Lqa List.
From Elex Require Import Base.QRound Model.Split.
Import ListNotations.
Open Scope Q_scope.

(* ---- the real-valued core, with the quotient named by its defining equation ---- *)

(* r : any training fraction within half a cent of min(1 - m/n, 0.9), m = (1+a)/(1-a), t = m/n *)
Lemma calib_core (a m t r : Q) (n : Z) :
  0 < a -> a < 1 -> m * (1 - a) == 1 + a -> t * inject_Z n == m ->
  m <= inject_Z n ->
  r <= Qmin (1 - t) (9 # 10) + (1 # 200) ->
  let tr := Z.max 1 (Qfloor (inject_Z n * r)) in
  (1 <= tr)%Z /\ (1 <= n - tr)%Z /\ a * (inject_Z (n - tr) + 1) < inject_Z (n - tr).
Proof.
  intros Ha0 Ha1 Hm Ht Hn Hr tr.
  assert (Hm1 : 1 < m).
  { apply Qnot_le_lt. intros C. assert (m * (1 - a) <= 1 * (1 - a)) by nra. lra. }
  assert (Hnpos : 1 < inject_Z n) by lra.
  assert (Hn2 : (2 <= n)%Z).
  { assert (H : (1 < n)%Z) by (apply Zlt_of_Qlt; change (inject_Z 1) with 1; exact Hnpos). lia. }
  pose proof (Q.le_min_l (1 - t) (9 # 10)) as Hl.
  pose proof (Q.le_min_r (1 - t) (9 # 10)) as Hr9.
  set (x := inject_Z n * r).
  pose proof (floor_lo x) as FL. pose proof (floor_hi x) as FH.
  assert (Hx : x < inject_Z n) by (unfold x; nra).
  assert (Hfl : (Qfloor x <= n - 1)%Z).
  { apply Zle_of_Qlt1. rewrite injm1. lra. }
  assert (Htr1 : (1 <= tr)%Z) by (unfold tr; lia).
  assert (Htr2 : (tr <= n - 1)%Z) by (unfold tr; fold x; lia).
  split; [exact Htr1 | split; [lia |]].
  (* the counting inequality *)
  unfold tr; fold x.
  destruct (Z.max_spec 1 (Qfloor x)) as [[Hc Hmax] | [Hc Hmax]]; rewrite Hmax.
  - (* training rows = floor x *)
    unfold Z.sub. rewrite inject_Z_plus, inject_Z_opp.
    set (c := inject_Z n - inject_Z (Qfloor x)).
    assert (Hc1 : c >= inject_Z n - x) by (unfold c; lra).
    assert (goal' : a * (c + 1) < c).
    { destruct (Qlt_le_dec (inject_Z n) (10 * m)) as [Hs | Hs].
      + (* n < 10 m: c >= m - n/200 *)
        assert (c >= m - inject_Z n * (1 # 200)) by (unfold x in Hc1; nra).
        nra.
      + (* n >= 10 m: c >= 0.095 n *)
        assert (c >= inject_Z n * (19 # 200)) by (unfold x in Hc1; nra).
        nra. }
    unfold c in goal'. lra.
  - (* training rows forced to 1: calibration = n - 1 *)
    rewrite !injm1.
    assert (0 <= (inject_Z n - m) * (1 - a)) by (apply Qmult_le_0_compat; lra).
    nra.
Qed.

Lemma quotient_def (a : Q) : a < 1 -> ((1 + a) / (1 - a)) * (1 - a) == 1 + a.
Proof. intros H. field. lra. Qed.

Lemma quotient_n (m : Q) (n : Z) : 0 < inject_Z n -> (m / inject_Z n) * inject_Z n == m.
Proof. intros H. field. lra. Qed.

Lemma np_conf_frac_bound (n : Z) (a : Q) :
  a < 1 -> 0 < inject_Z n ->
  np_conf_frac n a <= Qmin (1 - ((1 + a) / (1 - a)) / inject_Z n) (9 # 10) + (1 # 200).
Proof.
  intros Ha Hn. unfold np_conf_frac.
  pose proof (round2_near (Qmin (1 - (1 + a) / (inject_Z n * (1 - a))) (9 # 10))) as [_ B].
  assert (E : (1 + a) / (inject_Z n * (1 - a)) == ((1 + a) / (1 - a)) / inject_Z n) by (field; split; lra).
  assert (E2 : Qmin (1 - (1 + a) / (inject_Z n * (1 - a))) (9 # 10) == Qmin (1 - (1 + a) / (1 - a) / inject_Z n) (9 # 10)).
  { rewrite E. reflexivity. }
  lra.
Qed.

Lemma minimum_le (a : Q) (n : Z) : (np_minimum a <= n)%Z -> (1 + a) / (1 - a) <= inject_Z n.
Proof.
  intros H. unfold np_minimum in H. pose proof (ceil_hi ((1 + a) / (1 - a))).
  rewrite Zle_Qle in H. lra.
Qed.

Theorem np_split_valid (a : Q) (n : Z) :
  0 < a -> a < 1 -> (np_minimum a <= n)%Z ->
  (1 <= np_train n a)%Z /\ (1 <= np_ncal n a)%Z /\
  a * (inject_Z (np_ncal n a) + 1) < inject_Z (np_ncal n a).
Proof.
  intros Ha0 Ha1 Hmin.
  pose proof (minimum_le a n Hmin) as Hn.
  assert (Hm1 : 1 < (1 + a) / (1 - a)).
  { pose proof (quotient_def a Ha1). nra. }
  assert (Hnpos : 0 < inject_Z n) by lra.
  unfold np_ncal, np_train, train_rows.
  apply (calib_core a ((1 + a) / (1 - a)) (((1 + a) / (1 - a)) / inject_Z n) (np_conf_frac n a) n); auto.
  - apply quotient_def; assumption.
  - apply quotient_n; assumption.
  - apply np_conf_frac_bound; assumption.
Qed.

(* the quantile level is a valid probability strictly below 1 *)
Theorem np_quantile_valid (a : Q) (n : Z) :
  0 < a -> a < 1 -> (np_minimum a <= n)%Z ->
  0 < correction_quantile a (np_ncal n a) /\ correction_quantile a (np_ncal n a) < 1.
Proof.
  intros Ha0 Ha1 Hmin. destruct (np_split_valid a n Ha0 Ha1 Hmin) as [_ [Hc Hq]].
  unfold correction_quantile. set (c := np_ncal n a) in *.
  assert (Hcp : 1 <= inject_Z c) by (rewrite Zle_Qle in Hc; exact Hc).
  assert (E : a * (1 + 1 / inject_Z c) * inject_Z c == a * (inject_Z c + 1)) by (field; lra).
  split.
  - assert (0 < 1 / inject_Z c) by (apply Qlt_shift_div_l; lra). nra.
  - apply Qnot_le_lt. intros Hge. nra.
Qed.

(* the unrepaired split (floor without max) is empty at the minimum: witness of defect F7 *)
Lemma unrepaired_train_empty :
  exists (a : Q) (n : Z), 0 < a /\ a < 1 /\ (np_minimum a <= n)%Z /\ train_rows_unrepaired n (np_conf_frac n a) = 0%Z.
Proof. exists (1 # 2), 3%Z. repeat split; vm_compute; congruence. Qed.

(* gaussian: 7 <= n gives >= 4 training and >= 3 calibration rows... stated for the exact fraction 7/10 *)
Theorem gauss_split_valid (n : Z) :
  (7 <= n)%Z -> (4 <= gauss_train n)%Z /\ (3 <= n - gauss_train n)%Z.
Proof.
  intros H. unfold gauss_train, train_rows, gauss_conf_frac.
  set (x := inject_Z n * (7 # 10)).
  pose proof (floor_lo x) as FL. pose proof (floor_hi x) as FH.
  assert (Hn : 7 <= inject_Z n) by (rewrite Zle_Qle in H; exact H).
  assert (A : (4 <= Qfloor x)%Z).
  { apply floor_ge_int. change (inject_Z 4) with 4. unfold x. lra. }
  assert (B : (Qfloor x <= n - 3)%Z).
  { apply Zle_of_Qlt1. assert (E : inject_Z (n - 3) == inject_Z n - 3).
    { unfold Z.sub. rewrite inject_Z_plus. reflexivity. }
    rewrite E. unfold x in *. lra. }
  lia.
Qed.

Lemma gauss_minimum_is_7 : gauss_minimum == 7.
Proof. reflexivity. Qed.

(* ---- the gate ---- *)
Lemma max_minimum_ge (mins : list Q) (m : Q) : In m mins -> m <= max_minimum mins.
Proof.
  induction mins as [|x r IH]; simpl; [tauto|].
  intros [E | I]; destruct (Qlt_le_dec (max_minimum r) x) as [L | L]; subst; try lra.
  - specialize (IH I). lra.
  - apply IH; assumption.
Qed.

Theorem gate_not_enough_iff (n : Z) (mins : list Q) (d : bool) :
  (0 <= n)%Z ->
  gate n mins d = NotEnough <-> exists m, In m mins /\ inject_Z n < m.
Proof.
  intros Hn. assert (Hn' : 0 <= inject_Z n) by (rewrite Zle_Qle in Hn; exact Hn).
  unfold gate. destruct (Qlt_le_dec (inject_Z n) (max_minimum mins)) as [L | L].
  - split; [intros _ | reflexivity].
    induction mins as [|x r IH]; simpl in L.
    + exfalso. lra.
    + destruct (Qlt_le_dec (max_minimum r) x) as [C | C].
      * exists x; split; [left; reflexivity | exact L].
      * destruct (IH L) as [m [I Hm]]. exists m; split; [right; exact I | exact Hm].
  - split; [destruct d; discriminate |].
    intros [m [I Hm]]. pose proof (max_minimum_ge mins m I). lra.
Qed.

Theorem gate_duplicate (n : Z) (mins : list Q) :
  gate n mins true <> Runs.
Proof. unfold gate. destruct (Qlt_le_dec _ _); discriminate. Qed.

Theorem gate_runs_iff (n : Z) (mins : list Q) (d : bool) :
  (0 <= n)%Z ->
  gate n mins d = Runs <-> (forall m, In m mins -> m <= inject_Z n) /\ d = false.
Proof.
  intros Hn. split.
  - intros H. split.
    + intros m I. apply Qnot_lt_le. intros C.
      assert (E : gate n mins d = NotEnough) by (apply gate_not_enough_iff; [assumption | exists m; auto]).
      congruence.
    + unfold gate in H. destruct (Qlt_le_dec _ _); [discriminate|]. destruct d; [discriminate | reflexivity].
  - intros [A B]. subst d. unfold gate.
    destruct (Qlt_le_dec (inject_Z n) (max_minimum mins)) as [L | L]; [|reflexivity].
    exfalso. assert (E : gate n mins false = NotEnough) by (unfold gate; destruct (Qlt_le_dec _ _); [reflexivity | lra]).
    apply gate_not_enough_iff in E; [|assumption]. destruct E as [m [I Hm]]. specialize (A m I). lra.
Qed.
