From Coq Require Import List String Bool Arith Lia.
From Elex Require Import Model.Retry.
Import ListNotations.

Section Control.
  Variables (Args Coef : Type).

  (* the first attempt fails with a caught failure: the outcome is exactly that of the un-normalised solve *)
  Theorem retry_on_caught (solve : bool -> Args -> result Coef) (a : Args) (e : failure) :
    solve true a = Err e -> caught e = true -> fit_model solve a = solve false a.
  Proof. intros H C. unfold fit_model. rewrite H, C. reflexivity. Qed.

  Theorem no_retry_when_ok (solve : bool -> Args -> result Coef) (a : Args) (c : Coef) :
    solve true a = Ok c -> fit_model solve a = Ok c.
  Proof. intros H. unfold fit_model. rewrite H. reflexivity. Qed.

  Theorem other_errors_propagate (solve : bool -> Args -> result Coef) (a : Args) :
    solve true a = Err Other -> fit_model solve a = Err Other.
  Proof. intros H. unfold fit_model. rewrite H. reflexivity. Qed.

  (* fault at position k: the solver of fit k fails on its first attempt; every other fit of the run is untouched,
     and fit k returns what the un-normalised solve returns *)
  Definition inject (solve : bool -> Args -> result Coef) (e : failure) : bool -> Args -> result Coef :=
    fun norm a => if norm then Err e else solve false a.

  Theorem fault_any_position (solve : bool -> Args -> result Coef) (e : failure) (pre post : list Args) (a : Args) :
    caught e = true ->
    (map (fit_model solve) pre ++ [fit_model (inject solve e) a] ++ map (fit_model solve) post
    = map (fit_model solve) pre ++ [solve false a] ++ map (fit_model solve) post)%list.
  Proof. intros C. unfold fit_model at 2, inject. rewrite C. reflexivity. Qed.

  (* if the solver's answer does not depend on weight normalisation (the LP is the same up to a positive scaling of
     the objective), a fault is invisible in the results *)
  Theorem fault_invisible (solve : bool -> Args -> result Coef) (e : failure) (a : Args) :
    caught e = true -> solve false a = solve true a -> (forall c, solve true a = Ok c -> fit_model (inject solve e) a = fit_model solve a).
  Proof.
    intros C E c H. unfold fit_model, inject. rewrite C, H, E, H. reflexivity.
  Qed.
End Control.
