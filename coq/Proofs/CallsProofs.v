From Coq Require Import ZArith QArith Qminmax List Bool String Lia Lqa.
From Elex Require Import Model.Compare Model.Calls.
Import ListNotations.
Open Scope Q_scope.

Lemma Qltb_true x y : Qltb x y = true <-> x < y.
Proof.
  unfold Qltb. rewrite negb_true_iff. split.
  - intros H. apply Qnot_le_lt. intros C. apply Qle_bool_iff in C. congruence.
  - intros H. destruct (Qle_bool y x) eqn:E; [|reflexivity]. apply Qle_bool_iff in E. lra.
Qed.
Lemma Qltb_false x y : Qltb x y = false <-> y <= x.
Proof.
  unfold Qltb. rewrite negb_false_iff. apply Qle_bool_iff.
Qed.

Theorem called_lhs (p : Q) (stop : bool) (b : Q * Q) :
  lhs_thr <= adjust_pred CallL p /\ (stop = false -> 0 <= fst (adjust_bounds CallL stop b)).
Proof.
  split.
  - unfold adjust_pred. apply Q.le_max_l.
  - intros ->. destruct b as [lo hi]. unfold adjust_bounds. simpl. rewrite !andb_false_r, andb_true_r.
    destruct (Qltb lo 0) eqn:E; simpl.
    + unfold lhs_thr. lra.
    + apply Qltb_false in E. exact E.
Qed.

Theorem called_rhs (p : Q) (stop : bool) (b : Q * Q) :
  adjust_pred CallR p <= rhs_thr /\ (stop = false -> snd (adjust_bounds CallR stop b) <= 0).
Proof.
  split.
  - unfold adjust_pred. apply Q.le_min_l.
  - intros ->. destruct b as [lo hi]. unfold adjust_bounds. simpl. rewrite !andb_false_r, andb_true_r.
    destruct (Qltb 0 hi) eqn:E; simpl.
    + unfold rhs_thr. lra.
    + apply Qltb_false in E. exact E.
Qed.

(* stop-listed and not called: the interval contains zero, whatever the bootstrap produced *)
Theorem stopped_contains_zero (b : Q * Q) :
  fst (adjust_bounds NoCall true b) <= 0 /\ 0 <= snd (adjust_bounds NoCall true b).
Proof.
  destruct b as [lo hi]. unfold adjust_bounds. simpl. rewrite !andb_false_r, !andb_true_r. split.
  - destruct (Qltb 0 lo) eqn:E; simpl; [unfold rhs_thr; lra | apply Qltb_false in E; exact E].
  - destruct (Qltb hi 0) eqn:E; simpl; [unfold lhs_thr; lra | apply Qltb_false in E; exact E].
Qed.

Theorem untouched (p : Q) (b : Q * Q) : adjust_pred NoCall p = p /\ adjust_bounds NoCall false b = b.
Proof. destruct b as [lo hi]. unfold adjust_bounds. simpl. rewrite !andb_false_r. split; reflexivity. Qed.

(* a called contest that is also stop-listed: the prediction still honours the call *)
Theorem called_and_stopped (p : Q) : lhs_thr <= adjust_pred CallL p /\ adjust_pred CallR p <= rhs_thr.
Proof. split; [apply Q.le_max_l | apply Q.le_min_l]. Qed.

Lemma smem_In s l : smem s l = true <-> In s l.
Proof.
  induction l as [|h r IH]; simpl; [split; [discriminate | tauto]|].
  rewrite orb_true_iff, IH, String.eqb_eq. split; intros [A | A]; auto.
Qed.

(* contradictory or unknown calls are rejected, and only those *)
Theorem reject_iff (lhs rhs contests : list string) :
  format_called lhs rhs contests = None <->
  ((exists c, In c lhs /\ In c rhs) \/ (exists c, In c lhs /\ ~ In c contests) \/ (exists c, In c rhs /\ ~ In c contests)).
Proof.
  unfold format_called.
  destruct (existsb (fun c => smem c rhs) lhs) eqn:E1.
  - split; [intros _ | reflexivity]. left. apply existsb_exists in E1. destruct E1 as [c [I S]]. exists c. split; [exact I | apply smem_In; exact S].
  - assert (N1 : ~ exists c, In c lhs /\ In c rhs).
    { intros [c [I J]]. assert (existsb (fun c => smem c rhs) lhs = true) by (apply existsb_exists; exists c; split; [exact I | apply smem_In; exact J]). congruence. }
    destruct (forallb (fun c => smem c contests) lhs) eqn:E2; simpl.
    + assert (N2 : ~ exists c, In c lhs /\ ~ In c contests).
      { intros [c [I J]]. rewrite forallb_forall in E2. apply J. apply smem_In. apply E2. exact I. }
      destruct (forallb (fun c => smem c contests) rhs) eqn:E3; simpl.
      * split; [discriminate|]. intros [H | [H | [c [I J]]]]; try contradiction.
        rewrite forallb_forall in E3. exfalso. apply J. apply smem_In. apply E3. exact I.
      * split; [intros _ | reflexivity]. right. right.
        assert (X : exists c, In c rhs /\ smem c contests = false).
        { clear - E3. induction rhs as [|h r IH]; simpl in E3; [discriminate|].
          destruct (smem h contests) eqn:S; simpl in E3.
          - destruct (IH E3) as [c [I J]]. exists c. split; [right; exact I | exact J].
          - exists h. split; [left; reflexivity | exact S]. }
        destruct X as [c [I J]]. exists c. split; [exact I|]. intros C. apply smem_In in C. congruence.
    + split; [intros _ | reflexivity]. right. left.
      assert (X : exists c, In c lhs /\ smem c contests = false).
      { clear - E2. induction lhs as [|h r IH]; simpl in E2; [discriminate|].
        destruct (smem h contests) eqn:S; simpl in E2.
        - destruct (IH E2) as [c [I J]]. exists c. split; [right; exact I | exact J].
        - exists h. split; [left; reflexivity | exact S]. }
      destruct X as [c [I J]]. exists c. split; [exact I|]. intros C. apply smem_In in C. congruence.
Qed.

Theorem stops_reject_iff (stops contests : list string) :
  format_stops stops contests = None <-> exists c, In c stops /\ ~ In c contests.
Proof.
  unfold format_stops. destruct (forallb (fun c => smem c contests) stops) eqn:E; simpl.
  - split; [discriminate|]. intros [c [I J]]. rewrite forallb_forall in E. exfalso. apply J. apply smem_In. apply E. exact I.
  - split; [intros _ | reflexivity].
    induction stops as [|h r IH]; simpl in E; [discriminate|].
    destruct (smem h contests) eqn:S; simpl in E.
    + destruct (IH E) as [c [I J]]. exists c. split; [right; exact I | exact J].
    + exists h. split; [left; reflexivity|]. intros C. apply smem_In in C. congruence.
Qed.
