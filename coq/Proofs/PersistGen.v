(* decision procedures over the generated persistence facts (Gen/Persist.v) *)
From Coq Require Import List String Bool Ascii.
From Elex Require Import Model.Persist Gen.Persist.
Import ListNotations.
Open Scope string_scope.

Definition lit_clean (p : part) : bool := match p with Lit s => negb (has_space s) | Hole _ => true end.

(* <root>/<election id>/... with no whitespace in any literal part *)
Definition template_ok (t : list part) : bool :=
  forallb lit_clean t &&
  match t with
  | Hole r :: Lit s1 :: Hole e :: Lit s2 :: _ =>
      String.eqb r "S3_FILE_PATH" && String.eqb s1 "/" && String.eqb e "election_id" && starts_with_slash s2
  | _ => false
  end.

Definition guard_results : string := "APP_ENV != 'local' and self.save_results".

Definition site_ok (s : string * string * string * bool) : bool :=
  let '(fn, recv, guard, before) := s in
  String.eqb guard guard_results &&
  (if String.eqb fn "get_estimates"
   then (if String.eqb recv "data" then before else if String.eqb recv "self.results_handler" then negb before else false)
   else true).

Definition has_site (fn recv : string) : bool :=
  existsb (fun s : string * string * string * bool => let '(f, r, _, _) := s in String.eqb f fn && String.eqb r recv) client_write_sites.

Fixpoint assoc (k : string) (l : list (string * string)) : option string :=
  match l with [] => None | (a, b) :: r => if String.eqb a k then Some b else assoc k r end.

Definition flags_ok : bool :=
  match assoc "self.save_results" save_flags, assoc "save_data" save_flags, assoc "save_config" save_flags, assoc "save_conformalization" save_flags with
  | Some a, Some b, Some c, Some d =>
      String.eqb a "'results' in save_output" && String.eqb b "'data' in save_output" && String.eqb c "'config' in save_output"
      && String.eqb d "'conformalization' in save_output"
  | _, _, _, _ => false
  end.

Definition gauss_guards_ok : bool :=
  Nat.eqb (List.length gaussian_write_guards) 2 &&
  forallb (fun g : string * string => String.eqb (snd g) "top_level and aggregate and self.save_conformalization") gaussian_write_guards.
