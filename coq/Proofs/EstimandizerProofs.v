From Coq Require Import ZArith QArith Qabs List Bool Lqa.
From Elex Require Import Model.Compare Model.Estimandizer.
Import ListNotations.
Open Scope Q_scope.

Lemma qdiv0_zero x y : y == 0 -> qdiv0 x y == 0.
Proof. intros H. unfold qdiv0. apply Qeq_bool_iff in H. rewrite H. reflexivity. Qed.

Lemma qdiv0_mul x y : ~ y == 0 -> qdiv0 x y * y == x.
Proof.
  intros H. unfold qdiv0. destruct (Qeq_bool y 0) eqn:E.
  - apply Qeq_bool_iff in E. contradiction.
  - field. exact H.
Qed.

(* the normalised margin of non-negative counts lies in [-1, 1]; it is 0 when nothing was counted *)
Theorem nmargin_range (dem gop : Q) : 0 <= dem -> 0 <= gop ->
  -1 <= dv_nmargin (margin_columns dem gop) <= 1.
Proof.
  intros Hd Hg. unfold margin_columns. cbn [dv_nmargin]. unfold qdiv0.
  destruct (Qeq_bool (dem + gop) 0) eqn:E; [lra|].
  assert (0 < dem + gop) as Hp.
  { assert (~ dem + gop == 0) by (intros C; apply Qeq_bool_iff in C; congruence). lra. }
  split.
  - apply Qle_shift_div_l; [exact Hp | lra].
  - apply Qle_shift_div_r; [exact Hp | lra].
Qed.

Theorem nmargin_nothing_counted (dem gop : Q) : dem + gop == 0 -> dv_nmargin (margin_columns dem gop) == 0.
Proof. intros H. unfold margin_columns. cbn [dv_nmargin]. apply qdiv0_zero. exact H. Qed.

Theorem nmargin_times_weights (dem gop : Q) : ~ dem + gop == 0 ->
  dv_nmargin (margin_columns dem gop) * dv_weights (margin_columns dem gop) == dv_margin (margin_columns dem gop).
Proof. intros H. unfold margin_columns. cbn [dv_nmargin dv_weights dv_margin]. apply qdiv0_mul. exact H. Qed.

(* the turnout factor is the quotient, and 0 -- never nan / inf -- for a zero baseline *)
Theorem turnout_factor_spec (rw bw : Q) :
  (~ bw == 0 -> turnout_factor rw bw * bw == rw) /\ (bw == 0 -> turnout_factor rw bw == 0).
Proof. split; intros H; [apply qdiv0_mul | apply qdiv0_zero]; exact H. Qed.

(* baseline = previous result + 1 keeps the residual defined for every non-negative baseline, and it is the relative change *)
Theorem residual_spec (results baseline : Q) : 0 <= baseline ->
  0 < last_election baseline /\ residual results baseline * last_election baseline == results - last_election baseline.
Proof.
  intros H. unfold residual, last_election. split; [lra|]. field. lra.
Qed.

(* inverting the residual gives back the count: (1 + residual) * last = results *)
Theorem residual_inverse (results baseline : Q) : 0 <= baseline ->
  (1 + residual results baseline) * last_election baseline == results.
Proof. intros H. unfold residual, last_election. field. lra. Qed.

(* ---- C12 / F23: one pass gives the two-party weights, a second pass over the same frame gives the turnout ---- *)
Theorem first_pass_two_party (f : bframe) : bf_has_margin f = false ->
  bf_weights (add_baselines_margin f) = Some (bf_dem f + bf_gop f).
Proof. intros H. unfold add_baselines_margin. cbn [bf_has_margin]. rewrite H. reflexivity. Qed.

Theorem second_pass_turnout (f : bframe) :
  bf_weights (add_baselines_margin (add_baselines_margin f)) = Some (bf_turnout f).
Proof.
  unfold add_baselines_margin. cbn [bf_has_margin bf_turnout bf_dem bf_gop].
  destruct (bf_has_margin f); cbn [bf_has_margin bf_turnout]; reflexivity.
Qed.

(* idempotent exactly when nobody voted for a third party *)
Theorem add_baselines_idempotent_iff (f : bframe) : bf_has_margin f = false ->
  (weights_eqb (bf_weights (add_baselines_margin (add_baselines_margin f))) (bf_weights (add_baselines_margin f)) = true
   <-> bf_turnout f == bf_dem f + bf_gop f).
Proof.
  intros H. rewrite second_pass_turnout, (first_pass_two_party f H). cbn [weights_eqb]. apply Qeq_bool_iff.
Qed.
