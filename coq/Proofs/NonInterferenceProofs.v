From Coq Require Import ZArith QArith Qminmax List Bool String Lia.
From Elex Require Import Model.Compare Model.Units Model.NonInterference.
Import ListNotations.

Section Generic.
  Variable R : Type.
  Variable rid : R -> string.
  Variable cand : R -> bool.
  Variable fit_ok : R -> bool -> bool -> bool.
  Variables outlier_t outlier_m : list R -> list string.
  Hypothesis fit_needs_cand : forall r ft fm, fit_ok r ft fm = true -> cand r = true.

  Lemma filter_cand_replace (pre post : list R) (u u' : R) :
    cand u = false -> cand u' = false -> filter cand (pre ++ u' :: post) = filter cand (pre ++ u :: post).
  Proof. intros H H'. rewrite !filter_app. simpl. rewrite H, H'. reflexivity. Qed.

  (* replacing a row that is not a candidate by another non-candidate row (same unit, other counts) changes neither the
     outlier flags nor the set of fitting rows -- for EVERY outlier model *)
  Theorem non_interference (pre post : list R) (u u' : R) :
    cand u = false -> cand u' = false ->
    flags_t R cand outlier_t (pre ++ u' :: post) = flags_t R cand outlier_t (pre ++ u :: post) /\
    flags_m R cand outlier_m (pre ++ u' :: post) = flags_m R cand outlier_m (pre ++ u :: post) /\
    fit_rows R rid cand fit_ok outlier_t outlier_m (pre ++ u' :: post) = fit_rows R rid cand fit_ok outlier_t outlier_m (pre ++ u :: post).
  Proof.
    intros H H'. unfold fit_rows. unfold flags_t, flags_m.
    rewrite (filter_cand_replace pre post u u' H H').
    split; [reflexivity|]. split; [reflexivity|].
    set (ft := outlier_t (filter cand (pre ++ u :: post))). set (fm := outlier_m (filter cand (pre ++ u :: post))).
    rewrite !filter_app. cbn [filter].
    assert (A : fit_ok u (smem (rid u) ft) (smem (rid u) fm) = false).
    { destruct (fit_ok u _ _) eqn:E; [|reflexivity]. apply fit_needs_cand in E. congruence. }
    assert (A' : fit_ok u' (smem (rid u') ft) (smem (rid u') fm) = false).
    { destruct (fit_ok u' _ _) eqn:E; [|reflexivity]. apply fit_needs_cand in E. congruence. }
    rewrite A, A'. reflexivity.
  Qed.

  (* hence every fitted quantity -- coefficients, conformal corrections, gaussian statistics, bootstrap training summaries --
     and everything computed from it for other units is unchanged *)
  Corollary estimates_unchanged {Y} (estimate : list R -> Y) (pre post : list R) (u u' : R) :
    cand u = false -> cand u' = false ->
    pipeline R rid cand fit_ok outlier_t outlier_m estimate (pre ++ u' :: post) = pipeline R rid cand fit_ok outlier_t outlier_m estimate (pre ++ u :: post).
  Proof.
    intros H H'. unfold pipeline. destruct (non_interference pre post u u' H H') as [_ [_ E]]. rewrite E. reflexivity.
  Qed.
End Generic.

(* the C09 unit model satisfies the hypothesis, and the units named by the property are not candidates *)
Lemma fit_ok_unit_needs_cand p r ft fm : fit_ok_unit p r ft fm = true -> cand_unit p r = true.
Proof. unfold fit_ok_unit. intros H. apply andb_true_iff in H. destruct H as [H _]. apply andb_true_iff in H. tauto. Qed.

Lemma below_threshold_not_candidate p r : rep0 p r = false -> cand_unit p r = false.
Proof. unfold cand_unit. intros ->. reflexivity. Qed.
Lemma blocklisted_not_candidate p r : blk p r = true -> cand_unit p r = false.
Proof. unfold cand_unit. intros ->. rewrite andb_false_r. reflexivity. Qed.
Lemma zero_baseline_not_candidate p r : zero_b r = true -> cand_unit p r = false.
Proof. unfold cand_unit. intros ->. simpl. rewrite !andb_false_r. reflexivity. Qed.

(* the decision table of C09 uses exactly these rows for fitting *)
Lemma fit_ok_unit_is_used_for_fit p r :
  fit_ok_unit p r (d_flag_t r) (d_flag_m r) = used_for_fit p r.
Proof.
  unfold fit_ok_unit, cand_unit, used_for_fit, classify.
  destruct (blk p r); simpl; [rewrite andb_false_r; reflexivity|].
  destruct (zero_b r); simpl; [rewrite andb_false_r; reflexivity|].
  destruct (rep0 p r); simpl; [|reflexivity].
  destruct (strange p r); simpl; [reflexivity|].
  destruct (d_flag_t r); simpl; [reflexivity|].
  destruct (d_flag_m r && p_margin p); reflexivity.
Qed.

Theorem unit_non_interference (p : params) (outlier_t outlier_m : list drow -> list string) (pre post : list drow) (u u' : drow) :
  cand_unit p u = false -> cand_unit p u' = false ->
  fit_rows drow d_id (cand_unit p) (fit_ok_unit p) outlier_t outlier_m (pre ++ u' :: post)
  = fit_rows drow d_id (cand_unit p) (fit_ok_unit p) outlier_t outlier_m (pre ++ u :: post).
Proof.
  intros H H'. apply (non_interference drow d_id (cand_unit p) (fit_ok_unit p) outlier_t outlier_m (fit_ok_unit_needs_cand p) pre post u u' H H').
Qed.

(* bootstrap: changing one unit's partial count changes only that unit's clipped draws *)
Section Clip.
  Variable U : Type.
  Variable bounds : U -> Q -> Q * Q.
  Variable raw : U -> Q.
  Theorem clip_own_unit_only (pre post : list (U * Q)) (u : U) (c c' : Q) :
    draws U bounds raw (pre ++ (u, c') :: post) = (draws U bounds raw pre ++ clipq (bounds u c') (raw u) :: draws U bounds raw post)%list /\
    draws U bounds raw (pre ++ (u, c) :: post) = (draws U bounds raw pre ++ clipq (bounds u c) (raw u) :: draws U bounds raw post)%list.
  Proof. unfold draws. rewrite !map_app. simpl. auto. Qed.
End Clip.

(* historical evaluation: the hidden frame does not depend on the historical results of units below the threshold *)
Theorem hidden_results_irrelevant (thr : Q) (pre post : list (string * Q * list Q)) (i : string) (pev : Q) (res res' : list Q) :
  Qle_bool thr pev = false -> List.length res = List.length res' ->
  hide thr (pre ++ (i, pev, res') :: post) = hide thr (pre ++ (i, pev, res) :: post).
Proof.
  intros H L. unfold hide. rewrite !map_app. simpl. rewrite H. f_equal. f_equal. f_equal.
  revert res' L. induction res as [|x r IH]; intros [|y r'] L; simpl in *; try discriminate; [reflexivity|].
  f_equal. apply IH. lia.
Qed.
