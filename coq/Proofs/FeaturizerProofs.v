From Coq Require Import ZArith QArith List Bool String Permutation Lia Lqa.
From Elex Require Import Base.Frame Model.Compare Model.Featurizer.
Import ListNotations.
Open Scope Q_scope.

Lemma smem_In s l : smem s l = true <-> In s l.
Proof.
  induction l as [|h r IH]; simpl; [split; [discriminate | tauto]|].
  rewrite orb_true_iff, IH, String.eqb_eq. split; intros [A | A]; auto.
Qed.

Lemma sdedup_In x l : In x (sdedup l) <-> In x l.
Proof.
  induction l as [|h r IH]; simpl; [tauto|]. destruct (smem h r) eqn:E.
  - rewrite IH. apply smem_In in E. split; [auto | intros [-> | H]; auto].
  - simpl. rewrite IH. tauto.
Qed.

Lemma sdedup_NoDup l : NoDup (sdedup l).
Proof.
  induction l as [|h r IH]; simpl; [constructor|]. destruct (smem h r) eqn:E; [exact IH|].
  constructor; [|exact IH]. rewrite sdedup_In. intros C. apply smem_In in C. congruence.
Qed.

Lemma sorted_distinct_In x l : In x (sorted_distinct l) <-> In x l.
Proof.
  unfold sorted_distinct. split; intros H.
  - apply sdedup_In. eapply Permutation_in; [apply isort_perm | exact H].
  - eapply Permutation_in; [apply Permutation_sym, isort_perm | apply sdedup_In; exact H].
Qed.

Lemma sorted_distinct_NoDup l : NoDup (sorted_distinct l).
Proof. unfold sorted_distinct. eapply Permutation_NoDup; [apply Permutation_sym, isort_perm | apply sdedup_NoDup]. Qed.

Lemma levels_NoDup p i rows : NoDup (levels p i rows).
Proof. apply sorted_distinct_NoDup. Qed.

Lemma observed_NoDup p i rows : NoDup (observed p i rows).
Proof. unfold observed. apply NoDup_filter, levels_NoDup. Qed.

Lemma observed_spec p i rows lv : In lv (observed p i rows) <-> exists r, In r rows /\ f_fit r = true /\ level_of p i r = lv.
Proof.
  unfold observed. rewrite filter_In, existsb_exists. unfold levels. rewrite sorted_distinct_In, in_map_iff. split.
  - intros [_ [r [I H]]]. apply andb_true_iff in H. destruct H as [F E]. apply String.eqb_eq in E. exists r. auto.
  - intros [r [I [F E]]]. split; [exists r; auto | exists r; split; [exact I | rewrite F, E, String.eqb_refl; reflexivity]].
Qed.

(* every fitted dummy column takes both values on the fitting rows *)
Theorem identifiable p i rows lv : In lv (active p i rows) ->
  (exists r, In r rows /\ f_fit r = true /\ indicator p i r lv == 1) /\ (exists r, In r rows /\ f_fit r = true /\ indicator p i r lv == 0).
Proof.
  unfold active. intros I. pose proof (observed_NoDup p i rows) as ND.
  destruct (observed p i rows) as [|a t] eqn:O; [destruct I|]. simpl in I.
  assert (Il : In lv (observed p i rows)) by (rewrite O; right; exact I).
  assert (Ia : In a (observed p i rows)) by (rewrite O; left; reflexivity).
  assert (Na : a <> lv) by (inversion ND; subst; intros ->; contradiction).
  apply observed_spec in Il. apply observed_spec in Ia.
  destruct Il as [r1 [I1 [F1 E1]]]. destruct Ia as [r0 [I0 [F0 E0]]]. split.
  - exists r1. repeat split; auto. unfold indicator. rewrite E1, String.eqb_refl. reflexivity.
  - exists r0. repeat split; auto. unfold indicator. rewrite E0. apply String.eqb_neq in Na. rewrite Na. reflexivity.
Qed.

(* exactly one observed level per effect is absorbed by the intercept *)
Theorem one_level_absorbed p i rows : (exists r, In r rows /\ f_fit r = true) ->
  exists a, absorbed p i rows = Some a /\ In a (observed p i rows) /\ ~ In a (active p i rows)
            /\ forall lv, In lv (observed p i rows) -> lv = a \/ In lv (active p i rows).
Proof.
  intros [r [I F]]. assert (X : In (level_of p i r) (observed p i rows)) by (apply observed_spec; exists r; auto).
  pose proof (observed_NoDup p i rows) as ND. unfold absorbed, active.
  destruct (observed p i rows) as [|a t]; [destruct X|]. exists a. simpl. inversion ND; subst. repeat split; auto.
  intros lv [-> | H]; auto.
Qed.

(* a unit whose level was seen in fitting gets that level's indicator (all zeros for the absorbed level) *)
Theorem seen_level p i rows r lv : In (level_of p i r) (observed p i rows) ->
  holdout_value p rows i r lv = indicator p i r lv.
Proof.
  intros H. unfold holdout_value. apply smem_In in H. rewrite H. reflexivity.
Qed.

Theorem absorbed_level_all_zero p i rows r lv : absorbed p i rows = Some (level_of p i r) -> In lv (active p i rows) ->
  holdout_value p rows i r lv == 0.
Proof.
  intros A I. unfold absorbed, active in *. pose proof (observed_NoDup p i rows) as ND.
  destruct (observed p i rows) as [|a t] eqn:O; [discriminate|]. simpl in *. inversion A; subst a.
  assert (S : smem (level_of p i r) (observed p i rows) = true) by (apply smem_In; rewrite O; left; reflexivity).
  unfold holdout_value. rewrite S. cbn [negb]. unfold indicator.
  assert (N : level_of p i r <> lv).
  { inversion ND as [|? ? Hn Hd]; subst. intros E. apply Hn. rewrite E. exact I. }
  apply String.eqb_neq in N. rewrite N. reflexivity.
Qed.

(* a unit whose level was not seen gets the equal share 1/(k+1) on each of the k fitted levels *)
Theorem unseen_level p i rows r lv : ~ In (level_of p i r) (observed p i rows) ->
  holdout_value p rows i r lv == 1 / inject_Z (Z.of_nat (List.length (active p i rows)) + 1).
Proof.
  intros H. unfold holdout_value.
  assert (S : smem (level_of p i r) (observed p i rows) = false).
  { destruct (smem (level_of p i r) (observed p i rows)) eqn:E; [apply smem_In in E; contradiction | reflexivity]. }
  rewrite S. reflexivity.
Qed.

(* fitting and prediction matrices have the same columns in the same order *)
Theorem same_columns p rows r r' :
  List.length (fitting_row p rows r) = List.length (active_features p rows) /\
  List.length (holdout_row p rows r') = List.length (active_features p rows).
Proof. unfold fitting_row, holdout_row, ordered_row. rewrite !map_length. auto. Qed.

(* custom column order: intercept first, baseline margin terms next, the rest after, each group in its original order *)
Theorem sort_features_spec l :
  Permutation (sort_features l) l /\
  exists a b c, sort_features l = a ++ b ++ c /\ Forall (fun s => key_of s = 0%nat) a /\ Forall (fun s => key_of s = 1%nat) b /\ Forall (fun s => key_of s = 2%nat) c
                /\ a = filter (fun s => Nat.eqb (key_of s) 0) l.
Proof.
  split.
  - unfold sort_features. induction l as [|x r IH]; simpl; [constructor|].
    assert (K : key_of x = 0%nat \/ key_of x = 1%nat \/ key_of x = 2%nat).
    { unfold key_of. destruct (String.prefix "intercept" x); [auto|]. destruct (String.prefix "baseline_normalized_margin" x); auto. }
    destruct K as [K | [K | K]]; rewrite K; simpl.
    + constructor. exact IH.
    + eapply perm_trans; [apply Permutation_sym, Permutation_middle|]. constructor. exact IH.
    + eapply perm_trans; [|constructor; exact IH].
      rewrite app_assoc. eapply perm_trans; [apply Permutation_sym, Permutation_middle|]. rewrite <- app_assoc. reflexivity.
  - exists (filter (fun s => Nat.eqb (key_of s) 0) l), (filter (fun s => Nat.eqb (key_of s) 1) l), (filter (fun s => Nat.eqb (key_of s) 2) l).
    split; [reflexivity|]. repeat split; try (rewrite Forall_forall; intros s I; apply filter_In in I; destruct I as [_ E]; apply Nat.eqb_eq in E; exact E).
Qed.

Theorem intercept_first p rows : hd_error (active_features p rows) = Some "intercept"%string /\ hd_error (complete_features p rows) = Some "intercept"%string.
Proof. unfold active_features, complete_features, sort_features. simpl. auto. Qed.

(* centred features have mean zero over all units *)
Lemma qsum_shift (l : list Q) (m : Q) : qsum (map (fun x => x - m) l) == qsum l - inject_Z (Z.of_nat (List.length l)) * m.
Proof.
  induction l as [|x r IH]; [simpl; ring|].
  cbn [map qsum List.length]. rewrite IH, Nat2Z.inj_succ, <- Z.add_1_l, inject_Z_plus. change (inject_Z 1) with 1. ring.
Qed.

Theorem centred_mean_zero p rows j : p_center p = true -> rows <> [] -> qsum (map (feat_value p rows j) rows) == 0.
Proof.
  intros C NE. unfold feat_value. rewrite C.
  set (m := mean (map (raw_feat p rows j) rows)).
  assert (E : map (fun r => raw_feat p rows j r - m) rows = map (fun x => x - m) (map (raw_feat p rows j) rows)) by (rewrite map_map; reflexivity).
  rewrite E, qsum_shift, map_length. unfold m, mean.
  destruct (map (raw_feat p rows j) rows) as [|x0 t] eqn:M.
  - destruct rows; [congruence | discriminate].
  - assert (L : List.length rows = List.length (x0 :: t)) by (rewrite <- M, map_length; reflexivity). rewrite L.
    assert (P : 0 < inject_Z (Z.of_nat (List.length (x0 :: t)))) by (change 0 with (inject_Z 0); rewrite <- Zlt_Qlt; simpl; lia).
    field. lra.
Qed.

(* levels not selected by the user are pooled into one "other" level *)
Theorem other_pooling (sel : list string) (lv : string) : ~ In lv sel -> pooled (Some sel) lv = "other"%string.
Proof. intros H. unfold pooled. destruct (smem lv sel) eqn:E; [apply smem_In in E; contradiction | reflexivity]. Qed.

(* per-state feature copies only for listed states that have reporting units *)
Theorem state_copies_only_reporting p rows st : In st (live_sep p rows) <-> In st (p_sep p) /\ exists r, In r rows /\ f_rep r = true /\ f_state r = st.
Proof.
  unfold live_sep. rewrite filter_In, existsb_exists. split.
  - intros [I [r [Ir H]]]. apply andb_true_iff in H. destruct H as [F E]. apply String.eqb_eq in E. split; [exact I | exists r; auto].
  - intros [I [r [Ir [F E]]]]. split; [exact I | exists r; split; [exact Ir | rewrite F, E, String.eqb_refl; reflexivity]].
Qed.
