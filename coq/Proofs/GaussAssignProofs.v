From Coq Require Import ZArith List Bool String Arith Lia.
From Elex Require Import Base.Frame Model.GaussAssign.
Import ListNotations.
Open Scope nat_scope.

Lemma kdedup_In x l : In x (kdedup l) <-> In x l.
Proof.
  induction l as [|h r IH]; simpl; [tauto|]. destruct (kmem h r) eqn:E.
  - rewrite IH. apply kmem_In in E. split; [auto | intros [-> | H]; auto].
  - simpl. rewrite IH. tauto.
Qed.

Lemma key_eqb_sym_local (a b : key) : key_eqb a b = key_eqb b a.
Proof. destruct (key_eqb a b) eqn:E.
  - apply key_eqb_eq in E. subst. symmetry. apply key_eqb_refl.
  - destruct (key_eqb b a) eqn:F; [|reflexivity]. apply key_eqb_eq in F. subst. rewrite key_eqb_refl in E. discriminate.
Qed.

Lemma find_level_app j l1 l2 g :
  find_level j (l1 ++ l2) g = match find_level j l1 g with Some x => Some x | None => find_level j l2 g end.
Proof.
  unfold find_level. induction l1 as [|m r IH]; simpl; [reflexivity|].
  destruct (Nat.eqb (fst (fst m)) j && key_eqb (snd (fst m)) (prefix j g)); [reflexivity | exact IH].
Qed.

Lemma find_level_mk j k conf gs g :
  find_level j (map (mk k conf) gs) g = if Nat.eqb k j && kmem (prefix j g) gs then Some (ids_at k conf (prefix j g)) else None.
Proof.
  unfold find_level. induction gs as [|h r IH]; simpl; [rewrite andb_false_r; reflexivity|].
  destruct (Nat.eqb k j) eqn:E; simpl in *; [|exact IH].
  rewrite (key_eqb_sym_local h (prefix j g)).
  destruct (key_eqb (prefix j g) h) eqn:K; simpl.
  - apply key_eqb_eq in K. subst h. reflexivity.
  - exact IH.
Qed.

(* models fitted at level k' or coarser never carry a finer level *)
Lemma gfit_levels k conf nu : forall m, In m (gfit k conf nu) -> fst (fst m) <= k.
Proof.
  induction k as [|k' IH]; intros m I; simpl in I; destruct conf as [|c0 cr]; try (destruct I; fail).
  - destruct (forallb _ _); apply in_map_iff in I; destruct I as [g [<- _]]; simpl; lia.
  - destruct (forallb _ _).
    + apply in_map_iff in I. destruct I as [g [<- _]]. simpl. lia.
    + apply in_app_iff in I. destruct I as [I | I].
      * specialize (IH m I). lia.
      * apply in_map_iff in I. destruct I as [g [<- _]]. simpl. lia.
Qed.

Lemma find_level_none_above j l g : (forall m, In m l -> fst (fst m) <> j) -> find_level j l g = None.
Proof.
  intros H. unfold find_level. induction l as [|m r IH]; simpl; [reflexivity|].
  assert (E : Nat.eqb (fst (fst m)) j = false) by (apply Nat.eqb_neq; apply H; left; reflexivity).
  rewrite E. simpl. apply IH. intros x I. apply H. right. exact I.
Qed.

Lemma match_from_app_above j l1 l2 g : (forall m, In m l2 -> j < fst (fst m)) ->
  match_from j (l1 ++ l2) g = match_from j l1 g.
Proof.
  intros H. induction j as [|j' IH]; simpl; rewrite find_level_app.
  - rewrite (find_level_none_above 0 l2 g); [destruct (find_level 0 l1 g); reflexivity|]. intros m I. specialize (H m I). lia.
  - rewrite (find_level_none_above (S j') l2 g); [|intros m I; specialize (H m I); lia].
    destruct (find_level (S j') l1 g); [reflexivity|]. apply IH. intros m I. specialize (H m I). lia.
Qed.

Lemma cnt_pos_in_conf_groups k conf g : 1 <= cnt_at k conf g -> In g (conf_groups_at k conf).
Proof.
  unfold cnt_at, conf_groups_at. intros H. rewrite kdedup_In, in_map_iff.
  destruct (filter (fun c => key_eqb (prefix k (fst c)) g) conf) as [|c r] eqn:F; [simpl in H; lia|].
  assert (I : In c (filter (fun c => key_eqb (prefix k (fst c)) g) conf)) by (rewrite F; left; reflexivity).
  apply filter_In in I. destruct I as [I E]. apply key_eqb_eq in E. exists c. auto.
Qed.

Lemma threshold_pos conf : conf <> [] -> 1 <= threshold conf.
Proof. unfold threshold. destruct conf; [congruence|]. simpl. intros _. lia. Qed.

Lemma in_groups k conf nu g : In g nu -> In (prefix k g) (groups_at k conf nu).
Proof. intros H. unfold groups_at. rewrite kdedup_In, in_app_iff. right. apply in_map. exact H. Qed.

(* main theorem: every group with outstanding units is matched with exactly the calibration set the rule names *)
Theorem assign_is_rule (k : nat) (conf : list cal) (nu : list key) (g : key) :
  conf <> [] -> In g nu -> assign k conf nu g = Some (rule k conf g).
Proof.
  intros NE I. unfold assign. induction k as [|k' IH].
  - (* level 0: the single model of all calibration units *)
    simpl. destruct conf as [|c0 cr]; [congruence|].
    assert (G : In [] (conf_groups_at 0 (c0 :: cr))).
    { unfold conf_groups_at. rewrite kdedup_In. simpl. left. reflexivity. }
    assert (F : find_level 0 (map (mk 0 (c0 :: cr)) (conf_groups_at 0 (c0 :: cr))) g = Some (ids_at 0 (c0 :: cr) (prefix 0 g))).
    { rewrite find_level_mk. simpl. apply kmem_In in G. unfold prefix. simpl. rewrite G. reflexivity. }
    destruct (forallb _ _); simpl; rewrite F; reflexivity.
  - cbn [gfit]. destruct conf as [|c0 cr] eqn:Ec; [congruence|]. rewrite <- Ec in *.
    set (T := threshold conf).
    assert (Tp : 1 <= T) by (apply threshold_pos; exact NE).
    pose proof (in_groups (S k') conf nu g I) as Ig.
    destruct (forallb (fun g0 => Nat.leb T (cnt_at (S k') conf g0)) (groups_at (S k') conf nu)) eqn:All.
    + (* every group at this level is large *)
      rewrite forallb_forall in All. specialize (All _ Ig). apply Nat.leb_le in All.
      cbn [match_from]. rewrite find_level_mk, Nat.eqb_refl. cbn [andb].
      assert (M : kmem (prefix (S k') g) (conf_groups_at (S k') conf) = true).
      { apply kmem_In. apply cnt_pos_in_conf_groups. lia. }
      rewrite M. cbn [rule]. fold T. assert (L : Nat.leb T (cnt_at (S k') conf (prefix (S k') g)) = true) by (apply Nat.leb_le; exact All).
      rewrite L. reflexivity.
    + (* mixed: small groups use the fit one level up, large groups their own *)
      cbn [match_from]. rewrite find_level_app.
      rewrite (find_level_none_above (S k') (gfit k' conf nu) g); [|intros m Im; pose proof (gfit_levels k' conf nu m Im); lia].
      rewrite find_level_mk, Nat.eqb_refl. cbn [andb].
      cbn [rule]. fold T.
      destruct (Nat.leb T (cnt_at (S k') conf (prefix (S k') g))) eqn:L.
      * assert (M : kmem (prefix (S k') g) (filter (fun g0 => Nat.leb T (cnt_at (S k') conf g0)) (groups_at (S k') conf nu)) = true).
        { apply kmem_In. apply filter_In. auto. }
        rewrite M. reflexivity.
      * assert (M : kmem (prefix (S k') g) (filter (fun g0 => Nat.leb T (cnt_at (S k') conf g0)) (groups_at (S k') conf nu)) = false).
        { destruct (kmem _ _) eqn:M; [|reflexivity]. apply kmem_In in M. apply filter_In in M. destruct M. congruence. }
        rewrite M. rewrite match_from_app_above.
        -- apply IH.
        -- intros m Im. apply in_map_iff in Im. destruct Im as [x [<- _]]. simpl. lia.
Qed.

(* the calibration set is never a sibling's: every unit it contains shares the matched key prefix with the group *)
Theorem rule_never_sibling (k : nat) (conf : list cal) (g : key) :
  let (j, ids) := rule k conf g in
  j <= k /\ ids = ids_at j conf (prefix j g) /\ (j < k -> cnt_at (S j) conf (prefix (S j) g) < threshold conf).
Proof.
  induction k as [|k' IH]; cbn [rule].
  - split; [lia|]. split; [reflexivity | intros H; lia].
  - destruct (Nat.leb (threshold conf) (cnt_at (S k') conf (prefix (S k') g))) eqn:L.
    + split; [lia|]. split; [reflexivity | intros H; lia].
    + destruct (rule k' conf g) as [j ids]. destruct IH as [A [B C]]. split; [lia|]. split; [exact B|].
      intros H. destruct (Nat.eq_dec j k') as [-> | N]; [apply Nat.leb_gt; exact L | apply C; lia].
Qed.

Theorem rule_own_if_big_enough (k : nat) (conf : list cal) (g : key) :
  threshold conf <= cnt_at k conf (prefix k g) -> rule k conf g = (k, ids_at k conf (prefix k g)).
Proof.
  destruct k as [|k']; simpl; [reflexivity|]. intros H. apply Nat.leb_le in H. rewrite H. reflexivity.
Qed.

(* bounds formula: summed unadjusted bounds shifted by the normal quantile at (3+alpha)/4 of the aggregated centre and scale *)
From Coq Require Import QArith.
Theorem formula_shape (ppf : Q -> Q -> Q -> Q) (alpha lo hi ws wss mu sg kp : Q) :
  (gauss_lb ppf alpha lo ws wss mu sg kp + ppf ((3 + alpha) * (1 # 4)) (ws * mu) (agg_variance sg kp ws wss) == lo)%Q /\
  (gauss_ub ppf alpha hi ws wss mu sg kp - ppf ((3 + alpha) * (1 # 4)) (ws * mu) (agg_variance sg kp ws wss) == hi)%Q.
Proof. unfold gauss_lb, gauss_ub. split; ring. Qed.

(* the reported bound never falls below the votes already counted in the group, and is the un-floored formula whenever that is larger *)
From Coq Require Import Qminmax Lqa.
Lemma reported_bound_floor (upper : bool) (unadjusted wsum ppfv vn rest : Q) :
  (vn + rest <= reported_bound upper unadjusted wsum ppfv vn rest)%Q.
Proof.
  unfold reported_bound.
  pose proof (Q.le_max_r (wsum + (if upper then unadjusted + ppfv else unadjusted - ppfv)) vn) as H.
  lra.
Qed.

Lemma reported_bound_unfloored (upper : bool) (unadjusted wsum ppfv vn rest : Q) :
  (vn <= wsum + (if upper then unadjusted + ppfv else unadjusted - ppfv))%Q ->
  (reported_bound upper unadjusted wsum ppfv vn rest == wsum + (if upper then unadjusted + ppfv else unadjusted - ppfv) + rest)%Q.
Proof.
  intros H. unfold reported_bound. rewrite Q.max_l by exact H. reflexivity.
Qed.

Lemma reported_bound_ordered (ul uu wsum pl pu vn rest : Q) :
  (ul - pl <= uu + pu)%Q -> (reported_bound false ul wsum pl vn rest <= reported_bound true uu wsum pu vn rest)%Q.
Proof.
  intros H. unfold reported_bound.
  assert (Qmax (wsum + (ul - pl)) vn <= Qmax (wsum + (uu + pu)) vn)%Q as Hm.
  { apply Q.max_le_compat_r. lra. }
  lra.
Qed.
