(* Bounds of a nonreporting unit: ordered, inside the naive range, around the margin already counted. *)
From Coq Require Import ZArith QArith Qabs Qminmax List Bool Lia Lqa.
From Elex Require Import Model.Compare Model.NonrepBounds.
Import ListNotations.
Open Scope Q_scope.

Lemma frac_range pev : 0 <= pev -> 0 <= frac pev /\ frac pev <= 1.
Proof.
  intros H. unfold frac. destruct (Q.min_spec pev 100) as [[_ E] | [_ E]]; rewrite E.
  - pose proof (Q.le_min_r pev 100) as M. destruct (Q.min_spec pev 100) as [[L _] | [L _]]; lra.
  - lra.
Qed.

(* normalised margin: with naive bounds L <= ylo <= yhi <= U and a counted margin in [ylo, yhi], the clipping interval
   is ordered, stays inside [ylo, yhi] and contains the counted margin *)
Lemma y_clip_bounds_range ylo yhi pev nm : 0 <= pev -> ylo <= nm -> nm <= yhi ->
  let b := y_bounds ylo yhi pev nm in ylo <= fst b /\ fst b <= nm /\ nm <= snd b /\ snd b <= yhi.
Proof.
  intros Hp L U. unfold y_bounds. destruct (frac_range pev Hp) as [F0 F1]. set (f := frac pev) in *.
  destruct (naive f); cbn [fst snd]; repeat split; nra.
Qed.

Lemma div_anti (a c d : Q) : 0 <= a -> 0 < c -> c <= d -> a / d <= a / c.
Proof.
  intros A C D. apply Qle_shift_div_l; [exact C|].
  assert (E : a / d * c == (a * c) / d) by (unfold Qdiv; ring). rewrite E.
  apply Qle_shift_div_r; [lra | nra].
Qed.

Lemma div_nonneg (a c : Q) : 0 <= a -> 0 < c -> 0 <= a / c.
Proof. intros A C. apply Qle_shift_div_l; [exact C | lra]. Qed.

Lemma isclose_zero_small x : isclose x 0 = true -> Qabs x <= (1 # 100000000).
Proof.
  unfold isclose. intros H. apply Qle_bool_iff in H.
  assert (E : x - 0 == x) by ring. rewrite E in H. change (Qabs 0) with 0 in H. lra.
Qed.

(* turnout factor: for a counted factor tf >= 0, an error bound err >= 0 and naive bounds zlo <= zhi (zhi not below 1e-8)
   the clipping interval is ordered and its lower end is never negative when the naive lower end is not *)
Lemma z_bounds_ordered zlo zhi err pev tf : 0 <= pev -> 0 <= tf -> 0 <= err -> zlo <= zhi -> (1 # 100000000) <= zhi ->
  let b := z_bounds zlo zhi err pev tf in fst b <= snd b /\ (0 <= zlo -> 0 <= fst b).
Proof.
  intros Hp T E Z Zh. unfold z_bounds. destruct (frac_range pev Hp) as [F0 F1]. set (f := frac pev) in *.
  destruct (naive f) eqn:N; cbn [fst snd]; [split; [exact Z | auto]|].
  unfold naive in N. apply orb_false_elim in N. destruct N as [N _].
  unfold Qltb in N. apply negb_false_iff in N. apply Qle_bool_iff in N.
  assert (P : 0 < f + err) by lra.
  assert (M : 0 < Qmax (f - err) (1 # 100)) by (pose proof (Q.le_max_r (f - err) (1 # 100)); lra).
  assert (ML : Qmax (f - err) (1 # 100) <= f + err).
  { apply Q.max_lub; lra. }
  pose proof (div_anti tf _ _ T M ML) as D. pose proof (div_nonneg tf _ T P) as NN.
  split; [|intros _; exact NN].
  destruct (isclose (tf / Qmax (f - err) (1 # 100)) 0) eqn:C; [|exact D].
  apply isclose_zero_small in C.
  assert (A : tf / Qmax (f - err) (1 # 100) <= Qabs (tf / Qmax (f - err) (1 # 100))) by apply Qle_Qabs. lra.
Qed.

(* without any assumption on where the counted margin lies: the interval stays inside the span of the naive bounds and the counted margin *)
Lemma y_clip_bounds_span ylo yhi pev nm : 0 <= pev -> ylo <= yhi ->
  let b := y_bounds ylo yhi pev nm in Qmin ylo nm <= fst b /\ fst b <= snd b /\ snd b <= Qmax yhi nm.
Proof.
  intros Hp L. unfold y_bounds. destruct (frac_range pev Hp) as [F0 F1]. set (f := frac pev) in *.
  pose proof (Q.le_min_l ylo nm) as M1. pose proof (Q.le_min_r ylo nm) as M2.
  pose proof (Q.le_max_l yhi nm) as X1. pose proof (Q.le_max_r yhi nm) as X2.
  destruct (naive f); cbn [fst snd]; repeat split; nra.
Qed.
