(* The gaussian centre is a weighted median of the calibration scores and minimises their weighted absolute
   deviation; the variance inflation lies between 1/n and 1. *)
From Coq Require Import ZArith QArith Qabs Qminmax List Bool Sorting.Sorted Sorting.Permutation Lia Lqa.
From Elex Require Import Base.Loss Model.Compare Model.WMedian.
Import ListNotations.
Open Scope Q_scope.

Definition vle (a b : obs) : Prop := ov a <= ov b.

(* ---- sums ---- *)
Lemma wsum_app f (a b : list obs) : wsum f (a ++ b) == wsum f a + wsum f b.
Proof. induction a as [|o r IH]; simpl; [lra | rewrite IH; lra]. Qed.

Lemma nonneg_cons o l : nonneg (o :: l) -> 0 <= ow o /\ nonneg l.
Proof. intros N. split; [apply N; left; reflexivity | intros x Hx; apply N; right; exact Hx]. Qed.

Lemma wsum_bounds f l : nonneg l -> 0 <= wsum f l /\ wsum f l <= total l.
Proof.
  unfold total. induction l as [|o r IH]; simpl; intros N; [lra|].
  apply nonneg_cons in N. destruct N as [W N]. specialize (IH N). destruct (f o); lra.
Qed.

Lemma wsum_none f l : (forall o, In o l -> f o = false) -> wsum f l == 0.
Proof.
  induction l as [|o r IH]; simpl; intros H; [lra|].
  rewrite (H o (or_introl eq_refl)). rewrite IH; [lra | intros x Hx; apply H; right; exact Hx].
Qed.

Lemma wsum_perm f l l' : Permutation l l' -> wsum f l == wsum f l'.
Proof. induction 1; simpl; lra. Qed.

Lemma nonneg_perm l l' : Permutation l l' -> nonneg l -> nonneg l'.
Proof. intros P N o Ho. apply N. apply Permutation_sym in P. exact (Permutation_in _ P Ho). Qed.

(* ---- the sort ---- *)
Lemma oinsert_perm o l : Permutation (o :: l) (oinsert o l).
Proof.
  induction l as [|p r IH]; simpl; [apply Permutation_refl|].
  destruct (Qle_bool (ov o) (ov p)); [apply Permutation_refl|].
  eapply perm_trans; [apply perm_swap | apply perm_skip; exact IH].
Qed.
Lemma osort_perm l : Permutation l (osort l).
Proof.
  induction l as [|o r IH]; simpl; [apply perm_nil|].
  eapply perm_trans; [apply perm_skip; exact IH | apply oinsert_perm].
Qed.

Lemma oinsert_sorted o l : StronglySorted vle l -> StronglySorted vle (oinsert o l).
Proof.
  induction l as [|p r IH]; simpl; intros S.
  - constructor; [constructor | constructor].
  - destruct (Qle_bool (ov o) (ov p)) eqn:E.
    + apply Qle_bool_iff in E. constructor; [exact S|].
      constructor; [exact E|]. inversion S as [|? ? S' F]; subst.
      eapply Forall_impl; [|exact F]. intros x Hx. unfold vle in *. lra.
    + assert (G : ov p <= ov o).
      { destruct (Qlt_le_dec (ov p) (ov o)) as [L|L]; [lra|]. apply Qle_bool_iff in L. congruence. }
      inversion S as [|? ? S' F]; subst. constructor; [apply IH; exact S'|].
      apply (Permutation_Forall (oinsert_perm o r)). constructor; [exact G | exact F].
Qed.
Lemma osort_sorted l : StronglySorted vle (osort l).
Proof. induction l as [|o r IH]; simpl; [constructor | apply oinsert_sorted; exact IH]. Qed.

(* ---- the scan ---- *)
Definition wmed (l : list obs) (m : Q) : Prop := 2 * below l m <= total l /\ 2 * above l m <= total l.

Lemma below_none l m : (forall o, In o l -> m <= ov o) -> below l m == 0.
Proof.
  intros H. apply wsum_none. intros o Ho. specialize (H o Ho). apply Qle_bool_iff in H. rewrite H. reflexivity.
Qed.
Lemma above_none l m : (forall o, In o l -> ov o <= m) -> above l m == 0.
Proof.
  intros H. apply wsum_none. intros o Ho. specialize (H o Ho). apply Qle_bool_iff in H. rewrite H. reflexivity.
Qed.

Lemma cls_exact_cases T c :
  (cls_exact T c = Lt /\ 2 * c < T) \/ (cls_exact T c = Eq /\ 2 * c == T) \/ (cls_exact T c = Gt /\ T < 2 * c).
Proof.
  unfold cls_exact. destruct (2 * c ?= T) eqn:E.
  - right; left. split; [reflexivity | apply Qeq_alt; exact E].
  - left. split; [reflexivity | apply Qlt_alt; exact E].
  - right; right. split; [reflexivity | apply Qgt_alt in E; exact E].
Qed.

(* invariant of the scan over s = pre ++ suf *)
Lemma scan_spec T : forall suf pre prev acc,
  nonneg (pre ++ suf) -> total (pre ++ suf) == T -> 0 < T ->
  acc == total pre -> 2 * acc <= T ->
  (forall a b, In a pre -> In b suf -> ov a <= ov b) ->
  StronglySorted vle suf ->
  (match prev with
   | None => pre = []
   | Some (p, k) => (forall a, In a pre -> ov a <= p) /\ (forall b, In b suf -> p <= ov b) /\ (k = Eq <-> 2 * acc == T)
   end) ->
  exists m, wm_scan (cls_exact T) prev suf acc = Some m /\ wmed (pre ++ suf) m.
Proof.
  induction suf as [|o r IH]; intros pre prev acc N HT Tpos Hacc Hhalf Hsep Hs Hprev.
  - exfalso. rewrite app_nil_r in HT. lra.
  - cbn [wm_scan].
    assert (Npre : nonneg pre) by (intros x Hx; apply N; apply in_or_app; left; exact Hx).
    assert (Nsuf : nonneg (o :: r)) by (intros x Hx; apply N; apply in_or_app; right; exact Hx).
    destruct (nonneg_cons _ _ Nsuf) as [Wo Nr].
    assert (Tsplit : T == total pre + (ow o + total r)).
    { rewrite <- HT. unfold total. rewrite wsum_app. simpl. lra. }
    inversion Hs as [|? ? Hs' Fo]; subst.
    assert (Ho_r : forall b, In b r -> ov o <= ov b) by (intros b Hb; rewrite Forall_forall in Fo; exact (Fo b Hb)).
    destruct (cls_exact_cases T (acc + ow o)) as [[E C] | [[E C] | [E C]]]; rewrite E.
    + (* still below half: continue *)
      replace (pre ++ o :: r) with ((pre ++ [o]) ++ r) in * by (rewrite <- app_assoc; reflexivity).
      apply (IH (pre ++ [o]) (Some (ov o, Lt)) (acc + ow o)); try assumption.
      * unfold total. rewrite wsum_app. simpl. unfold total in Hacc. lra.
      * lra.
      * intros a b Ha Hb. apply in_app_or in Ha. destruct Ha as [Ha | [Ha | []]].
        -- apply Hsep; [exact Ha | right; exact Hb].
        -- subst a. apply Ho_r; exact Hb.
      * split; [|split].
        -- intros a Ha. apply in_app_or in Ha. destruct Ha as [Ha | [Ha | []]]; [apply Hsep; [exact Ha | left; reflexivity] | subst a; lra].
        -- exact Ho_r.
        -- split; [discriminate | intros Q; lra].
    + (* exactly half: continue, remember it *)
      replace (pre ++ o :: r) with ((pre ++ [o]) ++ r) in * by (rewrite <- app_assoc; reflexivity).
      apply (IH (pre ++ [o]) (Some (ov o, Eq)) (acc + ow o)); try assumption.
      * unfold total. rewrite wsum_app. simpl. unfold total in Hacc. lra.
      * lra.
      * intros a b Ha Hb. apply in_app_or in Ha. destruct Ha as [Ha | [Ha | []]].
        -- apply Hsep; [exact Ha | right; exact Hb].
        -- subst a. apply Ho_r; exact Hb.
      * split; [|split].
        -- intros a Ha. apply in_app_or in Ha. destruct Ha as [Ha | [Ha | []]]; [apply Hsep; [exact Ha | left; reflexivity] | subst a; lra].
        -- exact Ho_r.
        -- split; [intros _; exact C | reflexivity].
    + (* over half: stop *)
      assert (Bsuf : forall m, m <= ov o -> below (o :: r) m == 0).
      { intros m Hm. apply below_none. intros b [Hb | Hb]; [subst b; exact Hm | specialize (Ho_r b Hb); lra]. }
      assert (Apre : forall m, (forall a, In a pre -> ov a <= m) -> above pre m == 0) by (intros m Hm; apply above_none; exact Hm).
      assert (Bpre : forall m, 0 <= below pre m /\ below pre m <= total pre) by (intros m; apply wsum_bounds; exact Npre).
      assert (Ar : forall m, 0 <= above r m /\ above r m <= total r) by (intros m; apply wsum_bounds; exact Nr).
      assert (Asuf : forall m, 0 <= above (o :: r) m /\ above (o :: r) m <= total (o :: r)) by (intros m; apply wsum_bounds; exact Nsuf).
      assert (Std : exists m, Some (ov o) = Some m /\ wmed (pre ++ o :: r) m).
      { exists (ov o). split; [reflexivity|]. unfold wmed, below, above. rewrite !wsum_app. fold (below pre (ov o)) (below (o :: r) (ov o)) (above pre (ov o)).
        rewrite (Bsuf (ov o)) by lra.
        rewrite (Apre (ov o)) by (intros a Ha; apply Hsep; [exact Ha | left; reflexivity]).
        cbn [wsum]. replace (Qle_bool (ov o) (ov o)) with true by (symmetry; apply Qle_bool_iff; lra). cbn [negb].
        fold (above r (ov o)). destruct (Bpre (ov o)), (Ar (ov o)). unfold total in *. rewrite wsum_app. cbn [wsum]. lra. }
      destruct prev as [[p k]|]; [|exact Std].
      destruct k; try exact Std.
      destruct Hprev as [Hp1 [Hp2 Hk]]. assert (HE : 2 * acc == T) by (apply Hk; reflexivity).
      exists ((p + ov o) * (1 # 2)). split; [reflexivity|].
      assert (Po : p <= ov o) by (apply Hp2; left; reflexivity).
      unfold wmed, below, above. rewrite !wsum_app.
      fold (below pre ((p + ov o) * (1 # 2))) (below (o :: r) ((p + ov o) * (1 # 2))) (above pre ((p + ov o) * (1 # 2))) (above (o :: r) ((p + ov o) * (1 # 2))).
      rewrite (Bsuf ((p + ov o) * (1 # 2))) by lra.
      rewrite (Apre ((p + ov o) * (1 # 2))) by (intros a Ha; specialize (Hp1 a Ha); lra).
      destruct (Bpre ((p + ov o) * (1 # 2))), (Asuf ((p + ov o) * (1 # 2))).
      unfold total in *. rewrite wsum_app. cbn [wsum] in *. lra.
Qed.

Lemma weighted_median_wmed l : nonneg l -> 0 < total l -> exists m, weighted_median l = Some m /\ wmed l m.
Proof.
  intros N Tpos. unfold weighted_median, wm_with.
  pose proof (osort_perm l) as P.
  destruct (scan_spec (total l) (osort l) [] None 0) as [m [Hm [W1 W2]]]; simpl; try reflexivity; try lra.
  - exact (nonneg_perm _ _ P N).
  - unfold total. symmetry. apply wsum_perm. exact P.
  - intros a b [].
  - apply osort_sorted.
  - exists m. split; [exact Hm|]. unfold wmed, below, above, total in *.
    rewrite (wsum_perm _ _ _ P), (wsum_perm (fun _ => true) _ _ P). rewrite (wsum_perm (fun o => negb (Qle_bool (ov o) m)) _ _ P). split; assumption.
Qed.

(* the centre minimises the weighted absolute deviation of the calibration scores *)
Lemma weighted_median_minimises l : nonneg l -> 0 < total l ->
  exists m, weighted_median l = Some m /\ forall b, loss l m <= loss l b.
Proof.
  intros N Tpos. destruct (weighted_median_wmed l N Tpos) as [m [Hm [W1 W2]]].
  exists m. split; [exact Hm|]. apply half_conditions_optimal; assumption.
Qed.

(* ---- inflation ---- *)
Lemma qsum_nonneg l : (forall x, In x l -> 0 <= x) -> 0 <= qsum l.
Proof. induction l as [|x r IH]; simpl; intros H; [lra|]. assert (0 <= x) by (apply H; left; reflexivity). assert (0 <= qsum r) by (apply IH; intros y Hy; apply H; right; exact Hy). lra. Qed.

Lemma ssq_le_sq l : (forall x, In x l -> 0 <= x) -> ssq l <= qsum l * qsum l.
Proof.
  unfold ssq. induction l as [|x r IH]; simpl; intros H; [lra|].
  assert (X : 0 <= x) by (apply H; left; reflexivity).
  assert (R : forall y, In y r -> 0 <= y) by (intros y Hy; apply H; right; exact Hy).
  specialize (IH R). pose proof (qsum_nonneg r R). nra.
Qed.

Lemma sq_nn (a : Q) : 0 <= a * a.
Proof. destruct (Qlt_le_dec a 0); nra. Qed.

Lemma sq_le_n_ssq l : qsum l * qsum l <= inject_Z (Z.of_nat (List.length l)) * ssq l.
Proof.
  unfold ssq. induction l as [|x r IH]; [simpl; lra|].
  cbn [List.length map qsum]. rewrite Nat2Z.inj_succ. unfold Z.succ. rewrite inject_Z_plus.
  set (n := inject_Z (Z.of_nat (List.length r))) in *. set (s := qsum r) in *. set (q := qsum (map (fun x => x * x) r)) in *.
  assert (Hn : 0 <= n) by (unfold n; change 0 with (inject_Z 0); rewrite <- Zle_Qle; lia).
  assert (Hq : 0 <= q).
  { unfold q. clear. induction r as [|y t IHt]; simpl; [lra|]. pose proof (sq_nn y). lra. }
  change (inject_Z 1) with 1.
  (* (x + s)^2 <= (n + 1) (x^2 + q), from s^2 <= n q and 2 x s <= n x^2 + q *)
  assert (K : 2 * x * s <= n * (x * x) + q).
  { destruct (Qlt_le_dec 0 n) as [Pn | Zn].
    - pose proof (sq_nn (s - n * x)) as S1.
      assert (S2 : n * (2 * x * s) <= n * (n * (x * x) + q)) by nra.
      apply Qmult_lt_0_le_reg_r with (z := n); [exact Pn|]. lra.
    - assert (n == 0) by lra. assert (s * s <= 0) by nra. assert (s == 0) by nra. nra. }
  nra.
Qed.

Lemma inflate_le_one l : (forall x, In x l -> 0 <= x) -> 0 < qsum l -> inflate l <= 1.
Proof.
  intros H P. unfold inflate. apply Qle_shift_div_r; [nra|]. pose proof (ssq_le_sq l H). lra.
Qed.
Lemma inflate_nonneg l : 0 < qsum l -> 0 <= inflate l.
Proof.
  intros P. unfold inflate. apply Qle_shift_div_l; [nra|].
  assert (0 <= ssq l). { unfold ssq. clear. induction l as [|y t IHt]; simpl; [lra|]. pose proof (sq_nn y). lra. } lra.
Qed.
