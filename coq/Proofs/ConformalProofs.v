From Coq Require Import ZArith QArith Qabs Qminmax Qround List Bool Lia Lqa.
From Elex Require Import Base.QRound Base.Loss Model.Compare Model.Ranks Model.Floor Model.Conformal Proofs.CallsProofs.
Import ListNotations.
Open Scope Q_scope.

(* the truth lies inside the widened interval iff its conformity score is at most the correction *)
Theorem inside_iff (l u r c : Q) : (l - c <= r /\ r <= u + c) <-> score l u r <= c.
Proof.
  unfold score. rewrite Q.max_lub_iff. split; intros [A B]; split; lra.
Qed.

Lemma qmin_list_spec (l : list Q) (m : Q) : qmin_list l = Some m -> In m l /\ forall x, In x l -> m <= x.
Proof.
  revert m. induction l as [|x r IH]; intros m H; simpl in H; [discriminate|].
  destruct (qmin_list r) as [m'|] eqn:E.
  - inversion H; subst. destruct (IH m' eq_refl) as [I L].
    destruct (Q.min_spec x m') as [[Lt Eq] | [Le Eq]].
    + split.
      * left. unfold Qmin, GenericMinMax.gmin in *. destruct (x ?= m') eqn:C; auto.
        apply Qgt_alt in C. lra.
      * intros y [-> | Iy]; [rewrite Eq; lra | specialize (L y Iy); rewrite Eq; lra].
    + split.
      * unfold Qmin, GenericMinMax.gmin. destruct (x ?= m') eqn:C; [left; reflexivity | left; reflexivity | right; exact I].
      * intros y [-> | Iy]; [rewrite Eq; lra | specialize (L y Iy); rewrite Eq; lra].
  - inversion H; subst. destruct r; [|simpl in E; destruct (qmin_list r); discriminate].
    split; [left; reflexivity | intros y [-> | []]; lra].
Qed.

Lemma qmin_list_some (l : list Q) : l <> [] -> exists m, qmin_list l = Some m.
Proof. destruct l as [|x r]; [congruence|]. intros _. simpl. destruct (qmin_list r); eexists; reflexivity. Qed.

Lemma wsum_ext (f g : obs -> bool) (l : list obs) : (forall o, In o l -> f o = g o) -> wsum f l = wsum g l.
Proof.
  induction l as [|o r IH]; simpl; intros H; [reflexivity|].
  rewrite (H o (or_introl eq_refl)), IH; [reflexivity | intros x I; apply H; right; exact I].
Qed.

Lemma wsum_nonneg (f : obs -> bool) (l : list obs) : nonneg l -> 0 <= wsum f l.
Proof.
  induction l as [|o r IH]; simpl; intros N; [lra|].
  assert (0 <= ow o) by (apply N; left; reflexivity). assert (0 <= wsum f r) by (apply IH; intros x I; apply N; right; exact I).
  destruct (f o); lra.
Qed.

Lemma wsum_le_total (f : obs -> bool) (l : list obs) : nonneg l -> wsum f l <= total l.
Proof.
  unfold total. induction l as [|o r IH]; simpl; intros N; [lra|].
  assert (0 <= ow o) by (apply N; left; reflexivity). assert (wsum f r <= wsum (fun _ => true) r) by (apply IH; intros x I; apply N; right; exact I).
  destruct (f o); lra.
Qed.

(* largest score of the list that is <= c *)
Fixpoint maxle (c : Q) (l : list obs) : option Q :=
  match l with
  | [] => None
  | o :: r => if Qle_bool (ov o) c
              then match maxle c r with Some m => Some (Qmax (ov o) m) | None => Some (ov o) end
              else maxle c r
  end.

Lemma maxle_spec (c : Q) (l : list obs) :
  match maxle c l with
  | Some m => m <= c /\ (exists o, In o l /\ ov o == m) /\ forall o, In o l -> ov o <= c -> ov o <= m
  | None => forall o, In o l -> ~ ov o <= c
  end.
Proof.
  induction l as [|o r IH]; simpl; [intros o []|].
  destruct (Qle_bool (ov o) c) eqn:E.
  - apply Qle_bool_iff in E. destruct (maxle c r) as [m|].
    + destruct IH as [Hm [[o' [Io' Eo']] Hall]]. split; [apply Q.max_lub; assumption|]. split.
      * destruct (Q.max_spec (ov o) m) as [[Lt Eq] | [Le Eq]].
        -- exists o'. split; [right; exact Io' | rewrite Eq; exact Eo'].
        -- exists o. split; [left; reflexivity | rewrite Eq; reflexivity].
      * intros x [-> | Ix] Hx; [apply Q.le_max_l|]. specialize (Hall x Ix Hx). pose proof (Q.le_max_r (ov o) m). lra.
    + split; [exact E|]. split; [exists o; split; [left; reflexivity | reflexivity]|].
      intros x [-> | Ix] Hx; [lra | exfalso; apply (IH x Ix Hx)].
  - destruct (maxle c r) as [m|].
    + destruct IH as [Hm [[o' [Io' Eo']] Hall]]. split; [exact Hm|]. split; [exists o'; auto|].
      intros x [-> | Ix] Hx; [apply Qle_bool_iff in Hx; congruence | apply Hall; assumption].
    + intros x [-> | Ix] Hx; [apply Qle_bool_iff in Hx; congruence | apply (IH x Ix Hx)].
Qed.

Lemma Qle_bool_comp_r (x a b : Q) : a == b -> Qle_bool x a = Qle_bool x b.
Proof.
  intros E. destruct (Qle_bool x a) eqn:A, (Qle_bool x b) eqn:B; try reflexivity.
  - apply Qle_bool_iff in A. assert (x <= b) by lra. apply Qle_bool_iff in H. congruence.
  - apply Qle_bool_iff in B. assert (x <= a) by lra. apply Qle_bool_iff in H. congruence.
Qed.

(* the selected correction covers more than q of the baseline weight, and nothing smaller does *)
Theorem weighted_share (l : sw) (q c : Q) : nonneg l -> 0 <= q ->
  pop_correction l q = Some c ->
  q * total l < wle c l /\ forall c', q * total l < wle c' l -> c <= c'.
Proof.
  intros N Q0 H. unfold pop_correction in H. apply qmin_list_spec in H. destruct H as [I Lmin].
  apply in_map_iff in I. destruct I as [o [Eo Io]]. apply filter_In in Io. destruct Io as [Io Qo].
  subst c. unfold qualifies in Qo. apply Qltb_true in Qo. split; [exact Qo|].
  intros c' Hc'. pose proof (maxle_spec c' l) as MS. destruct (maxle c' l) as [m|].
  - destruct MS as [Hm [[o' [Io' Eo']] Hall]].
    assert (Wm : wle (ov o') l == wle c' l).
    { unfold wle. rewrite (wsum_ext (fun x => Qle_bool (ov x) (ov o')) (fun x => Qle_bool (ov x) c') l); [reflexivity|].
      intros x Ix. destruct (Qle_bool (ov x) c') eqn:B.
      - apply Qle_bool_iff in B. apply Qle_bool_iff. specialize (Hall x Ix B). lra.
      - destruct (Qle_bool (ov x) (ov o')) eqn:A; [|reflexivity]. apply Qle_bool_iff in A.
        assert (ov x <= c') by lra. apply Qle_bool_iff in H. congruence. }
    assert (Q' : qualifies l q (ov o') = true) by (unfold qualifies; apply Qltb_true; lra).
    assert (In (ov o') (map ov (filter (fun x => qualifies l q (ov x)) l))).
    { apply in_map. apply filter_In. auto. }
    specialize (Lmin _ H). lra.
  - exfalso. assert (Z0 : wle c' l == 0).
    { unfold wle. rewrite (wsum_ext _ (fun _ => false) l).
      - clear. induction l; simpl; [reflexivity | rewrite IHl; lra].
      - intros x Ix. destruct (Qle_bool (ov x) c') eqn:B; [|reflexivity]. apply Qle_bool_iff in B. exfalso. apply (MS x Ix B). }
    assert (0 <= total l) by (apply wsum_nonneg; exact N). nra.
Qed.

(* a correction exists whenever the quantile level is below 1 and some calibration weight is positive *)
Theorem correction_exists (l : sw) (q : Q) : nonneg l -> 0 < total l -> q < 1 -> exists c, pop_correction l q = Some c.
Proof.
  intros N T Q1. unfold pop_correction. apply qmin_list_some.
  (* the largest score qualifies *)
  assert (NE : l <> []) by (intros ->; unfold total in T; simpl in T; lra).
  assert (X : exists o, In o l /\ forall x, In x l -> ov x <= ov o).
  { clear - NE. induction l as [|a r IH]; [congruence|]. destruct r as [|b r'].
    - exists a. split; [left; reflexivity | intros x [-> | []]; lra].
    - destruct (IH ltac:(discriminate)) as [o [Io Ho]]. destruct (Qlt_le_dec (ov o) (ov a)) as [L | L].
      + exists a. split; [left; reflexivity|]. intros x [-> | Ix]; [lra | specialize (Ho x Ix); lra].
      + exists o. split; [right; exact Io|]. intros x [-> | Ix]; [lra | apply Ho; exact Ix]. }
  destruct X as [o [Io Ho]].
  assert (Wt : wle (ov o) l == total l).
  { unfold wle, total. rewrite (wsum_ext _ (fun _ => true) l); [reflexivity|]. intros x Ix. apply Qle_bool_iff. apply Ho. exact Ix. }
  intros C. assert (I : In (ov o) (map ov (filter (fun x => qualifies l q (ov x)) l))).
  { apply in_map. apply filter_In. split; [exact Io|]. unfold qualifies. apply Qltb_true. nra. }
  rewrite C in I. destruct I.
Qed.

(* robust option: at least the weighted correction and at least the unweighted quantile *)
Theorem robust_ge_both (l : sw) (q c p : Q) :
  correction true l q = Some c -> pop_correction l q = Some p -> p <= c /\ quantile_lin (qsort (map ov l)) q <= c.
Proof.
  unfold correction. intros H P. rewrite P in H. inversion H; subst. split; [apply Q.le_max_r | apply Q.le_max_l].
Qed.
Theorem nonrobust_is_pop (l : sw) (q : Q) : correction false l q = pop_correction l q.
Proof. unfold correction. destruct (pop_correction l q); reflexivity. Qed.

(* flooring at the partial count and rounding never push an integer truth outside the reported interval *)
Theorem vote_space (raw_lo raw_hi c : Q) (last res t : Z) :
  (0 < last)%Z -> (res <= t)%Z ->
  raw_lo - c <= (inject_Z t - inject_Z last) / inject_Z last -> (inject_Z t - inject_Z last) / inject_Z last <= raw_hi + c ->
  (np_lower raw_lo c last res <= t)%Z /\ (t <= np_upper raw_hi c last res)%Z.
Proof.
  intros Hl Hr Lo Hi.
  assert (Lp : 0 < inject_Z last) by (change 0 with (inject_Z 0); rewrite <- Zlt_Qlt; exact Hl).
  assert (E : (inject_Z t - inject_Z last) / inject_Z last * inject_Z last == inject_Z t - inject_Z last) by (field; lra).
  set (x := (inject_Z t - inject_Z last) / inject_Z last) in *.
  assert (Rr : inject_Z res <= inject_Z t) by (rewrite <- Zle_Qle; exact Hr).
  unfold np_lower, np_upper, unit_lower, unit_upper, unit_value. split.
  - apply rhe_le_int. apply Q.max_lub; [nra | exact Rr].
  - apply rhe_ge_int. assert (inject_Z t <= (raw_hi + c) * inject_Z last + inject_Z last) by nra.
    pose proof (Q.le_max_l ((raw_hi + c) * inject_Z last + inject_Z last) (inject_Z res)). lra.
Qed.

(* ---------------- C05 ---------------- *)
Lemma strict_wmedian_spec (l : list obs) (m : Q) : strict_wmedian l m = true <-> (2 * below l m < total l /\ 2 * above l m < total l).
Proof. unfold strict_wmedian. rewrite andb_true_iff, !Qltb_true. reflexivity. Qed.

(* whatever solver is used: if it returns a minimiser of the weighted absolute loss of the intercept-only fit and the
   weighted median is unique, the coefficient IS the weighted median and every nonreporting unit gets baseline * (1 + m),
   floored at its partial count and rounded *)
Theorem uniform_swing (l : list obs) (m b : Q) (last res : Z) :
  nonneg l -> strict_wmedian l m = true -> (forall x, loss l b <= loss l x) ->
  b == m /\ unit_value b last res = swing_pred m last res
  /\ swing_pred m last res = rhe (Qmax ((1 + m) * inject_Z last) (inject_Z res)).
Proof.
  intros N S Hb. apply strict_wmedian_spec in S. destruct S as [S1 S2].
  assert (E : b == m) by (apply (strict_half_unique l m N S1 S2); apply Hb).
  split; [exact E|]. split.
  - unfold swing_pred, unit_value. apply rhe_comp. rewrite E. reflexivity.
  - unfold swing_pred, unit_value. apply rhe_comp.
    assert (X : m * inject_Z last + inject_Z last == (1 + m) * inject_Z last) by ring. rewrite X. reflexivity.
Qed.

Theorem wmedian_minimises (l : list obs) (m : Q) : nonneg l -> strict_wmedian l m = true -> forall x, loss l m <= loss l x.
Proof.
  intros N S. apply strict_wmedian_spec in S. destruct S. apply half_conditions_optimal; [exact N | lra | lra].
Qed.
