From Coq Require Import ZArith List Bool Sorting.Sorted Lia.
From Elex Require Import Model.Paging.
Import ListNotations.
Open Scope Z_scope.

Definition newer_first (a b : ver) : Prop := v_lm b <= v_lm a.
Definition sorted_desc (l : list ver) : Prop := StronglySorted newer_first l.

(* what the service guarantees for the listing of one key: every page but the last is truncated and non-empty,
   the last one is not truncated *)
Fixpoint pages_wf (pages : list page) : Prop :=
  match pages with
  | [] => False
  | [(vs, t)] => t = false
  | (vs, t) :: rest => t = true /\ vs <> [] /\ pages_wf rest
  end.

Lemma filter_idem {T} (f : T -> bool) l : filter f (filter f l) = filter f l.
Proof. induction l as [|x r IH]; simpl; [reflexivity|]. destruct (f x) eqn:E; simpl; [rewrite E, IH; reflexivity | exact IH]. Qed.

Lemma filter_comm {T} (f g : T -> bool) l : filter f (filter g l) = filter g (filter f l).
Proof.
  induction l as [|x r IH]; simpl; [reflexivity|].
  destruct (f x) eqn:F, (g x) eqn:G; simpl; rewrite ?F, ?G, IH; reflexivity.
Qed.

Lemma window_filter start stop l : filter (le_stop stop) (filter (ge_start start) l) = filter (in_window start stop) l.
Proof.
  induction l as [|x r IH]; simpl; [reflexivity|]. unfold in_window.
  destruct (ge_start start x); simpl; [destruct (le_stop stop x); rewrite IH; reflexivity | exact IH].
Qed.

Lemma filter_none {T} (f : T -> bool) l : (forall x, In x l -> f x = false) -> filter f l = [].
Proof.
  induction l as [|x r IH]; simpl; intros H; [reflexivity|]. rewrite (H x (or_introl eq_refl)). apply IH. intros y I. apply H. right. exact I.
Qed.

Lemma sorted_app_inv (a b : list ver) : sorted_desc (a ++ b) ->
  sorted_desc a /\ sorted_desc b /\ forall x y, In x a -> In y b -> v_lm y <= v_lm x.
Proof.
  induction a as [|h t IH]; simpl; intros H.
  - split; [constructor|]. split; [exact H|]. intros x y [].
  - inversion H as [|? ? Ht Hh]; subst. destruct (IH Ht) as [Sa [Sb Hab]]. split.
    + constructor; [exact Sa|]. rewrite Forall_forall in *. intros z Iz. apply Hh. apply in_app_iff. left. exact Iz.
    + split; [exact Sb|]. intros x y [-> | Ix] Iy.
      * rewrite Forall_forall in Hh. apply Hh. apply in_app_iff. right. exact Iy.
      * apply Hab; assumption.
Qed.

Lemma last_In (d : ver) (l : list ver) : l <> [] -> In (last l d) l.
Proof.
  induction l as [|x r IH]; [congruence|]. intros _. destruct r as [|y r']; [left; reflexivity|].
  right. apply IH. discriminate.
Qed.

(* main theorem: whatever the page size, the early stop is sound and the result is exactly the window *)
Theorem window (pages : list page) (start stop : option Z) :
  pages_wf pages -> sorted_desc (concat (map fst pages)) ->
  list_versions pages start stop = filter (in_window start stop) (concat (map fst pages)).
Proof.
  induction pages as [|[vs t] rest IH]; intros WF S; [destruct WF|].
  destruct rest as [|p2 rest'].
  - (* last page *)
    simpl in WF. subst t. cbn [list_versions map fst concat andb]. rewrite ?app_nil_r. apply window_filter.
  - destruct WF as [Tt [NE WF]]. subst t.
    remember (p2 :: rest') as R eqn:ER.
    change (concat (map fst ((vs, true) :: R))) with (vs ++ concat (map fst R)) in *.
    destruct (sorted_app_inv _ _ S) as [Sv [Sr Hvr]].
    cbn [list_versions]. rewrite andb_true_l.
    destruct (last_ok start vs) eqn:L.
    + rewrite (IH WF Sr). rewrite window_filter.
      rewrite !filter_app, filter_idem. reflexivity.
    + (* early stop: everything on later pages is older than the window start *)
      rewrite app_nil_r, window_filter, filter_app.
      assert (Z0 : filter (in_window start stop) (concat (map fst R)) = []).
      { apply filter_none. intros y Iy. unfold in_window.
        unfold last_ok in L. destruct vs as [|v0 vr]; [congruence|].
        set (lv := last (v0 :: vr) {| v_id := 0; v_lm := 0 |}) in *.
        assert (Il : In lv (v0 :: vr)) by (apply last_In; discriminate).
        pose proof (Hvr lv y Il Iy) as Le.
        unfold ge_start in *. destruct start as [s|]; [|discriminate].
        apply Z.leb_gt in L. assert (E : (s <=? v_lm y) = false) by (apply Z.leb_gt; lia). rewrite E. reflexivity. }
      rewrite Z0, app_nil_r. reflexivity.
Qed.

(* each version at most once *)
Lemma NoDup_ids_filter (f : ver -> bool) (l : list ver) : NoDup (map v_id l) -> NoDup (map v_id (filter f l)).
Proof.
  induction l as [|x r IH]; simpl; intros H; [constructor|]. inversion H as [|? ? Hx Hr]; subst.
  destruct (f x); simpl; [constructor|]; auto.
  intros C. apply Hx. apply in_map_iff in C. destruct C as [y [E Iy]]. apply filter_In in Iy. destruct Iy.
  apply in_map_iff. exists y. auto.
Qed.

Theorem once (pages : list page) (start stop : option Z) :
  pages_wf pages -> sorted_desc (concat (map fst pages)) -> NoDup (map v_id (concat (map fst pages))) ->
  NoDup (map v_id (list_versions pages start stop)).
Proof.
  intros WF S ND. rewrite (window pages start stop WF S). apply NoDup_ids_filter. exact ND.
Qed.

(* sampling: versions[::k] picks exactly the positions 0, k, 2k, ... *)
Lemma every_nth_aux_spec (k : nat) : (1 <= k)%nat -> forall l skip j, (skip < k)%nat ->
  nth_error (every_nth_aux k skip l) j = nth_error l (skip + j * k)%nat.
Proof.
  intros Hk. induction l as [|x r IH]; intros skip j Hs.
  - simpl. destruct (skip + j * k)%nat; destruct j; reflexivity.
  - destruct skip as [|s].
    + destruct j as [|j'].
      * reflexivity.
      * replace (0 + S j' * k)%nat with (S ((k - 1) + j' * k))%nat by lia.
        cbn [every_nth_aux nth_error]. apply IH. lia.
    + replace (S s + j * k)%nat with (S (s + j * k))%nat by lia.
      cbn [every_nth_aux nth_error]. apply IH. lia.
Qed.

Theorem every_nth_spec (k : nat) (l : list ver) (j : nat) : (1 <= k)%nat -> nth_error (every_nth k l) j = nth_error l (j * k)%nat.
Proof. intros Hk. unfold every_nth. rewrite every_nth_aux_spec by lia. reflexivity. Qed.

(* retrieval: nothing listed -> "no data"; otherwise the sampled versions minus the failed ones, each stamped with
   its own version's modification time (shifted to the requested timezone), as long as one download succeeds *)
Theorem get_none k fails tz : get [] k fails tz = NoData.
Proof. reflexivity. Qed.

Theorem get_rows (listed : list ver) k fails tz st :
  get listed k fails tz = Rows st ->
  st = map (fun v => (v_id v, v_lm v + tz)) (filter (fun v => negb (zmem (v_id v) fails)) (every_nth k listed)) /\ st <> [].
Proof.
  unfold get. destruct listed as [|v0 vr]; [discriminate|].
  destruct (filter _ (every_nth k (v0 :: vr))) as [|o os] eqn:F; [discriminate|]. intros H. inversion H; subst. split; [reflexivity | discriminate].
Qed.

Theorem get_some_success (listed : list ver) k fails tz :
  listed <> [] -> (exists v, In v (every_nth k listed) /\ zmem (v_id v) fails = false) -> exists st, get listed k fails tz = Rows st.
Proof.
  intros NE [v [I F]]. unfold get. destruct listed as [|v0 vr]; [congruence|].
  destruct (filter (fun v => negb (zmem (v_id v) fails)) (every_nth k (v0 :: vr))) as [|o os] eqn:E.
  - exfalso. assert (X : In v (filter (fun v => negb (zmem (v_id v) fails)) (every_nth k (v0 :: vr)))) by (apply filter_In; rewrite F; auto).
    rewrite E in X. destruct X.
  - eexists. reflexivity.
Qed.
