From Coq Require Import List String Bool Ascii Arith Lia.
From Elex Require Import Model.Persist.
Import ListNotations.
Open Scope string_scope.

Lemma repeat_pair_remote n e : In e (repeat_pair n) -> e = PutGaussConf \/ e = PutGaussBounds.
Proof. induction n as [|k IH]; simpl; [tauto|]. intros [H | [H | H]]; auto. Qed.

(* nothing requested -> nothing written anywhere *)
Theorem nothing (c : cfg) :
  c_results c = false -> c_data c = false -> c_config c = false -> c_conf c = false -> writes c = [].
Proof.
  intros R D C F. unfold writes, before_gate, after_gate, remote_results. rewrite R, D, C, F, andb_false_r. simpl.
  destruct (c_gate_ok c), (c_estimator c); reflexivity.
Qed.

Lemma in_writes (c : cfg) e : In e (writes c) <-> In e (before_gate c) \/ (c_gate_ok c = true /\ In e (after_gate c)).
Proof.
  unfold writes. rewrite in_app_iff. destruct (c_gate_ok c); simpl; intuition discriminate.
Qed.

Lemma live_in_before (c : cfg) : In PutLive (before_gate c) <-> remote_results c = true.
Proof.
  unfold before_gate. rewrite !in_app_iff.
  destruct (c_config c), (c_data c), (remote_results c); simpl; intuition discriminate.
Qed.

Lemma live_not_after (c : cfg) : ~ In PutLive (after_gate c).
Proof.
  unfold after_gate. rewrite in_app_iff. intros [H | H].
  - destruct (c_estimator c); try destruct H. destruct (c_conf c); [|destruct H].
    apply repeat_pair_remote in H. destruct H; discriminate.
  - destruct (remote_results c); [|destruct H]. apply in_map_iff in H. destruct H as [? [? ?]]. discriminate.
Qed.

Lemma table_not_before (c : cfg) t : ~ In (PutTable t) (before_gate c).
Proof.
  unfold before_gate. rewrite !in_app_iff.
  destruct (c_config c), (c_data c), (remote_results c); simpl; intuition discriminate.
Qed.

Lemma table_in_after (c : cfg) t : In (PutTable t) (after_gate c) <-> remote_results c = true /\ In t (c_tables c).
Proof.
  unfold after_gate. rewrite in_app_iff. split.
  - intros [H | H].
    + destruct (c_estimator c); try destruct H. destruct (c_conf c); [|destruct H].
      apply repeat_pair_remote in H. destruct H; discriminate.
    + destruct (remote_results c); [|destruct H]. apply in_map_iff in H. destruct H as [x [E I]]. inversion E; subst. auto.
  - intros [R I]. right. rewrite R. apply in_map. exact I.
Qed.

Lemma remote_results_iff (c : cfg) : remote_results c = true <-> c_results c = true /\ c_local c = false.
Proof. unfold remote_results. destruct (c_local c), (c_results c); simpl; intuition discriminate. Qed.

(* remote result writes happen iff "results" is requested and the environment is not local; one Put per returned table *)
Theorem results_iff (c : cfg) :
  (In PutLive (writes c) <-> c_results c = true /\ c_local c = false) /\
  (c_gate_ok c = true -> forall t, In (PutTable t) (writes c) <-> (c_results c = true /\ c_local c = false /\ In t (c_tables c))).
Proof.
  split.
  - rewrite in_writes, live_in_before, remote_results_iff. pose proof (live_not_after c). intuition.
  - intros G t. rewrite in_writes, table_in_after, remote_results_iff. pose proof (table_not_before c t). intuition.
Qed.

(* the live results are written before the minimum-units gate: a run that ends in the not-enough-units error has saved them *)
Theorem live_results_before_gate (c : cfg) :
  c_results c = true -> c_local c = false -> c_gate_ok c = false ->
  In PutLive (writes c) /\ In PutLiveCounties (writes c) /\ forall t, ~ In (PutTable t) (writes c).
Proof.
  intros R L G. unfold writes, before_gate, remote_results. rewrite R, L, G. simpl. rewrite app_nil_r.
  repeat split; try (rewrite !in_app_iff; simpl; auto 6).
  intros t H. rewrite !in_app_iff in H. destruct (c_config c), (c_data c); simpl in H;
    repeat match goal with H : _ \/ _ |- _ => destruct H | H : False |- _ => destruct H end; discriminate.
Qed.

Lemma conf_not_before (c : cfg) : ~ In PutGaussConf (before_gate c).
Proof.
  unfold before_gate. rewrite !in_app_iff.
  destruct (c_config c), (c_data c), (remote_results c); simpl; intuition discriminate.
Qed.

Lemma conf_in_pairs n : In PutGaussConf (repeat_pair n) <-> (0 < n)%nat.
Proof. destruct n; simpl; [split; [tauto | lia] | split; [lia | auto]]. Qed.

Lemma conf_in_after (c : cfg) : In PutGaussConf (after_gate c) <-> (c_estimator c = Gaussian /\ c_conf c = true /\ (0 < c_gauss_fits c)%nat).
Proof.
  unfold after_gate. rewrite in_app_iff. split.
  - intros [H | H].
    + destruct (c_estimator c); try destruct H. destruct (c_conf c); [|destruct H]. apply conf_in_pairs in H. auto.
    + destruct (remote_results c); [|destruct H]. apply in_map_iff in H. destruct H as [? [? ?]]. discriminate.
  - intros [E [F N]]. left. rewrite E, F. apply conf_in_pairs. exact N.
Qed.

(* conformalization data only when requested, only for the gaussian estimator, only after the gate *)
Theorem conformalization_iff (c : cfg) :
  In PutGaussConf (writes c) <-> (c_conf c = true /\ c_estimator c = Gaussian /\ c_gate_ok c = true /\ (0 < c_gauss_fits c)%nat).
Proof.
  rewrite in_writes, conf_in_after. pose proof (conf_not_before c). intuition.
Qed.

(* "data" and "config" only create local files *)
Theorem local_only (c : cfg) :
  c_results c = false -> c_conf c = false -> forall e, In e (writes c) -> is_remote e = false.
Proof.
  intros R F e H. unfold writes, before_gate, after_gate, remote_results in H. rewrite R, F, andb_false_r in H.
  rewrite !in_app_iff in H.
  destruct (c_config c), (c_data c), (c_gate_ok c), (c_estimator c); simpl in H;
    repeat match goal with H : _ \/ _ |- _ => destruct H | H : False |- _ => destruct H end; subst; reflexivity.
Qed.
