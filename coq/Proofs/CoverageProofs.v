(* The finite counting core of split conformal prediction (C04, probabilistic clause):
   among N = n+1 scores, at least floor(alpha*N)+1 >= ceil(alpha*N) of them are covered by the correction computed from the
   other n (equal baseline sizes, i.e. equal weights), ties included.  Under exchangeability of the test unit's score with
   the calibration scores the coverage probability is that count divided by N, hence >= alpha. *)
From Coq Require Import ZArith QArith Qabs Qminmax Qround List Bool Lia Lqa.
From Elex Require Import Base.QRound Base.Loss Model.Compare Model.Conformal Proofs.CallsProofs Proofs.ConformalProofs.
Import ListNotations.
Open Scope Q_scope.

Definition unit_w (l : list Q) : sw := map (fun x => (1, x)) l.

Fixpoint remove_one (v : Q) (l : list Q) : list Q :=
  match l with [] => [] | x :: r => if Qeq_bool x v then r else x :: remove_one v r end.

Definition cnt (f : Q -> bool) (l : list Q) : nat := List.length (filter f l).
Definition ltb (v x : Q) : bool := Qltb x v.   (* x < v *)
Definition leb (c x : Q) : bool := Qle_bool x c. (* x <= c *)

(* the level used by the code: alpha * (1 + 1/n) *)
Definition level (alpha : Q) (n : nat) : Q := alpha * (1 + 1 / inject_Z (Z.of_nat n)).

Definition covered (alpha : Q) (s : list Q) (v : Q) : bool :=
  let others := remove_one v s in
  match pop_correction (unit_w others) (level alpha (List.length others)) with
  | Some c => Qle_bool v c
  | None => false
  end.

Lemma wsum_unit (f : Q -> bool) (l : list Q) : wsum (fun o => f (ov o)) (unit_w l) == inject_Z (Z.of_nat (cnt f l)).
Proof.
  unfold cnt. induction l as [|x r IH]; [reflexivity|].
  cbn [unit_w map wsum filter]. change (ov (1, x)) with x. change (ow (1, x)) with 1.
  fold (unit_w r). destruct (f x).
  - cbn [List.length]. rewrite Nat2Z.inj_succ, <- Z.add_1_l, inject_Z_plus, IH. reflexivity.
  - rewrite IH. lra.
Qed.

Lemma total_unit (l : list Q) : total (unit_w l) == inject_Z (Z.of_nat (List.length l)).
Proof.
  unfold total. rewrite (wsum_unit (fun _ => true) l). unfold cnt.
  assert (E : filter (fun _ : Q => true) l = l) by (induction l; simpl; congruence). rewrite E. reflexivity.
Qed.

Lemma nonneg_unit (l : list Q) : nonneg (unit_w l).
Proof. intros o I. apply in_map_iff in I. destruct I as [x [<- _]]. unfold ow. simpl. lra. Qed.

Lemma remove_one_length (v : Q) (l : list Q) : In v l -> S (List.length (remove_one v l)) = List.length l.
Proof.
  induction l as [|x r IH]; simpl; [tauto|]. intros [-> | I].
  - rewrite Qeq_bool_refl. reflexivity.
  - destruct (Qeq_bool x v); [reflexivity|]. simpl. rewrite IH; auto.
Qed.

(* elements of the others that are <= c < v are elements of s that are < v *)
Lemma cnt_le_others (v c : Q) (l : list Q) : c < v -> (cnt (leb c) (remove_one v l) <= cnt (ltb v) l)%nat.
Proof.
  intros H. unfold cnt. induction l as [|x r IH]; simpl; [lia|].
  destruct (Qeq_bool x v) eqn:E.
  - (* x == v is removed; it is not < v *)
    apply Qeq_bool_iff in E. assert (L : ltb v x = false) by (unfold ltb; apply Qltb_false; lra). rewrite L.
    clear IH. induction r as [|y r' IHr]; simpl; [lia|].
    unfold leb at 1, ltb at 1. destruct (Qle_bool y c) eqn:A.
    + apply Qle_bool_iff in A. assert (B : Qltb y v = true) by (apply Qltb_true; lra). rewrite B. simpl. lia.
    + destruct (Qltb y v); simpl; lia.
  - simpl. unfold leb at 1, ltb at 1. destruct (Qle_bool x c) eqn:A.
    + apply Qle_bool_iff in A. assert (B : Qltb x v = true) by (apply Qltb_true; lra). rewrite B. simpl. lia.
    + destruct (Qltb x v); simpl; lia.
Qed.

Section Counting.
  Variable alpha : Q.
  Variable s : list Q.
  Let N := List.length s.
  Hypothesis A0 : 0 < alpha.
  Hypothesis N2 : (2 <= N)%nat.
  (* the quantile level alpha*(1+1/n) is below 1 for n = N - 1: what C14 guarantees *)
  Hypothesis AN : alpha * inject_Z (Z.of_nat N) < inject_Z (Z.of_nat (N - 1)).

  Let m : nat := Z.to_nat (Qfloor (alpha * inject_Z (Z.of_nat N)) + 1).

  Lemma level_times_n (n : nat) : (1 <= n)%nat -> level alpha n * inject_Z (Z.of_nat n) == alpha * inject_Z (Z.of_nat (S n)).
  Proof.
    intros H. unfold level. rewrite Nat2Z.inj_succ, <- Z.add_1_r, inject_Z_plus.
    assert (0 < inject_Z (Z.of_nat n)). { change 0 with (inject_Z 0). rewrite <- Zlt_Qlt. lia. }
    field. lra.
  Qed.

  (* an uncovered score has more than alpha*N scores strictly below it *)
  Lemma uncovered_many_below (v : Q) : In v s -> covered alpha s v = false -> (m <= cnt (ltb v) s)%nat.
  Proof.
    intros I U. unfold covered in U.
    set (others := remove_one v s) in *.
    assert (Ln : S (List.length others) = N) by (apply remove_one_length; exact I).
    assert (L1 : (1 <= List.length others)%nat) by lia.
    pose proof (level_times_n (List.length others) L1) as LT. rewrite Ln in LT.
    assert (Tot : total (unit_w others) == inject_Z (Z.of_nat (List.length others))) by apply total_unit.
    assert (Q1 : level alpha (List.length others) < 1).
    { assert (P : 0 < inject_Z (Z.of_nat (List.length others))). { change 0 with (inject_Z 0). rewrite <- Zlt_Qlt. lia. }
      assert (E : (N - 1 = List.length others)%nat) by lia. pose proof AN as AN'. rewrite E in AN'.
      apply Qnot_le_lt. intros C. nra. }
    assert (Q0 : 0 <= level alpha (List.length others)).
    { unfold level. assert (0 < inject_Z (Z.of_nat (List.length others))). { change 0 with (inject_Z 0). rewrite <- Zlt_Qlt. lia. }
      assert (0 < 1 / inject_Z (Z.of_nat (List.length others))) by (apply Qlt_shift_div_l; lra). nra. }
    assert (Tp : 0 < total (unit_w others)).
    { rewrite Tot. change 0 with (inject_Z 0). rewrite <- Zlt_Qlt. lia. }
    destruct (correction_exists (unit_w others) (level alpha (List.length others)) (nonneg_unit others) Tp Q1) as [c Hc].
    rewrite Hc in U.
    assert (Lt : c < v). { apply Qnot_le_lt. intros C. apply Qle_bool_iff in C. congruence. }
    destruct (weighted_share (unit_w others) _ c (nonneg_unit others) Q0 Hc) as [Sh _].
    unfold wle in Sh. rewrite (wsum_unit (leb c) others) in Sh. rewrite Tot, LT in Sh.
    pose proof (cnt_le_others v c s Lt) as Le. fold others in Le.
    (* alpha*N < cnt_le <= cnt_lt, so floor(alpha N) + 1 <= cnt_lt *)
    assert (Hz : (Qfloor (alpha * inject_Z (Z.of_nat N)) + 1 <= Z.of_nat (cnt (leb c) others))%Z).
    { pose proof (floor_lo (alpha * inject_Z (Z.of_nat N))) as FL.
      assert (inject_Z (Qfloor (alpha * inject_Z (Z.of_nat N))) < inject_Z (Z.of_nat (cnt (leb c) others))) by lra.
      apply Zlt_of_Qlt in H. lia. }
    assert (F0 : (0 <= Qfloor (alpha * inject_Z (Z.of_nat N)))%Z).
    { apply floor_ge_int. assert (0 <= inject_Z (Z.of_nat N)) by (change 0 with (inject_Z 0); rewrite <- Zle_Qle; lia). change (inject_Z 0) with 0. nra. }
    unfold m. lia.
  Qed.

  (* at most N - k scores have k or more scores strictly below them *)
  Lemma few_have_many_below (k : nat) : (cnt (fun v => Nat.leb k (cnt (ltb v) s)) s + k <= N)%nat \/ cnt (fun v => Nat.leb k (cnt (ltb v) s)) s = 0%nat.
  Proof.
    set (P := fun v => Nat.leb k (cnt (ltb v) s)).
    destruct (filter P s) as [|u0 rest] eqn:F; [right; unfold cnt; rewrite F; reflexivity | left].
    (* minimum of the qualifying scores *)
    assert (Hmin : exists u, In u (filter P s) /\ forall x, In x (filter P s) -> u <= x).
    { rewrite F. clear. revert u0. induction rest as [|a r IH]; intros u0.
      - exists u0. split; [left; reflexivity | intros x [-> | []]; lra].
      - destruct (IH a) as [u [Iu Hu]]. destruct (Qlt_le_dec u0 u) as [L | L].
        + exists u0. split; [left; reflexivity|]. intros x [-> | Ix]; [lra | specialize (Hu x Ix); lra].
        + exists u. split; [right; exact Iu|]. intros x [-> | Ix]; [lra | apply Hu; exact Ix]. }
    destruct Hmin as [u [Iu Hu]]. apply filter_In in Iu. destruct Iu as [Ius Pu]. unfold P in Pu. apply Nat.leb_le in Pu.
    (* qualifying scores are >= u; scores < u do not qualify: the two filters are disjoint parts of s *)
    assert (Sub : forall l, (List.length (filter P l) <= List.length (filter (fun x => negb (ltb u x)) l))%nat \/ True) by (intros; right; exact I).
    assert (Part : forall l, (List.length (filter (ltb u) l) + List.length (filter (fun x => negb (ltb u x)) l) = List.length l)%nat).
    { induction l as [|x r IH]; simpl; [reflexivity|]. destruct (ltb u x); simpl; lia. }
    assert (Le : forall l, (forall x, In x l -> In x s) -> (List.length (filter P l) <= List.length (filter (fun x => negb (ltb u x)) l))%nat).
    { induction l as [|x r IH]; intros Hs; simpl; [lia|].
      assert (IH' := IH (fun y Iy => Hs y (or_intror Iy))).
      destruct (P x) eqn:Px; simpl.
      - assert (In x (filter P s)) by (apply filter_In; split; [apply Hs; left; reflexivity | exact Px]).
        specialize (Hu x H). assert (L : ltb u x = false) by (unfold ltb; apply Qltb_false; exact Hu). rewrite L. simpl. lia.
      - destruct (ltb u x); simpl; lia. }
    specialize (Le s (fun x Ix => Ix)). specialize (Part s). unfold cnt in *. unfold N in *. lia.
  Qed.

  (* main counting theorem *)
  Theorem coverage_count : (m <= cnt (covered alpha s) s)%nat.
  Proof.
    (* N = covered + uncovered; uncovered all have >= m below *)
    assert (Split : forall l, (List.length (filter (covered alpha s) l) + List.length (filter (fun v => negb (covered alpha s v)) l) = List.length l)%nat).
    { induction l as [|x r IH]; simpl; [reflexivity|]. destruct (covered alpha s x); simpl; lia. }
    assert (Unc : forall l, (forall x, In x l -> In x s) ->
                  (List.length (filter (fun v => negb (covered alpha s v)) l) <= List.length (filter (fun v => Nat.leb m (cnt (ltb v) s)) l))%nat).
    { induction l as [|x r IH]; intros Hs; simpl; [lia|].
      assert (IH' := IH (fun y Iy => Hs y (or_intror Iy))).
      destruct (covered alpha s x) eqn:C; simpl.
      - destruct (Nat.leb m (cnt (ltb x) s)); simpl; lia.
      - pose proof (uncovered_many_below x (Hs x (or_introl eq_refl)) C) as H. apply Nat.leb_le in H. rewrite H. simpl. lia. }
    specialize (Unc s (fun x Ix => Ix)). specialize (Split s).
    destruct (few_have_many_below m) as [H | H]; unfold cnt in *; [unfold N in *; lia|].
    (* no score has m below: everything is covered; and m <= N because alpha*N < N - 1 *)
    assert (MN : (m <= N)%nat).
    { unfold m. pose proof (floor_lo (alpha * inject_Z (Z.of_nat N))) as FL.
      assert (inject_Z (Qfloor (alpha * inject_Z (Z.of_nat N))) < inject_Z (Z.of_nat (N - 1))) by lra.
      apply Zlt_of_Qlt in H0. lia. }
    unfold N in *. lia.
  Qed.

  (* floor(alpha N) + 1 >= ceil(alpha N) >= alpha N *)
  Theorem coverage_fraction : alpha * inject_Z (Z.of_nat N) <= inject_Z (Z.of_nat (cnt (covered alpha s) s)).
  Proof.
    pose proof coverage_count as H. pose proof (floor_hi (alpha * inject_Z (Z.of_nat N))) as FH.
    assert (F0 : (0 <= Qfloor (alpha * inject_Z (Z.of_nat N)))%Z).
    { apply floor_ge_int. assert (0 <= inject_Z (Z.of_nat N)) by (change 0 with (inject_Z 0); rewrite <- Zle_Qle; lia). change (inject_Z 0) with 0. nra. }
    assert (Hz : (Qfloor (alpha * inject_Z (Z.of_nat N)) + 1 <= Z.of_nat (cnt (covered alpha s) s))%Z) by (unfold m in H; lia).
    rewrite Zle_Qle in Hz. rewrite inject_Z_plus in Hz. change (inject_Z 1) with 1 in Hz. lra.
  Qed.
End Counting.
