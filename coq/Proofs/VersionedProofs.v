From Coq Require Import ZArith QArith Qround Qabs Qminmax List Bool Lia Lqa.
From Elex Require Import Base.QRound Model.Compare Model.Versioned.
Import ListNotations.
Open Scope Q_scope.

Lemma last_le_spec (p : Q) (l : list obs) : forall acc o,
  last_le p l acc = Some o -> acc = Some o \/ (In o l /\ o_pv o <= p).
Proof.
  induction l as [|x r IH]; intros acc o H; simpl in H; [left; exact H|].
  destruct (Qle_bool (o_pv x) p) eqn:E.
  - apply IH in H. destruct H as [H | [I L]].
    + inversion H; subst. right. split; [left; reflexivity | apply Qle_bool_iff; exact E].
    + right. split; [right; exact I | exact L].
  - left. exact H.
Qed.

Lemma div_bounds (n p : Q) : 0 < p -> - p <= n -> n <= p -> -1 <= n / p /\ n / p <= 1.
Proof.
  intros Hp L U. split.
  - apply Qle_shift_div_l; [exact Hp | lra].
  - apply Qle_shift_div_r; [exact Hp | lra].
Qed.

Definition bounded1 (x : Q) : Prop := -1 <= x /\ x <= 1.

(* for every whole percent p >= 1 the imputed margin is a convex combination of the last observed margin and the margin
   of the next batch, hence within [-1, 1] *)
Theorem est_convex (nm0 : Q) (rows : list obs) (p : Q) :
  1 <= p ->
  (forall o, In o rows -> 0 <= o_pv o /\ bounded1 (o_nm o) /\ bounded1 (o_b o)) -> bounded1 nm0 ->
  bounded1 (est nm0 rows p) /\
  (match last_le p rows None with
   | None => est nm0 rows p == nm0
   | Some o => exists lam, 0 <= lam /\ lam <= 1 /\ lam * p == o_pv o /\ est nm0 rows p == lam * o_nm o + (1 - lam) * o_b o
   end).
Proof.
  intros Hp Hrows Hnm0. unfold est.
  assert (Pz : Qeq_bool p 0 = false).
  { destruct (Qeq_bool p 0) eqn:E; [|reflexivity]. apply Qeq_bool_iff in E. lra. }
  rewrite Pz. assert (Pp : 0 < p) by lra. assert (Pn : ~ p == 0) by lra.
  destruct (last_le p rows None) as [o|] eqn:L.
  - apply last_le_spec in L. destruct L as [L | [I Le]]; [discriminate|].
    destruct (Hrows o I) as [H0 [[N1 N2] [B1 B2]]].
    set (ov := o_pv o) in *. set (nm := o_nm o) in *. set (b := o_b o) in *.
    split.
    + apply div_bounds; [exact Pp | nra | nra].
    + exists (ov / p). repeat split.
      * apply Qle_shift_div_l; [exact Pp | lra].
      * apply Qle_shift_div_r; [exact Pp | lra].
      * field. exact Pn.
      * field. exact Pn.
  - destruct Hnm0 as [N1 N2]. split.
    + apply div_bounds; [exact Pp | nra | nra].
    + field. exact Pn.
Qed.

(* before the first observation the imputed margin is the first observed margin *)
Theorem est_before_first (nm0 : Q) (o : obs) (rows : list obs) (p : Q) :
  1 <= p -> p < o_pv o -> est nm0 (o :: rows) p == nm0.
Proof.
  intros Hp Hlt. unfold est.
  assert (Pz : Qeq_bool p 0 = false).
  { destruct (Qeq_bool p 0) eqn:E; [|reflexivity]. apply Qeq_bool_iff in E. lra. }
  rewrite Pz. simpl.
  assert (E : Qle_bool (o_pv o) p = false).
  { destruct (Qle_bool (o_pv o) p) eqn:E; [|reflexivity]. apply Qle_bool_iff in E. lra. }
  rewrite E. field. lra.
Qed.

Theorem est_zero (nm0 : Q) (rows : list obs) : est nm0 rows 0 == 0.
Proof. unfold est. simpl. reflexivity. Qed.

(* a regular history: one row per whole percent from 0 to floor(latest re-scaled percent), correction = final margin - estimate *)
Theorem table_regular (l : list version) rows nml maxp :
  analyse l = inr (rows, nml, maxp) ->
  fst (table l) = None /\
  map (fun r : out_row => fst (fst r)) (snd (table l)) = map Z.of_nat (seq 0 (Z.to_nat (maxp + 1))) /\
  forall r, In r (snd (table l)) -> exists e, snd (fst r) = Some e /\ snd r = Some (nml - e).
Proof.
  intros H. unfold table. rewrite H. simpl. split; [reflexivity|]. split.
  - rewrite map_map. simpl. reflexivity.
  - intros r I. apply in_map_iff in I. destruct I as [k [<- _]]. simpl. eexists. split; reflexivity.
Qed.

(* an irregular history yields only missing values, with the error type recorded *)
Theorem table_irregular (l : list version) (e : err) :
  analyse l = inl e ->
  fst (table l) = Some e /\ List.length (snd (table l)) = 101%nat /\
  forall r, In r (snd (table l)) -> snd (fst r) = None /\ snd r = None.
Proof.
  intros H. unfold table. rewrite H. cbn [fst snd]. split; [reflexivity|]. split.
  - rewrite map_length, seq_length. reflexivity.
  - intros r I. apply in_map_iff in I. destruct I as [k [<- _]]. simpl. auto.
Qed.

Theorem irregular_iff (l : list version) :
  (exists e, analyse l = inl e) <->
  (nondecreasing (map (perc_corr (v_turnout (lastv dummy l))) l) = false \/ existsb bm_bad (batches l) = true).
Proof.
  unfold analyse. split.
  - intros [e H]. destruct (nondecreasing _); simpl in H; [|left; reflexivity].
    destruct (existsb bm_bad (batches l)); [right; reflexivity | discriminate].
  - intros [H | H].
    + rewrite H. simpl. eexists. reflexivity.
    + destruct (nondecreasing _); simpl; [rewrite H|]; eexists; reflexivity.
Qed.

(* a missing correction is never averaged into an extrapolation *)
Theorem missing_never_averaged (maxd d : Q) (c1 c2 : list (Q * option Q)) :
  extrapolated maxd (c1 ++ (d, None) :: c2) = extrapolated maxd (c1 ++ c2).
Proof.
  unfold extrapolated. f_equal. rewrite !map_app. simpl.
  induction (map (usable maxd) c1) as [|[x|] r IH]; simpl; [reflexivity | rewrite IH; reflexivity | exact IH].
Qed.

Theorem far_never_averaged (maxd d : Q) (x : option Q) (c1 c2 : list (Q * option Q)) :
  maxd <= d -> extrapolated maxd (c1 ++ (d, x) :: c2) = extrapolated maxd (c1 ++ c2).
Proof.
  intros H. unfold extrapolated. f_equal. rewrite !map_app. simpl.
  assert (U : usable maxd (d, x) = None).
  { unfold usable. simpl. destruct x; [|reflexivity]. unfold Qltb. apply Qle_bool_iff in H. rewrite H. reflexivity. }
  rewrite U.
  induction (map (usable maxd) c1) as [|[y|] r IH]; simpl; [reflexivity | rewrite IH; reflexivity | exact IH].
Qed.
