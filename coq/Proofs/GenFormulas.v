(* Obligations tying the generated formulas (Gen/Formulas.v, re-derived from /repo/src at every run) to the
   hand-written model.  They are proved for ALL arguments (field / setoid reasoning), so any change of a
   formula in the source that is not an algebraic identity breaks one of these lemmas. *)
From Coq Require Import ZArith QArith Qround Qminmax Lia Lqa.
From Elex Require Import Base.QRound Model.Split Gen.Formulas.
Open Scope Q_scope.

Lemma Qmax_inject (a b : Z) : Qmax (inject_Z a) (inject_Z b) == inject_Z (Z.max a b).
Proof.
  destruct (Z.max_spec a b) as [[H E] | [H E]]; rewrite E.
  - apply Q.max_r. rewrite <- Zle_Qle. lia.
  - apply Q.max_l. rewrite <- Zle_Qle. lia.
Qed.

Lemma gen_np_conf_frac_ok (n : Z) (a : Q) :
  a < 1 -> 0 < inject_Z n -> gen_np_conf_frac (inject_Z n) a == np_conf_frac n a.
Proof.
  intros Ha Hn. unfold gen_np_conf_frac, np_conf_frac. apply round2_comp.
  match goal with
  | |- Qmin ?x _ == _ =>
      assert (E : x == 1 - (1 + a) / (inject_Z n * (1 - a))) by (field; split; lra); rewrite E
  end.
  reflexivity.
Qed.

Lemma gen_np_minimum_ok (a : Q) : a < 1 -> gen_np_minimum a == inject_Z (np_minimum a).
Proof.
  intros Ha. unfold gen_np_minimum, np_minimum.
  match goal with
  | |- inject_Z (Qceiling ?x) == _ =>
      assert (E : x == (1 + a) / (1 - a)) by (field; lra); rewrite (Qceiling_comp _ _ E)
  end.
  reflexivity.
Qed.

Lemma gen_np_correction_quantile_ok (a : Q) (c : Z) :
  gen_np_correction_quantile a (inject_Z c) == correction_quantile a c.
Proof. reflexivity. Qed.

Lemma gen_gauss_conf_frac_ok : gen_gauss_conf_frac == gauss_conf_frac.
Proof. reflexivity. Qed.

Lemma gen_gauss_minimum_ok (a : Q) : gen_gauss_minimum a == gauss_minimum.
Proof. reflexivity. Qed.

Lemma gen_train_rows_ok (n : Z) (f : Q) : gen_train_rows (inject_Z n) f == inject_Z (train_rows n f).
Proof. unfold gen_train_rows, train_rows. change 1 with (inject_Z 1) at 1. apply Qmax_inject. Qed.

(* C06: BootstrapElectionModel._get_quantiles *)
From Elex Require Import Model.Ranks.
Lemma gen_boot_quantiles_ok (a : Q) (B : Z) :
  fst (gen_boot_quantiles a (inject_Z B)) == lower_q a B /\ snd (gen_boot_quantiles a (inject_Z B)) == upper_q a B.
Proof.
  unfold gen_boot_quantiles, lower_q, upper_q, lower_rank, upper_rank. cbn [fst snd]. split.
  - match goal with |- inject_Z (Qfloor ?x) / _ == inject_Z (Qfloor ?y) / _ =>
      assert (E : x == y) by field; rewrite (Qfloor_comp _ _ E) end. reflexivity.
  - match goal with |- inject_Z (Qceiling ?x) / _ == inject_Z (Qceiling ?y) / _ =>
      assert (E : x == y) by field; rewrite (Qceiling_comp _ _ E) end. reflexivity.
Qed.
