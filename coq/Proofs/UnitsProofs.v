From Coq Require Import ZArith QArith List Bool String Permutation Lia.
From Elex Require Import Model.Compare Model.Units.
Import ListNotations.

Lemma smem_In s l : smem s l = true <-> In s l.
Proof.
  induction l as [|h r IH]; simpl; [split; [discriminate | tauto]|].
  rewrite orb_true_iff, IH, String.eqb_eq. split; intros [A | A]; auto.
Qed.

Lemma smem_false s l : smem s l = false <-> ~ In s l.
Proof. rewrite <- smem_In. destruct (smem s l); split; congruence. Qed.

Lemma filter_filter_and {T} (f g : T -> bool) (l : list T) : filter f (filter g l) = filter (fun x => g x && f x) l.
Proof.
  induction l as [|x r IH]; simpl; [reflexivity|]. destruct (g x); simpl; [destruct (f x); rewrite IH; reflexivity | exact IH].
Qed.

Section Keyed.
  Variables (A B : Type) (key : A -> string) (ek : B -> string).

  Definition findk (i : string) (l : list B) : option B := find (fun e => String.eqb (ek e) i) l.

  Lemma findk_app i l1 l2 : findk i (l1 ++ l2) = match findk i l1 with Some e => Some e | None => findk i l2 end.
  Proof. unfold findk. induction l1 as [|x r IH]; simpl; [reflexivity|]. destruct (String.eqb (ek x) i); [reflexivity | exact IH]. Qed.

  Lemma findk_none i l : ~ In i (map ek l) -> findk i l = None.
  Proof.
    unfold findk. induction l as [|x r IH]; simpl; [reflexivity|]. intros H.
    destruct (String.eqb (ek x) i) eqn:E.
    - apply String.eqb_eq in E. exfalso. apply H. left. exact E.
    - apply IH. intros I. apply H. right. exact I.
  Qed.

  Lemma findk_some_in i l e : findk i l = Some e -> In e l /\ ek e = i.
  Proof.
    unfold findk. intros H. apply find_some in H. destruct H as [I E]. apply String.eqb_eq in E. auto.
  Qed.

  Lemma findk_in_iff i l : In i (map ek l) <-> findk i l <> None.
  Proof.
    split.
    - intros H C. apply in_map_iff in H. destruct H as [e [E Ie]]. unfold findk in C.
      apply (find_none _ _ C) in Ie. simpl in Ie. rewrite E, String.eqb_refl in Ie. discriminate.
    - intros H. destruct (findk i l) as [e|] eqn:F; [|congruence].
      apply findk_some_in in F. destruct F as [Ie Ee]. apply in_map_iff. exists e. auto.
  Qed.

  Variable mk : A -> B.
  Hypothesis Hmk : forall x, ek (mk x) = key x.

  Lemma findk_mk_filter (f : A -> bool) (l : list A) (r : A) :
    NoDup (map key l) -> In r l ->
    findk (key r) (map mk (filter f l)) = if f r then Some (mk r) else None.
  Proof.
    intros ND I. induction l as [|x t IH]; [destruct I|].
    simpl in ND. inversion ND as [|? ? Hx NDt]; subst.
    destruct I as [-> | I].
    - simpl. destruct (f r) eqn:F; simpl.
      + unfold findk. simpl. rewrite Hmk, String.eqb_refl. reflexivity.
      + apply findk_none. intros C. apply in_map_iff in C. destruct C as [b [Eb Ib]].
        apply in_map_iff in Ib. destruct Ib as [y [<- Iy]]. apply filter_In in Iy. destruct Iy as [Iy _].
        rewrite Hmk in Eb. apply Hx. apply in_map_iff. exists y. auto.
    - assert (N : key x <> key r).
      { intros E. apply Hx. rewrite E. apply in_map. exact I. }
      simpl. destruct (f x); simpl.
      + unfold findk. simpl. rewrite Hmk. apply String.eqb_neq in N. rewrite N. apply (IH NDt I).
      + apply (IH NDt I).
  Qed.
End Keyed.
Arguments findk {B}. Arguments findk_app {B}. Arguments findk_none {B}. Arguments findk_some_in {B}. Arguments findk_mk_filter {A B}. Arguments findk_in_iff {B}.

(* drop_duplicates(keep first): the surviving entry of an id is the first one in the concatenation *)
Lemma findk_dedup (i : string) (l : list tagged) : forall seen,
  findk fst i (dedup_first seen l) = if smem i seen then None else findk fst i l.
Proof.
  unfold findk. induction l as [|[j c] r IH]; intros seen; simpl.
  - destruct (smem i seen); reflexivity.
  - destruct (smem j seen) eqn:S.
    + rewrite IH. destruct (String.eqb j i) eqn:E; [|reflexivity].
      apply String.eqb_eq in E. subst j. rewrite S. reflexivity.
    + simpl. destruct (String.eqb j i) eqn:E.
      * apply String.eqb_eq in E. subst j. rewrite S. reflexivity.
      * rewrite IH. simpl. rewrite String.eqb_sym, E. reflexivity.
Qed.

Lemma dedup_ids_NoDup (l : list tagged) : forall seen,
  NoDup (ids_of (dedup_first seen l)) /\ forall i, In i (ids_of (dedup_first seen l)) <-> (In i (ids_of l) /\ ~ In i seen).
Proof.
  induction l as [|[j c] r IH]; intros seen; simpl.
  - split; [constructor | intros i; tauto].
  - destruct (smem j seen) eqn:S.
    + destruct (IH seen) as [ND M]. split; [exact ND|]. intros i. rewrite M. apply smem_In in S. split.
      * intros [I N]. auto.
      * intros [[E | I] N]; [subst; contradiction | auto].
    + destruct (IH (j :: seen)) as [ND M]. apply smem_false in S. split.
      * simpl. constructor; [|exact ND]. rewrite M. simpl. tauto.
      * intros i. simpl. rewrite M. simpl. split.
        -- intros [E | [I N]]; [subst; auto | split; [auto | tauto]].
        -- intros [[E | I] N]; [auto|]. destruct (string_dec j i) as [E | NE]; [auto | right; split; [auto | tauto]].
Qed.

(* ---------------- the decision table refines the procedural pipeline ---------------- *)

Section Refine.
  Variable p : params.
  Variable data : list drow.
  Variable feed : list frow.
  Hypothesis ND : NoDup (map d_id data).

  Lemma tag_key c x : fst (tag c x) = d_id x.
  Proof. reflexivity. Qed.

  Lemma nm_lookup (r : drow) : In r data ->
    findk fst (d_id r) (non_modeled p data) =
      if blk p r then Some (d_id r, Blocklisted)
      else if zero_b r then Some (d_id r, ZeroBaseline)
      else if rep0 p r && strange p r then Some (d_id r, StrangeTF)
      else if rep0 p r && d_flag_t r then Some (d_id r, StrangeTFModeled)
      else if rep0 p r && d_flag_m r && p_margin p then Some (d_id r, StrangeMarginModeled)
      else None.
  Proof.
    intros I. unfold non_modeled. rewrite findk_dedup. simpl. unfold non_modeled_concat.
    rewrite !findk_app.
    rewrite !(findk_mk_filter d_id fst _ (tag_key _) _ data r ND I).
    unfold tag.
    destruct (blk p r); [reflexivity|]. destruct (zero_b r); [reflexivity|].
    destruct (rep0 p r && strange p r); [reflexivity|]. destruct (rep0 p r && d_flag_t r); [reflexivity|].
    destruct (rep0 p r && d_flag_m r && p_margin p); reflexivity.
  Qed.

  Definition is_nm (r : drow) : bool :=
    blk p r || zero_b r || (rep0 p r && strange p r) || (rep0 p r && d_flag_t r) || (rep0 p r && d_flag_m r && p_margin p).

  Lemma nm_ids (r : drow) : In r data -> (In (d_id r) (ids_of (non_modeled p data)) <-> is_nm r = true).
  Proof.
    intros I. unfold ids_of. rewrite (findk_in_iff fst), (nm_lookup r I). unfold is_nm.
    destruct (blk p r), (zero_b r), (rep0 p r && strange p r), (rep0 p r && d_flag_t r), (rep0 p r && d_flag_m r && p_margin p);
      simpl; split; congruence.
  Qed.

  Lemma unexpected_ids_disjoint (i : string) : In i (ids_of (unexpected data feed)) -> ~ In i (map d_id data).
  Proof.
    unfold unexpected, not_in_ids. intros H. destruct (dedup_ids_NoDup (map (fun f => (f_id f, Unexpected)) (filter (fun f => negb (smem (f_id f) (map d_id data))) feed)) []) as [_ M].
    apply M in H. destruct H as [H _]. unfold ids_of in H. rewrite map_map in H. simpl in H.
    apply in_map_iff in H. destruct H as [f [<- If]]. apply filter_In in If. destruct If as [_ N].
    apply negb_true_iff in N. apply smem_false in N. exact N.
  Qed.

  Lemma not_unexpected (r : drow) : In r data -> smem (d_id r) (ids_of (unexpected data feed)) = false.
  Proof.
    intros I. apply smem_false. intros C. apply (unexpected_ids_disjoint _ C). apply in_map. exact I.
  Qed.

  Definition entry := (string * category * bool)%type.
  Definition ekey (e : entry) : string := fst (fst e).

  Lemma classify_spec (r : drow) :
    classify p r = if is_nm r then
                     (if blk p r then Blocklisted else if zero_b r then ZeroBaseline else if rep0 p r && strange p r then StrangeTF
                      else if rep0 p r && d_flag_t r then StrangeTFModeled else StrangeMarginModeled, false)
                   else (Expected, rep0 p r).
  Proof.
    unfold classify, is_nm.
    destruct (blk p r); [reflexivity|]. destruct (zero_b r); [reflexivity|].
    destruct (rep0 p r && strange p r); [reflexivity|]. destruct (rep0 p r && d_flag_t r); [reflexivity|].
    destruct (rep0 p r && d_flag_m r && p_margin p); reflexivity.
  Qed.

  (* main refinement: every joined unit appears in the unit table with the category / reporting flag of the decision table *)
  Theorem refines (r : drow) : In r data ->
    lookup_unit (d_id r) (unit_table p data feed) = Some (classify p r).
  Proof.
    intros I.
    assert (LU : forall t, lookup_unit (d_id r) t = match findk ekey (d_id r) t with Some e => Some (snd (fst e), snd e) | None => None end)
      by (intros t; reflexivity).
    rewrite LU. unfold unit_table.
    rewrite !findk_app.
    (* reporting part *)
    assert (RU : reporting_units p data feed = filter (fun x => rep0 p x && negb (is_nm x)) data).
    { unfold reporting_units, minus_ids. rewrite !filter_filter_and. apply filter_ext_in. intros x Ix.
      rewrite (not_unexpected x Ix).
      destruct (rep0 p x); simpl; [|reflexivity].
      destruct (smem (d_id x) (ids_of (non_modeled p data))) eqn:S; simpl.
      - apply smem_In in S. apply (nm_ids x Ix) in S. rewrite S. reflexivity.
      - destruct (is_nm x) eqn:N; [|reflexivity]. apply (nm_ids x Ix) in N. apply smem_In in N. congruence. }
    assert (NU : nonreporting_units p data feed = filter (fun x => negb (rep0 p x) && negb (is_nm x)) data).
    { unfold nonreporting_units, minus_ids. rewrite !filter_filter_and. apply filter_ext_in. intros x Ix.
      rewrite (not_unexpected x Ix).
      destruct (rep0 p x); simpl; [reflexivity|].
      destruct (smem (d_id x) (ids_of (non_modeled p data))) eqn:S; simpl.
      - apply smem_In in S. apply (nm_ids x Ix) in S. rewrite S. reflexivity.
      - destruct (is_nm x) eqn:N; [|reflexivity]. apply (nm_ids x Ix) in N. apply smem_In in N. congruence. }
    rewrite RU, NU.
    rewrite (findk_mk_filter d_id ekey (fun x => (d_id x, Expected, true)) (fun _ => eq_refl) _ data r ND I).
    rewrite (findk_mk_filter d_id ekey (fun x => (d_id x, Expected, false)) (fun _ => eq_refl) _ data r ND I).
    rewrite classify_spec.
    destruct (is_nm r) eqn:N; simpl.
    - rewrite !andb_false_r.
      (* not in the unexpected part, found in the non-modelled part *)
      unfold all_unexpected. rewrite map_app, findk_app.
      assert (U : findk ekey (d_id r) (map (fun t : tagged => (fst t, snd t, false)) (unexpected data feed)) = None).
      { apply findk_none. rewrite map_map. simpl. intros C. apply (unexpected_ids_disjoint (d_id r)); [exact C | apply in_map; exact I]. }
      unfold tagged in *. rewrite U.
      assert (F : forall l : list (string * category), findk ekey (d_id r) (map (fun t : string * category => (fst t, snd t, false)) l) =
                            match findk fst (d_id r) l with Some t => Some (fst t, snd t, false) | None => None end).
      { intros l. unfold findk, ekey. induction l as [|t l IH]; simpl; [reflexivity|]. destruct (String.eqb (fst t) (d_id r)); [reflexivity | exact IH]. }
      rewrite F, (nm_lookup r I). unfold is_nm in N.
      destruct (blk p r); [reflexivity|]. destruct (zero_b r); [reflexivity|].
      destruct (rep0 p r && strange p r); [reflexivity|]. destruct (rep0 p r && d_flag_t r); [reflexivity|].
      destruct (rep0 p r && d_flag_m r && p_margin p); [reflexivity | discriminate].
    - rewrite !andb_true_r. destruct (rep0 p r); reflexivity.
  Qed.
End Refine.

(* ---------------- consequences ---------------- *)
Open Scope Q_scope.

Lemma Qle_bool_false x y : Qle_bool x y = false <-> y < x.
Proof.
  split.
  - intros H. apply Qnot_le_lt. intros C. apply Qle_bool_iff in C. congruence.
  - intros H. destruct (Qle_bool x y) eqn:E; [|reflexivity]. apply Qle_bool_iff in E. exfalso. apply (Qlt_not_le _ _ H E).
Qed.

(* a unit is used to fit the model iff ... (the documented eligibility rule, strict turnout-factor limits) *)
Theorem fit_iff (p : params) (r : drow) :
  used_for_fit p r = true <->
  (p_thr p <= d_pev r /\ blk p r = false /\ ~ d_w r == 0 /\ p_lo p < tf r /\ tf r < p_hi p
   /\ d_flag_t r = false /\ (d_flag_m r && p_margin p = false)).
Proof.
  unfold used_for_fit, classify, strange, zero_b, rep0.
  destruct (blk p r); simpl.
  { split; [discriminate | intros [_ [C _]]; discriminate]. }
  destruct (Qeq_bool (d_w r) 0) eqn:Z; simpl.
  { apply Qeq_bool_iff in Z. split; [discriminate | intros [_ [_ [C _]]]; contradiction]. }
  assert (NZ : ~ d_w r == 0) by (intros C; apply Qeq_bool_iff in C; congruence).
  destruct (Qle_bool (p_thr p) (d_pev r)) eqn:R; simpl.
  2:{ split; [discriminate | intros [C _]; apply Qle_bool_iff in C; congruence]. }
  apply Qle_bool_iff in R.
  destruct (Qle_bool (tf r) (p_lo p)) eqn:L; simpl.
  { apply Qle_bool_iff in L. split; [discriminate | intros [_ [_ [_ [C _]]]]; exfalso; apply (Qlt_not_le _ _ C L)]. }
  destruct (Qle_bool (p_hi p) (tf r)) eqn:H; simpl.
  { apply Qle_bool_iff in H. split; [discriminate | intros [_ [_ [_ [_ [C _]]]]]; exfalso; apply (Qlt_not_le _ _ C H)]. }
  apply Qle_bool_false in L. apply Qle_bool_false in H.
  destruct (d_flag_t r); simpl.
  { split; [discriminate | intros [_ [_ [_ [_ [_ [C _]]]]]]; discriminate]. }
  destruct (d_flag_m r && p_margin p); simpl.
  { split; [discriminate | intros [_ [_ [_ [_ [_ [_ C]]]]]]; discriminate]. }
  split; [intros _; repeat split; auto | reflexivity].
Qed.

(* a baseline unit below the threshold that is neither blocklisted nor zero-baseline is predicted *)
Theorem predicted (p : params) (r : drow) :
  d_pev r < p_thr p -> blk p r = false -> ~ d_w r == 0 -> classify p r = (Expected, false).
Proof.
  intros Hp Hb Hz. unfold classify, rep0, zero_b. rewrite Hb.
  assert (Z : Qeq_bool (d_w r) 0 = false).
  { destruct (Qeq_bool (d_w r) 0) eqn:E; [|reflexivity]. apply Qeq_bool_iff in E. contradiction. }
  rewrite Z. apply Qle_bool_false in Hp. rewrite Hp. reflexivity.
Qed.

(* derived quantity: turnout factor is the quotient, and 0 (not NaN / inf) when the baseline weight is 0 *)
Theorem tf_def (r : drow) : (~ d_w r == 0 -> tf r * d_w r == d_rw r) /\ (d_w r == 0 -> tf r == 0).
Proof.
  unfold tf, safe_div. split; intros H.
  - destruct (Qeq_bool (d_w r) 0) eqn:E; [apply Qeq_bool_iff in E; contradiction|]. field. exact H.
  - apply Qeq_bool_iff in H. rewrite H. reflexivity.
Qed.

Close Scope Q_scope.

(* ---------------- every unit exactly once ---------------- *)
Lemma NoDup_app_intro {T} (a b : list T) : NoDup a -> NoDup b -> (forall x, In x a -> In x b -> False) -> NoDup (a ++ b).
Proof.
  intros Ha Hb D. induction Ha as [|x a Hx Ha IH]; simpl; [exact Hb|].
  constructor.
  - rewrite in_app_iff. intros [I | I]; [contradiction | apply (D x); [left; reflexivity | exact I]].
  - apply IH. intros y Iy. apply D. right. exact Iy.
Qed.

Lemma NoDup_map_filter {T} (k : T -> string) (f : T -> bool) (l : list T) : NoDup (map k l) -> NoDup (map k (filter f l)).
Proof.
  induction l as [|x r IH]; simpl; intros H; [constructor|]. inversion H as [|? ? Hx Hr]; subst.
  destruct (f x); simpl; [constructor|]; auto.
  intros C. apply Hx. apply in_map_iff in C. destruct C as [y [E Iy]]. apply filter_In in Iy. destruct Iy.
  apply in_map_iff. exists y. auto.
Qed.

Lemma key_inj {T} (k : T -> string) (l : list T) x y : NoDup (map k l) -> In x l -> In y l -> k x = k y -> x = y.
Proof.
  induction l as [|z r IH]; simpl; intros ND Ix Iy E; [destruct Ix|].
  inversion ND as [|? ? Hz Hr]; subst.
  destruct Ix as [-> | Ix], Iy as [-> | Iy]; auto.
  - exfalso. apply Hz. rewrite E. apply in_map. exact Iy.
  - exfalso. apply Hz. rewrite <- E. apply in_map. exact Ix.
Qed.

Section Partition.
  Variable p : params.
  Variable data : list drow.
  Variable feed : list frow.
  Hypothesis ND : NoDup (map d_id data).

  Let t := unit_table p data feed.

  Lemma table_ids :
    map (ekey) t = map d_id (reporting_units p data feed) ++ map d_id (nonreporting_units p data feed)
                   ++ ids_of (unexpected data feed) ++ ids_of (non_modeled p data).
  Proof.
    unfold t, unit_table, all_unexpected, ids_of. rewrite !map_app, !map_map. reflexivity.
  Qed.

  (* every joined unit and every unexpected feed unit appears; nothing else does *)
  Theorem table_members (i : string) :
    In i (map ekey t) <-> In i (map d_id data) \/ In i (ids_of (unexpected data feed)).
  Proof.
    split.
    - rewrite table_ids, !in_app_iff. intros [H | [H | [H | H]]].
      + left. unfold reporting_units, minus_ids in H. apply in_map_iff in H. destruct H as [r [<- Ir]].
        repeat (apply filter_In in Ir; destruct Ir as [Ir _]). apply in_map. exact Ir.
      + left. unfold nonreporting_units, minus_ids in H. apply in_map_iff in H. destruct H as [r [<- Ir]].
        repeat (apply filter_In in Ir; destruct Ir as [Ir _]). apply in_map. exact Ir.
      + right. exact H.
      + left. unfold non_modeled in H. destruct (dedup_ids_NoDup (non_modeled_concat p data) []) as [_ M].
        apply M in H. destruct H as [H _]. unfold non_modeled_concat, ids_of in H.
        rewrite !map_app, !in_app_iff in H.
        assert (X : forall c f, In i (map fst (map (tag c) (filter f data))) -> In i (map d_id data)).
        { intros c f Hc. rewrite map_map in Hc. simpl in Hc. apply in_map_iff in Hc. destruct Hc as [r [<- Ir]].
          apply filter_In in Ir. destruct Ir. apply in_map. assumption. }
        destruct H as [H | [H | [H | [H | H]]]]; eapply X; exact H.
    - intros [H | H].
      + apply in_map_iff in H. destruct H as [r [<- Ir]].
        pose proof (refines p data feed ND r Ir) as R. unfold lookup_unit in R.
        destruct (find (fun e : string * category * bool => String.eqb (fst (fst e)) (d_id r)) (unit_table p data feed)) as [e|] eqn:F; [|discriminate].
        apply find_some in F. destruct F as [Ie Ee]. apply String.eqb_eq in Ee. apply in_map_iff. exists e. split; [exact Ee | exact Ie].
      + rewrite table_ids, !in_app_iff. auto.
  Qed.

  (* ... and each exactly once *)
  Theorem table_nodup : NoDup (map ekey t).
  Proof.
    rewrite table_ids.
    assert (RU : forall r, In r (reporting_units p data feed) -> In r data /\ rep0 p r = true /\ ~ In (d_id r) (ids_of (non_modeled p data))).
    { intros r H. unfold reporting_units, minus_ids in H. apply filter_In in H. destruct H as [H N]. apply filter_In in H. destruct H as [H _].
      apply filter_In in H. destruct H as [H R]. apply negb_true_iff in N. apply smem_false in N. auto. }
    assert (NU : forall r, In r (nonreporting_units p data feed) -> In r data /\ rep0 p r = false /\ ~ In (d_id r) (ids_of (non_modeled p data))).
    { intros r H. unfold nonreporting_units, minus_ids in H. apply filter_In in H. destruct H as [H N]. apply filter_In in H. destruct H as [H _].
      apply filter_In in H. destruct H as [H R]. apply negb_true_iff in N. apply negb_true_iff in R. apply smem_false in N. auto. }
    apply NoDup_app_intro.
    - unfold reporting_units, minus_ids. repeat apply NoDup_map_filter. exact ND.
    - apply NoDup_app_intro.
      + unfold nonreporting_units, minus_ids. repeat apply NoDup_map_filter. exact ND.
      + apply NoDup_app_intro.
        * unfold unexpected. apply dedup_ids_NoDup.
        * unfold non_modeled. apply dedup_ids_NoDup.
        * intros i Hu Hn. apply (unexpected_ids_disjoint data feed i Hu).
          assert (M : In i (map ekey t)) by (rewrite table_ids, !in_app_iff; auto).
          unfold non_modeled in Hn. destruct (dedup_ids_NoDup (non_modeled_concat p data) []) as [_ MM]. apply MM in Hn. destruct Hn as [Hn _].
          unfold non_modeled_concat, ids_of in Hn. rewrite !map_app, !in_app_iff in Hn.
          assert (X : forall c f, In i (map fst (map (tag c) (filter f data))) -> In i (map d_id data)).
          { intros c f Hc. rewrite map_map in Hc. simpl in Hc. apply in_map_iff in Hc. destruct Hc as [r [<- Ir]].
            apply filter_In in Ir. destruct Ir. apply in_map. assumption. }
          destruct Hn as [H | [H | [H | [H | H]]]]; eapply X; exact H.
      + intros i Hn H. rewrite in_app_iff in H. apply in_map_iff in Hn. destruct Hn as [r [<- Ir]]. apply NU in Ir. destruct Ir as [Ir [_ N]].
        destruct H as [H | H]; [|contradiction]. apply (unexpected_ids_disjoint data feed _ H). apply in_map. exact Ir.
    - intros i Hr H. apply in_map_iff in Hr. destruct Hr as [r [<- Ir]]. apply RU in Ir. destruct Ir as [Ir [R N]].
      rewrite !in_app_iff in H. destruct H as [H | [H | H]].
      + apply in_map_iff in H. destruct H as [r' [E Ir']]. apply NU in Ir'. destruct Ir' as [Ir' [R' _]].
        assert (r' = r) by (apply (key_inj d_id data); auto). subst. congruence.
      + apply (unexpected_ids_disjoint data feed _ H). apply in_map. exact Ir.
      + contradiction.
  Qed.
End Partition.

(* ---------------- feed rows with missing results (f_nan) ---------------- *)

Lemma join_ids (p : params) (ft fm : list string) (base : list brow) (feed : list frow) (i : string) :
  In i (map d_id (join p ft fm base feed)) -> In i (map b_id base).
Proof.
  unfold join. rewrite in_map_iff. intros [r [E I]]. apply in_flat_map in I. destruct I as [b [Ib Ir]].
  apply in_map_iff. exists b. split; [|exact Ib].
  destruct (find_feed feed (b_postal b) (b_id b)) as [f|];
    [destruct (f_nan f)|]; destruct (p_zero_policy p); cbn in Ir;
    repeat match goal with H : _ \/ _ |- _ => destruct H | H : False |- _ => contradiction end; subst; reflexivity.
Qed.

(* under the "drop" policy a baseline unit whose feed row has no results has no row in the joined data ... *)
Lemma join_drops_nan (p : params) (ft fm : list string) (base : list brow) (feed : list frow) (b : brow) (f : frow) :
  p_zero_policy p = false -> NoDup (map b_id base) -> In b base ->
  find_feed feed (b_postal b) (b_id b) = Some f -> f_nan f = true ->
  ~ In (b_id b) (map d_id (join p ft fm base feed)).
Proof.
  intros Hz ND Ib Hf Hn. unfold join. rewrite in_map_iff. intros [r [E I]].
  apply in_flat_map in I. destruct I as [b' [Ib' Ir]].
  assert (b_id b' = b_id b) as Eid.
  { destruct (find_feed feed (b_postal b') (b_id b')) as [f'|];
      [destruct (f_nan f')|]; cbn in Ir; try rewrite Hz in Ir; cbn in Ir;
      repeat match goal with H : _ \/ _ |- _ => destruct H | H : False |- _ => contradiction end; subst; cbn in E; exact E. }
  assert (b' = b) as -> by (eapply key_inj with (k := b_id); eauto).
  rewrite Hf, Hn, Hz in Ir. cbn in Ir. exact Ir.
Qed.

(* ... and is therefore passed through as an unexpected unit: it does not vanish *)
Theorem nan_row_passed_through (p : params) (ft fm : list string) (base : list brow) (feed : list frow) (b : brow) (f : frow) :
  p_zero_policy p = false -> NoDup (map b_id base) -> In b base ->
  find_feed feed (b_postal b) (b_id b) = Some f -> f_nan f = true ->
  In (b_id b) (ids_of (unexpected (join p ft fm base feed) feed)).
Proof.
  intros Hz ND Ib Hf Hn.
  pose proof (join_drops_nan p ft fm base feed b f Hz ND Ib Hf Hn) as Hnot.
  unfold unexpected. destruct (dedup_ids_NoDup (map (fun f0 => (f_id f0, Unexpected)) (not_in_ids (map d_id (join p ft fm base feed)) feed)) []) as [_ M].
  apply M. split; [|intros []].
  unfold find_feed in Hf. apply find_some in Hf. destruct Hf as [If Ef].
  apply andb_true_iff in Ef. destruct Ef as [Ei _]. apply String.eqb_eq in Ei.
  unfold ids_of. rewrite map_map. cbn [fst]. apply in_map_iff. exists f. split; [exact Ei|].
  unfold not_in_ids. apply filter_In. split; [exact If|].
  rewrite Ei. apply negb_true_iff. apply smem_false. exact Hnot.
Qed.

(* under the "zero" policy the same unit stays in the joined data with zero results and zero percent *)
Theorem nan_row_zeroed (p : params) (ft fm : list string) (base : list brow) (feed : list frow) (b : brow) (f : frow) :
  p_zero_policy p = true -> In b base ->
  find_feed feed (b_postal b) (b_id b) = Some f -> f_nan f = true ->
  exists r, In r (join p ft fm base feed) /\ d_id r = b_id b /\ (d_rw r == 0)%Q /\ (d_pev r == 0)%Q.
Proof.
  intros Hz Ib Hf Hn.
  eexists. split.
  - unfold join. apply in_flat_map. exists b. split; [exact Ib|]. rewrite Hf, Hn, Hz. left. reflexivity.
  - cbn. repeat split; reflexivity.
Qed.
