From Coq Require Import QArith Qabs List Lqa.
From Elex Require Import Base.Loss Model.RetryScale.
Import ListNotations.

Lemma loss_scale (c : Q) (l : list obs) (b : Q) : loss (scale c l) b == c * loss l b.
Proof.
  induction l as [|o l IH]; cbn [scale map loss].
  - ring.
  - fold (scale c l). rewrite IH. unfold ow, ov. cbn [fst snd]. ring.
Qed.

(* lambda = 0: normalising the weights (any positive rescaling) does not change which coefficients are optimal *)
Theorem unregularised_scale_invariant (c : Q) (l : list obs) (b : Q) : 0 < c ->
  (minimises (objective 0 l) b <-> minimises (objective 0 (scale c l)) b).
Proof.
  intros Hc. unfold minimises, objective. split; intros H b'; specialize (H b').
  - rewrite !loss_scale. nra.
  - rewrite !loss_scale in H. nra.
Qed.

Lemma sq_nonneg (x : Q) : 0 <= x * x.
Proof. destruct (Qlt_le_dec x 0); nra. Qed.

(* lambda > 0: one observation y = 1 with weight 2 (normalised weight 1), lambda = 1 *)
Definition ex_norm : list obs := [(1, 1)].
Definition ex_raw : list obs := scale 2 ex_norm.

Lemma ex_norm_obj b : objective 1 ex_norm b == (1 # 2) * Qabs (1 - b) + b * b.
Proof. unfold objective, ex_norm. cbn [loss]. unfold ow, ov. cbn [fst snd]. ring. Qed.

Lemma ex_raw_obj b : objective 1 ex_raw b == Qabs (1 - b) + b * b.
Proof. unfold objective, ex_raw, ex_norm. cbn [scale map loss]. unfold ow, ov. cbn [fst snd]. ring. Qed.

Lemma ex_norm_min : minimises (objective 1 ex_norm) (1 # 4).
Proof.
  intros b'. rewrite !ex_norm_obj. pose proof (sq_nonneg (b' - (1 # 4))) as Hs.
  destruct (Qabs_cases (1 - (1 # 4))) as [[_ E]|[_ E]]; rewrite E;
  destruct (Qabs_cases (1 - b')) as [[H' E']|[H' E']]; rewrite E'; nra.
Qed.

Lemma ex_raw_min : minimises (objective 1 ex_raw) (1 # 2).
Proof.
  intros b'. rewrite !ex_raw_obj. pose proof (sq_nonneg (b' - (1 # 2))) as Hs.
  destruct (Qabs_cases (1 - (1 # 2))) as [[_ E]|[_ E]]; rewrite E;
  destruct (Qabs_cases (1 - b')) as [[H' E']|[H' E']]; rewrite E'; nra.
Qed.

Lemma ex_norm_not_half : ~ minimises (objective 1 ex_norm) (1 # 2).
Proof.
  intros H. specialize (H (1 # 4)). rewrite !ex_norm_obj in H.
  destruct (Qabs_cases (1 - (1 # 4))) as [[_ E]|[_ E]]; rewrite E in H;
  destruct (Qabs_cases (1 - (1 # 2))) as [[H' E']|[H' E']]; rewrite E' in H; nra.
Qed.

(* the retry (same lambda, raw weights) and the first attempt (normalised weights) have different optima *)
Theorem regularised_retry_differs :
  exists (lambda c : Q) (l : list obs) (b : Q), 0 < lambda /\ 0 < c /\
    minimises (objective lambda (scale c l)) b /\ ~ minimises (objective lambda l) b.
Proof.
  exists 1, 2, ex_norm, (1 # 2). repeat split; try reflexivity.
  - exact ex_raw_min.
  - exact ex_norm_not_half.
Qed.
