From Coq Require Import ZArith QArith Qminmax List Bool String Permutation Lia Lqa.
From Elex Require Import Base.Frame Base.QRound Model.Aggregate.
Import ListNotations.
Open Scope Z_scope.

Section Generic.
  Variable A : Type.
  Variable k : A -> option key.

  Lemma sum_where_ext (f h : A -> Z) g rows : (forall r, In r rows -> f r = h r) -> sum_where k f g rows = sum_where k h g rows.
  Proof.
    induction rows as [|r rs IH]; simpl; intros H; [reflexivity|].
    rewrite (H r (or_introl eq_refl)), IH; [reflexivity | intros; apply H; right; assumption].
  Qed.

  Lemma sum_where_le (f h : A -> Z) g rows : (forall r, In r rows -> f r <= h r) -> sum_where k f g rows <= sum_where k h g rows.
  Proof.
    induction rows as [|r rs IH]; simpl; intros H; [lia|].
    pose proof (H r (or_introl eq_refl)). assert (sum_where k f g rs <= sum_where k h g rs) by (apply IH; intros; apply H; right; assumption).
    destruct (okey_is (k r) g); lia.
  Qed.

  Lemma sum_where_app (f : A -> Z) g r1 r2 : sum_where k f g (r1 ++ r2) = sum_where k f g r1 + sum_where k f g r2.
  Proof. induction r1 as [|r rs IH]; simpl; [reflexivity | rewrite IH; lia]. Qed.

  Lemma has_key_app g r1 r2 : has_key k g (r1 ++ r2) = has_key k g r1 || has_key k g r2.
  Proof. induction r1 as [|r rs IH]; simpl; [reflexivity | rewrite IH, orb_assoc; reflexivity]. Qed.

  Lemma sum_where_filter (p : A -> bool) (f : A -> Z) g rows :
    sum_where k f g (filter p rows) = sum_where k (fun r => if p r then f r else 0) g rows.
  Proof.
    induction rows as [|r rs IH]; simpl; [reflexivity|].
    destruct (p r); simpl; rewrite IH; destruct (okey_is (k r) g); lia.
  Qed.

  Lemma has_key_filter (p : A -> bool) g rows :
    has_key k g (filter p rows) = true <-> exists r, In r rows /\ p r = true /\ k r = Some g.
  Proof.
    rewrite has_key_exists. split.
    - intros [r [I E]]. apply filter_In in I. destruct I. exists r. auto.
    - intros [r [I [P E]]]. exists r. split; [apply filter_In; auto | exact E].
  Qed.

  Lemma sum_where_sum_all (f : A -> Z) g rows :
    sum_where k f g rows = sum_all (fun r => if okey_is (k r) g then f r else 0) rows.
  Proof. induction rows as [|r rs IH]; simpl; [reflexivity | rewrite IH; reflexivity]. Qed.

  Lemma sum_all_ext (f h : A -> Z) rows : (forall r, In r rows -> f r = h r) -> sum_all f rows = sum_all h rows.
  Proof.
    induction rows as [|r rs IH]; simpl; intros H; [reflexivity|].
    rewrite (H r (or_introl eq_refl)), IH; [reflexivity | intros; apply H; right; assumption].
  Qed.
End Generic.
Arguments sum_where_ext {A}. Arguments sum_where_le {A}. Arguments sum_where_app {A}. Arguments sum_where_filter {A}.
Arguments has_key_filter {A}. Arguments sum_where_sum_all {A}. Arguments sum_all_ext {A}. Arguments has_key_app {A}.

(* ---------------- columns as sums over all unit rows ---------------- *)

Lemma col_spec (a : aggr) (vnon vf : urow -> Z) rows g :
  votes_col a vf rows g + non_col a vnon rows g = sum_where (kf a) (contrib a vnon vf) g rows.
Proof.
  unfold votes_col, non_col. rewrite !get0_gsum. unfold rows_of. rewrite !sum_where_filter.
  induction rows as [|r rs IH]; simpl.
  - destruct (has_cls a); reflexivity.
  - unfold contrib at 1. destruct (has_cls a) eqn:C, (ufr r) eqn:F, (okey_is (kf a r) g); simpl in *; lia.
Qed.

Theorem agg_results_spec a rows g :
  agg_results a rows g = sum_where (kf a) (fun r => if attributable a r then ures r else 0) g rows.
Proof.
  unfold agg_results. rewrite col_spec. apply sum_where_ext. intros r _.
  unfold contrib, attributable. destruct (ufr r), (has_cls a); reflexivity.
Qed.

Theorem agg_reporting_spec a rows g :
  agg_reporting a rows g = sum_where (kf a) (fun r => if attributable a r then urep r else 0) g rows.
Proof.
  unfold agg_reporting. rewrite col_spec. apply sum_where_ext. intros r _.
  unfold contrib, attributable. destruct (ufr r), (has_cls a); reflexivity.
Qed.

Theorem agg_pred_spec a rows g : agg_pred a rows g = sum_where (kf a) (contrib a upred ures) g rows.
Proof. unfold agg_pred. apply col_spec. Qed.
Theorem agg_lo_spec a i rows g : agg_lo a i rows g = sum_where (kf a) (contrib a (ulo i) ures) g rows.
Proof. unfold agg_lo. apply col_spec. Qed.
Theorem agg_hi_spec a i rows g : agg_hi a i rows g = sum_where (kf a) (contrib a (uhi i) ures) g rows.
Proof. unfold agg_hi. apply col_spec. Qed.

(* the prediction is counted votes (reporting + attributable unexpected) plus the nonreporting units' predictions *)
Theorem agg_pred_decomp a rows g :
  agg_pred a rows g =
  sum_where (kf a) (fun r => match ufr r with FNon => 0 | _ => if attributable a r then ures r else 0 end) g rows
  + sum_where (kf a) (fun r => match ufr r with FNon => upred r | _ => 0 end) g rows.
Proof.
  rewrite agg_pred_spec. induction rows as [|r rs IH]; simpl; [reflexivity|]. rewrite IH.
  unfold contrib, attributable. destruct (ufr r), (has_cls a), (okey_is (kf a r) g); simpl; lia.
Qed.

(* ---------------- key set ---------------- *)

Theorem agg_keys_spec a rows g :
  In g (agg_keys a rows) <-> exists r, In r rows /\ attributable a r = true /\ kf a r = Some g.
Proof.
  unfold agg_keys. rewrite In_sort_keys, In_okeys. unfold votes_keys.
  assert (K : forall f, In g (keys (gsum (kf a) ures (rows_of f rows))) <->
                        exists r, In r rows /\ frame_eqb (ufr r) f = true /\ kf a r = Some g).
  { intros f. rewrite In_keys_gsum. unfold rows_of. apply has_key_filter. }
  destruct (has_cls a) eqn:C.
  - rewrite !K. unfold attributable. rewrite C. split.
    + intros [[r [I [F E]]] | [r [I [F E]]]]; exists r; destruct (ufr r); simpl in *; try discriminate; auto.
    + intros [r [I [F E]]]. destruct (ufr r) eqn:U; simpl in F; try discriminate;
        [left | right]; exists r; rewrite U; auto.
  - rewrite In_okeys, !K. unfold attributable. rewrite C. split.
    + intros [[[r [I [F E]]] | [r [I [F E]]]] | [r [I [F E]]]]; exists r; destruct (ufr r); simpl in *; try discriminate; auto.
    + intros [r [I [F E]]]. destruct (ufr r) eqn:U;
        [left; left | right | left; right]; exists r; rewrite U; auto.
Qed.

Lemma NoDup_agg_keys a rows : NoDup (agg_keys a rows).
Proof.
  unfold agg_keys. apply NoDup_sort_keys. apply NoDup_okeys; [|apply NoDup_keys_gsum].
  unfold votes_keys. destruct (has_cls a); [apply NoDup_keys_gsum | apply NoDup_okeys; apply NoDup_keys_gsum].
Qed.

Lemma fold_sum_ext (f h : key -> Z) ks : (forall g, In g ks -> f g = h g) ->
  fold_right (fun g acc => f g + acc) 0 ks = fold_right (fun g acc => h g + acc) 0 ks.
Proof.
  induction ks as [|g r IH]; simpl; intros H; [reflexivity|].
  rewrite (H g (or_introl eq_refl)), IH; [reflexivity | intros; apply H; right; assumption].
Qed.


(* no vote lost, none double counted: the table's counted votes add up to the votes of all attributable, keyed units *)
Theorem no_vote_lost a rows :
  fold_right (fun g acc => agg_results a rows g + acc) 0 (agg_keys a rows) =
  sum_all (fun r => if attributable a r && is_some (kf a r) then ures r else 0) rows.
Proof.
  rewrite (fold_sum_ext (agg_results a rows) (fun g => sum_where (kf a) (fun r => if attributable a r then ures r else 0) g rows)).
  2:{ intros g _. apply agg_results_spec. }
  rewrite (sum_groups_partition (kf a) _ _ rows (NoDup_agg_keys a rows)).
  apply sum_all_ext. intros r I. unfold in_keys.
  destruct (kf a r) as [g|] eqn:E; simpl; [|rewrite andb_false_r; reflexivity].
  rewrite andb_true_r. destruct (attributable a r) eqn:At.
  - assert (M : kmem g (agg_keys a rows) = true).
    { apply kmem_In. apply agg_keys_spec. exists r. auto. }
    rewrite M. reflexivity.
  - destruct (kmem g (agg_keys a rows)); reflexivity.
Qed.

(* ---------------- C03: counted votes are a floor ---------------- *)

Theorem agg_floor_pred a rows g :
  (forall r, In r rows -> ufr r = FNon -> ures r <= upred r) -> agg_results a rows g <= agg_pred a rows g.
Proof.
  intros H. unfold agg_results. rewrite col_spec, agg_pred_spec. apply sum_where_le.
  intros r I. unfold contrib. destruct (ufr r) eqn:F; try lia. apply H; assumption.
Qed.

Theorem agg_floor_lo a i rows g :
  (forall r, In r rows -> ufr r = FNon -> ures r <= ulo i r) -> agg_results a rows g <= agg_lo a i rows g.
Proof.
  intros H. unfold agg_results. rewrite col_spec, agg_lo_spec. apply sum_where_le.
  intros r I. unfold contrib. destruct (ufr r) eqn:F; try lia. apply H; assumption.
Qed.

Theorem agg_floor_hi a i rows g :
  (forall r, In r rows -> ufr r = FNon -> ures r <= uhi i r) -> agg_results a rows g <= agg_hi a i rows g.
Proof.
  intros H. unfold agg_results. rewrite col_spec, agg_hi_spec. apply sum_where_le.
  intros r I. unfold contrib. destruct (ufr r) eqn:F; try lia. apply H; assumption.
Qed.

(* a group without nonreporting units: zero-width interval at its counted votes *)
Theorem agg_zero_width a i rows g :
  has_key (kf a) g (rows_of FNon rows) = false ->
  agg_pred a rows g = agg_results a rows g /\ agg_lo a i rows g = agg_results a rows g /\ agg_hi a i rows g = agg_results a rows g.
Proof.
  intros H. unfold agg_pred, agg_lo, agg_hi, agg_results, non_col. rewrite !get0_gsum.
  rewrite !(sum_where_not_in _ _ _ _ H). auto.
Qed.

(* gaussian vote-space step: whatever the (lb, ub) oracle returns -- also far below the partial count -- the bound
   is at least the group's counted votes (reporting + unexpected + partial counts of nonreporting units) *)
Theorem gauss_total_floor (votes last partial : Z) (b : Q) :
  votes + partial <= gauss_total votes (gauss_bound last b partial).
Proof.
  unfold gauss_total, gauss_bound. apply rhe_ge_int.
  rewrite inject_Z_plus.
  assert (inject_Z partial <= Qmax (inject_Z last + b) (inject_Z partial))%Q by apply Q.le_max_r. lra.
Qed.

Theorem gauss_lo_floor a last bounds rows g :
  (qlookup g bounds = None -> non_col a ures rows g = 0) ->
  agg_results a rows g <= gauss_lo a last bounds rows g.
Proof.
  intros H. unfold gauss_lo, agg_results. destruct (qlookup g bounds) as [[lb ub]|] eqn:Q.
  - apply gauss_total_floor.
  - rewrite (H eq_refl). lia.
Qed.

Theorem gauss_hi_floor a last bounds rows g :
  (qlookup g bounds = None -> non_col a ures rows g = 0) ->
  agg_results a rows g <= gauss_hi a last bounds rows g.
Proof.
  intros H. unfold gauss_hi, agg_results. destruct (qlookup g bounds) as [[lb ub]|] eqn:Q.
  - apply gauss_total_floor.
  - rewrite (H eq_refl). lia.
Qed.

(* ---------------- C11: an extra unexpected unit only adds its own votes ---------------- *)

Lemma col_delta a vnon rows x g : ufr x = FUnx ->
  votes_col a ures (rows ++ [x]) g + non_col a vnon (rows ++ [x]) g =
  votes_col a ures rows g + non_col a vnon rows g + delta a x g.
Proof.
  intros F. rewrite !col_spec, sum_where_app. simpl. unfold delta, contrib, attributable. rewrite F.
  destruct (has_cls a), (okey_is (kf a x) g); simpl; lia.
Qed.

Theorem unexpected_delta a rows x g i : ufr x = FUnx ->
  agg_results a (rows ++ [x]) g = agg_results a rows g + delta a x g /\
  agg_pred a (rows ++ [x]) g = agg_pred a rows g + delta a x g /\
  agg_lo a i (rows ++ [x]) g = agg_lo a i rows g + delta a x g /\
  agg_hi a i (rows ++ [x]) g = agg_hi a i rows g + delta a x g.
Proof.
  intros F. unfold agg_results, agg_pred, agg_lo, agg_hi. rewrite !col_delta by exact F. auto.
Qed.

Theorem unexpected_reporting_unchanged a rows x g : ufr x = FUnx -> urep x = 0 ->
  agg_reporting a (rows ++ [x]) g = agg_reporting a rows g.
Proof.
  intros F R. rewrite !agg_reporting_spec, sum_where_app. simpl. rewrite R.
  destruct (attributable a x), (okey_is (kf a x) g); lia.
Qed.

Theorem unexpected_keys_delta a rows x g : ufr x = FUnx ->
  (In g (agg_keys a (rows ++ [x])) <-> In g (agg_keys a rows) \/ (attributable a x = true /\ kf a x = Some g)).
Proof.
  intros F. rewrite !agg_keys_spec. split.
  - intros [r [I [A E]]]. apply in_app_iff in I. destruct I as [I | [<- | []]]; [left; exists r; auto | right; auto].
  - intros [[r [I [A E]]] | [A E]]; [exists r | exists x]; rewrite in_app_iff; simpl; auto.
Qed.

(* a new group appears exactly with the unit's own votes in every column *)
Theorem unexpected_new_group a rows x g i : ufr x = FUnx -> ~ In g (agg_keys a rows) ->
  attributable a x = true -> kf a x = Some g ->
  agg_results a (rows ++ [x]) g = ures x /\ agg_pred a (rows ++ [x]) g = ures x /\
  agg_lo a i (rows ++ [x]) g = ures x /\ agg_hi a i (rows ++ [x]) g = ures x.
Proof.
  intros F N A E. destruct (unexpected_delta a rows x g i F) as [R [P [L H]]].
  rewrite R, P, L, H. unfold delta. rewrite A, E. simpl. rewrite key_eqb_refl.
  assert (Z0 : forall vnon, votes_col a ures rows g + non_col a vnon rows g = 0).
  { intros vnon. rewrite col_spec. rewrite sum_where_sum_all.
    assert (forall r, In r rows -> (if okey_is (kf a r) g then contrib a vnon ures r else 0) = 0).
    { intros r I. destruct (okey_is (kf a r) g) eqn:O; [|reflexivity].
      unfold okey_is in O. destruct (kf a r) as [h|] eqn:K; [|discriminate]. apply key_eqb_eq in O. subst h.
      destruct (attributable a r) eqn:At.
      - exfalso. apply N. apply agg_keys_spec. exists r. auto.
      - unfold contrib. unfold attributable in At. destruct (ufr r); try discriminate.
        apply negb_false_iff in At. rewrite At. reflexivity. }
    rewrite (sum_all_ext _ (fun _ => 0) rows H0). clear. induction rows; simpl; lia. }
  unfold agg_results, agg_pred, agg_lo, agg_hi. rewrite !Z0. auto.
Qed.

(* ---------------- C02: levels agree ---------------- *)

(* fine = coarse ++ [one more level]; restrict drops the last component *)
Definition restrict (g : key) : key := removelast g.

Lemma present_app (k1 k2 : okey) :
  present (k1 ++ k2) = match present k1, present k2 with Some a, Some b => Some (a ++ b) | _, _ => None end.
Proof.
  induction k1 as [|[s|] r IH]; simpl.
  - destruct (present k2); reflexivity.
  - rewrite IH. destruct (present r), (present k2); reflexivity.
  - reflexivity.
Qed.

Lemma proj_snoc (c : aggr) (i : nat) (k : okey) :
  proj (c ++ [i]) k = match proj c k, nth i k None with Some g, Some s => Some (g ++ [s]) | _, _ => None end.
Proof.
  unfold proj. rewrite map_app, present_app. simpl. destruct (present (map (fun j => nth j k None) c)); [|reflexivity].
  destruct (nth i k None); reflexivity.
Qed.

Lemma restrict_snoc (g : key) s : restrict (g ++ [s]) = g.
Proof. unfold restrict. apply removelast_last. Qed.

Theorem levels_agree (c : aggr) (i : nat) (vnon : urow -> Z) rows g :
  has_cls (c ++ [i]) = has_cls c ->
  (* well keyed: an attributable unit that has the coarse key also has the extra level *)
  (forall r, In r rows -> attributable c r = true -> kf c r <> None -> nth i (ukeys r) None <> None) ->
  votes_col c ures rows g + non_col c vnon rows g =
  fold_right (fun g' acc => (if key_eqb (restrict g') g then votes_col (c ++ [i]) ures rows g' + non_col (c ++ [i]) vnon rows g' else 0) + acc)
             0 (agg_keys (c ++ [i]) rows).
Proof.
  intros HC WK. set (f := c ++ [i]) in *.
  set (ks := filter (fun g' => key_eqb (restrict g') g) (agg_keys f rows)).
  assert (E1 : fold_right (fun g' acc => (if key_eqb (restrict g') g then votes_col f ures rows g' + non_col f vnon rows g' else 0) + acc) 0 (agg_keys f rows)
             = fold_right (fun g' acc => sum_where (kf f) (contrib f vnon ures) g' rows + acc) 0 ks).
  { unfold ks. induction (agg_keys f rows) as [|h t IH]; simpl; [reflexivity|].
    destruct (key_eqb (restrict h) g); simpl; rewrite IH; [rewrite col_spec; reflexivity | lia]. }
  rewrite E1. clear E1.
  assert (ND : NoDup ks) by (apply NoDup_filter, NoDup_agg_keys).
  rewrite (sum_groups_partition (kf f) _ ks rows ND).
  rewrite col_spec, sum_where_sum_all. apply sum_all_ext. intros r I.
  assert (CE : contrib f vnon ures r = contrib c vnon ures r) by (unfold contrib; rewrite HC; reflexivity).
  unfold in_keys, kf, f. rewrite proj_snoc. fold (kf c r).
  destruct (kf c r) as [gc|] eqn:K; simpl.
  - destruct (nth i (ukeys r) None) as [s|] eqn:Nn.
    + (* fine key gc ++ [s] *)
      destruct (key_eqb gc g) eqn:Eg.
      * apply key_eqb_eq in Eg. subst gc.
        destruct (attributable c r) eqn:At.
        -- assert (M : kmem (g ++ [s]) ks = true).
           { apply kmem_In. unfold ks. apply filter_In. split.
             - apply agg_keys_spec. exists r. split; [exact I|]. split.
               + unfold attributable in *. fold f. rewrite HC. exact At.
               + unfold kf, f. rewrite proj_snoc. fold (kf c r). rewrite K, Nn. reflexivity.
             - rewrite restrict_snoc. apply key_eqb_refl. }
           rewrite M. fold f. rewrite CE. reflexivity.
        -- (* not attributable: contributes 0 either way *)
           assert (Z0 : contrib c vnon ures r = 0).
           { unfold contrib. unfold attributable in At. destruct (ufr r); try discriminate.
             apply negb_false_iff in At. rewrite At. reflexivity. }
           fold f. rewrite CE, Z0. destruct (kmem (g ++ [s]) ks); reflexivity.
      * assert (M : kmem (gc ++ [s]) ks = false).
        { destruct (kmem (gc ++ [s]) ks) eqn:M; [|reflexivity]. apply kmem_In in M. unfold ks in M.
          apply filter_In in M. destruct M as [_ M]. rewrite restrict_snoc in M. congruence. }
        rewrite M. reflexivity.
    + (* coarse key present but the extra level is missing: excluded by well-keyedness unless not attributable *)
      destruct (key_eqb gc g) eqn:Eg; [|reflexivity].
      destruct (attributable c r) eqn:At.
      * exfalso. apply (WK r I At); [rewrite K; discriminate | exact Nn].
      * unfold contrib. unfold attributable in At. destruct (ufr r); try discriminate.
        apply negb_false_iff in At. rewrite At. reflexivity.
  - reflexivity.
Qed.
