From Coq Require Import List String Bool QArith.
From Elex Require Import Model.Schema.
Import ListNotations.

Lemma smem_In s l : smem s l = true <-> In s l.
Proof.
  induction l as [|h r IH]; simpl; [split; [discriminate | tauto]|].
  rewrite orb_true_iff, IH, String.eqb_eq. split; intros [A | A]; auto.
Qed.
Lemma smem_false s l : smem s l = false <-> ~ In s l.
Proof. rewrite <- smem_In. destruct (smem s l); split; congruence. Qed.

(* when the only columns two frames share are merge keys, nothing is renamed *)
Lemma merge_no_clash (on l r : list string) :
  (forall c, In c l -> In c r -> In c on) ->
  merge_cols on l r = (l ++ filter (fun c => negb (smem c on)) r)%list.
Proof.
  intros H. unfold merge_cols. f_equal.
  - rewrite <- (map_id l) at 2. apply map_ext_in. intros c I.
    destruct (smem c on) eqn:O; [reflexivity|]. destruct (smem c r) eqn:R; [|reflexivity].
    apply smem_In in R. apply smem_false in O. exfalso. apply O. apply H; assumption.
  - rewrite <- (map_id (filter _ r)) at 2. apply map_ext_in. intros c I. apply filter_In in I. destruct I as [I N].
    apply negb_true_iff in N. destruct (smem c l) eqn:L; [|reflexivity].
    apply smem_In in L. apply smem_false in N. exfalso. apply N. apply H; assumption.
Qed.

Section Schema.
  Variable common on : list string.
  Variable specific : string -> list string.
  Hypothesis common_in_on : forall c, In c common -> In c on.
  Hypothesis specific_not_common : forall e c, In c (specific e) -> ~ In c common /\ ~ In c on.
  Hypothesis specific_disjoint : forall e e' c, e <> e' -> In c (specific e) -> ~ In c (specific e').

  Lemma filter_frame e : filter (fun c => negb (smem c on)) (frame_cols common specific e) = specific e.
  Proof.
    unfold frame_cols. rewrite filter_app.
    assert (A : filter (fun c => negb (smem c on)) common = []).
    { clear - common_in_on. induction common as [|c r IH]; simpl; [reflexivity|].
      assert (S : smem c on = true) by (apply smem_In; apply common_in_on; left; reflexivity). rewrite S. simpl.
      apply IH. intros x I. apply common_in_on. right. exact I. }
    rewrite A. simpl.
    assert (forall l, (forall c, In c l -> ~ In c on) -> filter (fun c => negb (smem c on)) l = l).
    { induction l as [|c r IH]; simpl; intros H; [reflexivity|].
      assert (S : smem c on = false) by (apply smem_false; apply H; left; reflexivity). rewrite S. simpl. f_equal. apply IH. intros x I. apply H. right. exact I. }
    apply H. intros c I. apply (specific_not_common e c I).
  Qed.

  (* merging the frames of any duplicate-free list of estimands: key and category columns once, un-suffixed, followed by
     every estimand's own columns -- the schema does not depend on how many estimands are requested *)
  Theorem merged_schema (e0 : string) (es : list string) : NoDup (e0 :: es) ->
    merge_all on (map (frame_cols common specific) (e0 :: es)) = (common ++ specific e0 ++ flat_map specific es)%list.
  Proof.
    intros ND. unfold merge_all. simpl.
    assert (G : forall done acc, (forall c, In c acc -> In c common \/ exists e, In e done /\ In c (specific e)) ->
                (forall e, In e es -> ~ In e done) -> NoDup es ->
                fold_left (merge_cols on) (map (frame_cols common specific) es) acc = (acc ++ flat_map specific es)%list).
    { clear ND. induction es as [|e r IH]; intros done acc Hacc Hnew NDr; simpl; [rewrite app_nil_r; reflexivity|].
      inversion NDr as [|? ? He Hr]; subst.
      rewrite merge_no_clash.
      - rewrite filter_frame. rewrite (IH (e :: done)); [rewrite <- app_assoc; reflexivity | | | exact Hr].
        + intros c I. apply in_app_iff in I. destruct I as [I | I].
          * destruct (Hacc c I) as [A | [e' [D S]]]; [left; exact A | right; exists e'; split; [right; exact D | exact S]].
          * right. exists e. split; [left; reflexivity | exact I].
        + intros x Ix [-> | D]; [contradiction | apply (Hnew x (or_intror Ix) D)].
      - intros c Il Ir. unfold frame_cols in Ir. apply in_app_iff in Ir. destruct Ir as [Ir | Ir]; [apply common_in_on; exact Ir|].
        destruct (Hacc c Il) as [A | [e' [D S]]].
        + destruct (specific_not_common e c Ir) as [N _]. contradiction.
        + exfalso. assert (e' <> e) by (intros ->; apply (Hnew e (or_introl eq_refl) D)).
          apply (specific_disjoint e' e c H S Ir). }
    inversion ND as [|? ? H0 Hes]; subst.
    rewrite (G [e0] (frame_cols common specific e0)); [unfold frame_cols; rewrite <- app_assoc; reflexivity | | | exact Hes].
    - intros c I. unfold frame_cols in I. apply in_app_iff in I. destruct I as [I | I]; [left; exact I | right; exists e0; split; [left; reflexivity | exact I]].
    - intros e Ie [<- | []]. contradiction.
  Qed.
End Schema.

(* without the category column among the merge keys it is duplicated with suffixes (the pre-repair unit table: F13) *)
Example unrepaired_unit_schema :
  merge_cols ["postal_code"; "reporting"; "geographic_unit_fips"]%string
             ["postal_code"; "geographic_unit_fips"; "pred_dem"; "reporting"; "unit_category"; "results_dem"]%string
             ["postal_code"; "geographic_unit_fips"; "pred_turnout"; "reporting"; "unit_category"; "results_turnout"]%string
  = ["postal_code"; "geographic_unit_fips"; "pred_dem"; "reporting"; "unit_category_x"; "results_dem"; "pred_turnout"; "unit_category_y"; "results_turnout"]%string.
Proof. reflexivity. Qed.

(* ---- the per-level cache: an aggregate computation for level a reads the bounds of level a, whatever other levels'
   unit intervals were computed in between; the single-slot design reads the last computed level's ---- *)
Section CacheProofs.
  Variable B : Type.

  Lemma cache_get_put_same (a : Q) (v : B) c : cache_get a (cache_put a v c) = Some v.
  Proof. simpl. rewrite Qeq_bool_refl. reflexivity. Qed.

  Lemma cache_get_put_other (a a' : Q) (v : B) c : Qeq_bool a' a = false -> cache_get a (cache_put a' v c) = cache_get a c.
  Proof. intros H. simpl. rewrite H. reflexivity. Qed.

  Definition unit_ops (units : list (Q * B)) : list (cop B) := map (fun u => UnitIntervals (fst u) (snd u)) units.

  Lemma crun_units_then (units : list (Q * B)) (rest : list (cop B)) : forall c,
    crun (unit_ops units ++ rest)%list c = crun rest (fold_left (fun c u => cache_put (fst u) (snd u) c) units c).
  Proof. induction units as [|u r IH]; intros c; simpl; [reflexivity | apply IH]. Qed.

  Lemma get_after_others (a : Q) (post : list (Q * B)) : forall c,
    (forall x, In x post -> Qeq_bool (fst x) a = false) ->
    cache_get a (fold_left (fun c u => cache_put (fst u) (snd u) c) post c) = cache_get a c.
  Proof.
    induction post as [|u r IH]; intros c H; simpl; [reflexivity|].
    rewrite IH; [|intros x I; apply H; right; exact I]. apply cache_get_put_other. apply H. left. reflexivity.
  Qed.

  (* unit intervals of several levels are computed first, then the aggregate loop reads level a: it gets the bounds stored
     for a, whatever other levels were computed before or after them *)
  Theorem reads_own_level (pre post : list (Q * B)) (a : Q) (b : B) :
    (forall x, In x post -> Qeq_bool (fst x) a = false) ->
    crun (unit_ops (pre ++ (a, b) :: post) ++ [AggIntervals a])%list [] = [(a, Some b)].
  Proof.
    intros H. rewrite crun_units_then. simpl. rewrite fold_left_app. simpl.
    rewrite get_after_others by exact H. rewrite cache_get_put_same. reflexivity.
  Qed.
End CacheProofs.

(* the single-slot design reads the bounds of the last computed level instead (the overwrite the 1.0.8 fix removed) *)
Example single_slot_overwrites :
  crun_single [UnitIntervals (7 # 10)%Q "bounds@0.7"%string; UnitIntervals (9 # 10)%Q "bounds@0.9"%string; AggIntervals (7 # 10)%Q] None = [((7 # 10)%Q, Some "bounds@0.9"%string)]
  /\ crun [UnitIntervals (7 # 10)%Q "bounds@0.7"%string; UnitIntervals (9 # 10)%Q "bounds@0.9"%string; AggIntervals (7 # 10)%Q] [] = [((7 # 10)%Q, Some "bounds@0.7"%string)].
Proof. split; reflexivity. Qed.
