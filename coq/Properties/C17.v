(* C17 -- Margin histories interpolate within bounds; irregular histories are discarded. *)
From Coq Require Import ZArith QArith List Bool.
From Elex Require Import Model.Versioned Proofs.VersionedProofs.
Import ListNotations.
Open Scope Q_scope.

(* every whole percent p >= 1: convex combination (weight lam = observed percent / p) of the last observed margin and the
   next batch's margin, hence in [-1,1]; before the first observation: the first observed margin *)
Theorem C17_convex : forall (nm0 : Q) (rows : list obs) (p : Q),
  1 <= p ->
  (forall o, In o rows -> 0 <= o_pv o /\ bounded1 (o_nm o) /\ bounded1 (o_b o)) -> bounded1 nm0 ->
  bounded1 (est nm0 rows p) /\
  (match last_le p rows None with
   | None => est nm0 rows p == nm0
   | Some o => exists lam, 0 <= lam /\ lam <= 1 /\ lam * p == o_pv o /\ est nm0 rows p == lam * o_nm o + (1 - lam) * o_b o
   end).
Proof. exact est_convex. Qed.
Print Assumptions C17_convex.

Theorem C17_before_first : forall (nm0 : Q) (o : obs) (rows : list obs) (p : Q),
  1 <= p -> p < o_pv o -> est nm0 (o :: rows) p == nm0.
Proof. exact est_before_first. Qed.
Print Assumptions C17_before_first.

Theorem C17_zero : forall (nm0 : Q) (rows : list obs), est nm0 rows 0 == 0.
Proof. exact est_zero. Qed.
Print Assumptions C17_zero.

(* produced for every percent 0 .. floor(latest percent); correction = final margin - imputed margin *)
Theorem C17_domain_and_correction : forall (l : list version) rows nml maxp,
  analyse l = inr (rows, nml, maxp) ->
  fst (table l) = None /\
  map (fun r : out_row => fst (fst r)) (snd (table l)) = map Z.of_nat (seq 0 (Z.to_nat (maxp + 1))) /\
  forall r, In r (snd (table l)) -> exists e, snd (fst r) = Some e /\ snd r = Some (nml - e).
Proof. exact table_regular. Qed.
Print Assumptions C17_domain_and_correction.

(* non-monotone turnout or an impossible batch: 101 rows, everything missing, error type recorded *)
Theorem C17_irregular : forall (l : list version) (e : err),
  analyse l = inl e ->
  fst (table l) = Some e /\ List.length (snd (table l)) = 101%nat /\
  forall r, In r (snd (table l)) -> snd (fst r) = None /\ snd r = None.
Proof. exact table_irregular. Qed.
Print Assumptions C17_irregular.

Theorem C17_irregular_iff : forall l : list version,
  (exists e, analyse l = inl e) <->
  (nondecreasing (map (perc_corr (v_turnout (lastv dummy l))) l) = false \/ existsb bm_bad (batches l) = true).
Proof. exact irregular_iff. Qed.
Print Assumptions C17_irregular_iff.

(* a missing correction, or one too far from an observation, never contributes to an extrapolated prediction *)
Theorem C17_never_averaged : forall (maxd d : Q) (c1 c2 : list (Q * option Q)),
  extrapolated maxd (c1 ++ (d, None) :: c2) = extrapolated maxd (c1 ++ c2).
Proof. exact missing_never_averaged. Qed.
Print Assumptions C17_never_averaged.

(* non-vacuity: history 25% / 50% / 100% with margins 0.2, 0.3, 0.45 *)
Example C17_example :
  let h := [ {| v_turnout := 25; v_pev := 25; v_dem := 15; v_gop := 10; v_nm := 1 # 5 |};
             {| v_turnout := 50; v_pev := 50; v_dem := 65 # 2; v_gop := 35 # 2; v_nm := 3 # 10 |};
             {| v_turnout := 100; v_pev := 100; v_dem := 145 # 2; v_gop := 55 # 2; v_nm := 9 # 20 |} ] in
  fst (table h) = None /\ List.length (snd (table h)) = 101%nat /\
  (match nth 10 (snd (table h)) (0%Z, None, None) with (_, Some e, _) => Qeq_bool e (1 # 5) | _ => false end) = true.
Proof. vm_compute. auto. Qed.
