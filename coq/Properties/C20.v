(* C20 -- A failed or inaccurate quantile-regression solve is retried, not fatal. *)
From Coq Require Import List String Bool.
From Coq Require Import QArith.
From Elex Require Import Base.Loss Model.Retry Model.RetryScale Proofs.RetryProofs Proofs.RetryScaleProofs Gen.Retry.
Import ListNotations.
Open Scope string_scope.

(* generated facts (re-derived from ConformalElectionModel.fit_model and the installed solver's signature at every run):
   the retry call is accepted by the solver, and gives every parameter the same argument as the first attempt except
   normalize_weights = False; both calls go to the same solver object *)
Theorem C20_retry_call_accepted :
  call_ok solver_params retry_call_pos retry_call_kw = true /\ call_ok solver_params first_call_pos first_call_kw = true
  /\ solver_accepts_any_keyword = false.
Proof. vm_compute. auto. Qed.
Print Assumptions C20_retry_call_accepted.

Theorem C20_retry_same_args :
  pairs_eqb (effective solver_params retry_call_pos retry_call_kw)
            (set_arg "normalize_weights" "False" (effective solver_params first_call_pos first_call_kw)) = true
  /\ String.eqb first_receiver retry_receiver = true
  /\ assoc "normalize_weights" (effective solver_params first_call_pos first_call_kw) = Some "True".
Proof. vm_compute. auto. Qed.
Print Assumptions C20_retry_same_args.

(* both failure kinds reach the except branch: inaccuracy warnings are turned into errors and caught, solver errors are caught *)
Definition inaccuracy_is_error (to_caller by_module by_text : bool) : bool :=
  if to_caller then by_text else by_module || by_text.

Theorem C20_failures_caught :
  smemb "UserWarning" except_types = true /\ smemb "cvxpy.error.SolverError" except_types = true /\
  inaccuracy_is_error cvxpy_attributes_warnings_to_caller cvxpy_warnings_are_errors inaccuracy_matched_by_text = true.
Proof. vm_compute. auto. Qed.
Print Assumptions C20_failures_caught.

(* control flow, for every solver behaviour *)
Theorem C20_retry : forall (Args Coef : Type) (solve : bool -> Args -> result Coef) (a : Args) (e : failure),
  solve true a = Err e -> caught e = true -> fit_model solve a = solve false a.
Proof. exact retry_on_caught. Qed.
Print Assumptions C20_retry.

Theorem C20_any_position : forall (Args Coef : Type) (solve : bool -> Args -> result Coef) (e : failure) (pre post : list Args) (a : Args),
  caught e = true ->
  (map (fit_model solve) pre ++ [fit_model (inject Args Coef solve e) a] ++ map (fit_model solve) post
  = map (fit_model solve) pre ++ [solve false a] ++ map (fit_model solve) post)%list.
Proof. exact fault_any_position. Qed.
Print Assumptions C20_any_position.

Theorem C20_fault_invisible : forall (Args Coef : Type) (solve : bool -> Args -> result Coef) (e : failure) (a : Args),
  caught e = true -> solve false a = solve true a ->
  forall c, solve true a = Ok c -> fit_model (inject Args Coef solve e) a = fit_model solve a.
Proof. exact fault_invisible. Qed.
Print Assumptions C20_fault_invisible.

(* why "solve false a = solve true a" is a fair hypothesis without regularisation: the unnormalised weights are a positive
   multiple of the normalised ones, and rescaling the weights does not change which coefficients are optimal *)
Theorem C20_unregularised_scale_invariant : forall (c : Q) (l : list obs) (b : Q), (0 < c)%Q ->
  (minimises (objective 0 l) b <-> minimises (objective 0 (scale c l)) b).
Proof. exact unregularised_scale_invariant. Qed.
Print Assumptions C20_unregularised_scale_invariant.

(* ... and why it is NOT with lambda_ > 0 (finding F20): with the same lambda_, the raw-weight problem of the retry and the
   normalised problem of the first attempt have different optima *)
Theorem C20_regularised_retry_refuted :
  exists (lambda c : Q) (l : list obs) (b : Q), (0 < lambda)%Q /\ (0 < c)%Q /\
    minimises (objective lambda (scale c l)) b /\ ~ minimises (objective lambda l) b.
Proof. exact regularised_retry_differs. Qed.
Print Assumptions C20_regularised_retry_refuted.

(* witness of defect F22: with a cvxpy that attributes its warnings to the calling module (the installed one does), the filter on
   module="cvxpy" alone does not turn the inaccuracy warning into an error, and nothing is retried *)
Theorem C20_module_filter_alone_refuted : inaccuracy_is_error true true false = false.
Proof. reflexivity. Qed.
Print Assumptions C20_module_filter_alone_refuted.

(* the pre-repair retry call (tau_value=) is rejected by the signature: witness of defect F1 *)
Theorem C20_unrepaired_call_refuted :
  call_ok solver_params ["X"; "y"] [("tau_value", "tau"); ("weights", "weights"); ("lambda_", "self.lambda_"); ("normalize_weights", "False")] = false.
Proof. vm_compute. reflexivity. Qed.
Print Assumptions C20_unrepaired_call_refuted.
