(* C04 -- Nonparametric intervals are conformally calibrated. *)
From Coq Require Import ZArith QArith List Bool.
From Elex Require Import Base.QRound Base.Loss Model.Compare Model.Ranks Model.Floor Model.Conformal Proofs.ConformalProofs Proofs.CoverageProofs
     Proofs.GenFormulas Gen.Formulas Model.Split.
Import ListNotations.
Open Scope Q_scope.

(* a calibration unit's true value lies inside its widened interval iff its conformity score is <= the correction *)
Theorem C04_inside_iff : forall l u r c : Q, (l - c <= r /\ r <= u + c) <-> score l u r <= c.
Proof. exact inside_iff. Qed.
Print Assumptions C04_inside_iff.

(* the correction is the smallest value whose baseline-weighted share of calibration units inside their widened interval
   exceeds the quantile level q = alpha (1 + 1/n_cal) -- any scores, any non-negative weights, ties, negative corrections *)
Theorem C04_weighted_share : forall (l : sw) (q c : Q), nonneg l -> 0 <= q ->
  pop_correction l q = Some c -> q * total l < wle c l /\ forall c', q * total l < wle c' l -> c <= c'.
Proof. exact weighted_share. Qed.
Print Assumptions C04_weighted_share.

(* ... and exists whenever the level is below 1, which C14 guarantees for every count at or above the minimum *)
Theorem C04_correction_exists : forall (l : sw) (q : Q), nonneg l -> 0 < total l -> q < 1 -> exists c, pop_correction l q = Some c.
Proof. exact correction_exists. Qed.
Print Assumptions C04_correction_exists.

Theorem C04_robust : forall (l : sw) (q c p : Q),
  correction true l q = Some c -> pop_correction l q = Some p -> p <= c /\ quantile_lin (qsort (map ov l)) q <= c.
Proof. exact robust_ge_both. Qed.
Print Assumptions C04_robust.

(* symmetric application, un-normalisation, flooring at the partial count and rounding never push an integer truth outside *)
Theorem C04_vote_space : forall (raw_lo raw_hi c : Q) (last res t : Z),
  (0 < last)%Z -> (res <= t)%Z ->
  raw_lo - c <= (inject_Z t - inject_Z last) / inject_Z last -> (inject_Z t - inject_Z last) / inject_Z last <= raw_hi + c ->
  (np_lower raw_lo c last res <= t)%Z /\ (t <= np_upper raw_hi c last res)%Z.
Proof. exact vote_space. Qed.
Print Assumptions C04_vote_space.

(* the quantile level of the source is alpha (1 + 1/n_cal) (generated, all arguments) *)
Theorem C04_source_quantile_level : forall (a : Q) (c : Z), gen_np_correction_quantile a (inject_Z c) == correction_quantile a c.
Proof. exact gen_np_correction_quantile_ok. Qed.
Print Assumptions C04_source_quantile_level.

(* the counting core of the probabilistic clause: among N exchangeable scores of equal baseline size, at least alpha*N are
   covered by the correction computed from the other N-1 -- every list of scores (ties, negative values), every alpha with
   alpha*N < N-1 (guaranteed by C14).  Under exchangeability the coverage probability is this count / N >= alpha. *)
Theorem C04_exchangeable_coverage : forall (alpha : Q) (s : list Q),
  0 < alpha -> (2 <= List.length s)%nat ->
  alpha * inject_Z (Z.of_nat (List.length s)) < inject_Z (Z.of_nat (List.length s - 1)) ->
  alpha * inject_Z (Z.of_nat (List.length s)) <= inject_Z (Z.of_nat (cnt (covered alpha s) s)).
Proof. exact coverage_fraction. Qed.
Print Assumptions C04_exchangeable_coverage.

Example C04_example :
  let cal : sw := [(10, -(1 # 10)); (30, 2 # 10); (5, 5 # 100); (55, -(3 # 100))] in
  pop_correction cal (8 # 10) = Some (2 # 10) /\ pop_correction cal (5 # 10) = Some (-(3 # 100))
  /\ cnt (covered (1 # 2) [1; 5; 3; 3; 2]) [1; 5; 3; 3; 2] = 4%nat.
Proof. vm_compute. auto. Qed.
