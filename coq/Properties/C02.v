(* C02 -- Every aggregate equals the sum of its units; levels agree with each other. *)
From Coq Require Import ZArith QArith List Bool String.
From Elex Require Import Base.Frame Model.Aggregate Model.BootAgg Proofs.AggregateProofs Proofs.BootAggProofs.
Import ListNotations.
Open Scope Z_scope.

(* point prediction = counted votes of reporting and attributable unexpected units + predictions of nonreporting units *)
Theorem C02_pred_sum : forall (a : aggr) (rows : list urow) (g : key),
  agg_pred a rows g =
  sum_where (kf a) (fun r => match ufr r with FNon => 0 | _ => if attributable a r then ures r else 0 end) g rows
  + sum_where (kf a) (fun r => match ufr r with FNon => upred r | _ => 0 end) g rows.
Proof. exact agg_pred_decomp. Qed.
Print Assumptions C02_pred_sum.

(* nonparametric: the same identity for the lower and upper bound of every level i *)
Theorem C02_nonparam_lower : forall (a : aggr) (i : nat) (rows : list urow) (g : key),
  agg_lo a i rows g = sum_where (kf a) (contrib a (ulo i) ures) g rows.
Proof. exact agg_lo_spec. Qed.
Print Assumptions C02_nonparam_lower.
Theorem C02_nonparam_upper : forall (a : aggr) (i : nat) (rows : list urow) (g : key),
  agg_hi a i rows g = sum_where (kf a) (contrib a (uhi i) ures) g rows.
Proof. exact agg_hi_spec. Qed.
Print Assumptions C02_nonparam_upper.

(* levels agree: a coarse table (c) is the sum of the rows of the finer table (c ++ [i]) that restrict to it --
   for counted votes, predictions and both bounds (vnon = the nonreporting units' column) *)
Theorem C02_levels_agree : forall (c : aggr) (i : nat) (vnon : urow -> Z) (rows : list urow) (g : key),
  has_cls (c ++ [i]) = has_cls c ->
  (forall r, In r rows -> attributable c r = true -> kf c r <> None -> nth i (ukeys r) None <> None) ->
  votes_col c ures rows g + non_col c vnon rows g =
  fold_right (fun g' acc => (if key_eqb (restrict g') g then votes_col (c ++ [i]) ures rows g' + non_col (c ++ [i]) vnon rows g' else 0) + acc)
             0 (agg_keys (c ++ [i]) rows).
Proof. exact levels_agree. Qed.
Print Assumptions C02_levels_agree.

(* interval columns sit on the row of their own group: prediction frame and interval frame share one key column *)
Theorem C02_rows_aligned : forall (a : aggr) (n : nat) (rows : list urow),
  map akey (np_table a n rows) = agg_keys a rows /\
  forall r, In r (np_table a n rows) ->
    aints r = map (fun i => (agg_lo a i rows (akey r), agg_hi a i rows (akey r))) (seq 0 n) /\ apred r = agg_pred a rows (akey r).
Proof.
  intros a n rows. split.
  - unfold np_table. rewrite map_map. simpl. apply map_id.
  - intros r H. unfold np_table in H. apply in_map_iff in H. destruct H as [g [<- _]]. simpl. auto.
Qed.
Print Assumptions C02_rows_aligned.

(* bootstrap: contest-ordered vectors assigned by position land on their own key's row once the contest order is the frame order *)
Theorem C02_boot_rows_aligned : forall (a : aggr) (rows : list brow) (frame_keys : list key),
  contests a rows = frame_keys ->
  boot_turnout_column a rows frame_keys = map (fun g => (g, z_total a rows g)) frame_keys.
Proof. exact boot_rows_aligned. Qed.
Print Assumptions C02_boot_rows_aligned.

Theorem C02_boot_margin : forall (a : aggr) (rows : list brow) (g : key),
  (~ z_total a rows g == 0)%Q -> (safe_div (yz_total a rows g) (z_total a rows g) * z_total a rows g == yz_total a rows g)%Q.
Proof. exact boot_margin_identity. Qed.
Print Assumptions C02_boot_margin.

(* the pre-repair column order (pd.get_dummies of the "_"-joined key) misaligned rows: defect F2, kept as a witness *)
Theorem C02_boot_joined_order_refuted :
  let a := [0; 1; 3]%nat in
  let fk := sort_keys (distinct_keys a ex_rows []) in
  boot_turnout_column_joined a ex_rows fk <> map (fun g => (g, z_total a ex_rows g)) fk
  /\ boot_turnout_column a ex_rows fk = map (fun g => (g, z_total a ex_rows g)) fk.
Proof. exact joined_order_misaligns. Qed.
Print Assumptions C02_boot_joined_order_refuted.
