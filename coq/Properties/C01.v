(* C01 -- Counted votes are conserved and every unit is reported exactly once.
   Model: coq/Model/Aggregate.v (the two outer joins of BaseElectionModel written as the code is).
   The partition of the feed into categories is C09's model (Properties/C09.v); here: the aggregate side. *)
From Coq Require Import ZArith List Bool String.
From Elex Require Import Base.Frame Model.Aggregate Proofs.AggregateProofs.
Import ListNotations.
Open Scope Z_scope.

(* for every aggregate list, every set of unit rows and EVERY group key: the counted-votes column is the sum of
   the live counts of exactly the units attributable to that group ... *)
Theorem C01_counted_votes : forall (a : aggr) (rows : list urow) (g : key),
  agg_results a rows g = sum_where (kf a) (fun r => if attributable a r then ures r else 0) g rows.
Proof. exact agg_results_spec. Qed.
Print Assumptions C01_counted_votes.

(* ... and the reporting column counts (sums the reporting flag of) the same units *)
Theorem C01_reporting_count : forall (a : aggr) (rows : list urow) (g : key),
  agg_reporting a rows g = sum_where (kf a) (fun r => if attributable a r then urep r else 0) g rows.
Proof. exact agg_reporting_spec. Qed.
Print Assumptions C01_reporting_count.

(* a group appears in the table iff some attributable unit belongs to it (groups made only of unexpected units included) *)
Theorem C01_groups : forall (a : aggr) (rows : list urow) (g : key),
  In g (agg_keys a rows) <-> exists r, In r rows /\ attributable a r = true /\ kf a r = Some g.
Proof. exact agg_keys_spec. Qed.
Print Assumptions C01_groups.

Theorem C01_groups_once : forall (a : aggr) (rows : list urow), NoDup (agg_keys a rows).
Proof. exact NoDup_agg_keys. Qed.
Print Assumptions C01_groups_once.

(* no vote dropped, double counted or moved: the column total equals the total over attributable units whose key
   is complete.  (A unit whose key has a missing component is dropped by groupby: finding F10.) *)
Theorem C01_no_vote_lost : forall (a : aggr) (rows : list urow),
  fold_right (fun g acc => agg_results a rows g + acc) 0 (agg_keys a rows) =
  sum_all (fun r => if attributable a r && is_some (kf a r) then ures r else 0) rows.
Proof. exact no_vote_lost. Qed.
Print Assumptions C01_no_vote_lost.

(* non-vacuity: a reporting, a nonreporting and an unexpected unit in one county; state-level table *)
Example C01_example :
  let rows := [ {| uid := "a"; ufr := FRep; ukeys := [Some "S"; None; Some "u"; Some "1"]; urep := 1; ures := 10; upred := 10; uints := [] |};
                {| uid := "b"; ufr := FNon; ukeys := [Some "S"; None; Some "u"; Some "1"]; urep := 0; ures := 3; upred := 9; uints := [] |};
                {| uid := "c"; ufr := FUnx; ukeys := [Some "S"; None; None; Some "1"]; urep := 0; ures := 5; upred := 5; uints := [] |} ]%string in
  agg_keys [0%nat] rows = [["S"%string]] /\ agg_results [0%nat] rows ["S"%string] = 18 /\ agg_reporting [0%nat] rows ["S"%string] = 1
  /\ agg_results [0%nat; 2%nat] rows ["S"; "u"]%string = 13.
Proof. vm_compute. auto. Qed.

(* every unit exactly once, with exactly one category: the unit-table side (model of CombinedData.get_units, see C09) *)
From Elex Require Import Model.Units Proofs.UnitsProofs.
Theorem C01_partition : forall (p : params) (data : list drow) (feed : list frow),
  NoDup (map d_id data) ->
  NoDup (map ekey (unit_table p data feed)) /\
  forall i, In i (map ekey (unit_table p data feed)) <-> In i (map d_id data) \/ In i (ids_of (unexpected data feed)).
Proof. intros p data feed ND. split; [apply table_nodup; exact ND | intros i; apply table_members; exact ND]. Qed.
Print Assumptions C01_partition.
