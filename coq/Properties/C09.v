(* C09 -- Which units feed the model follows the documented eligibility rules exactly. *)
From Coq Require Import ZArith QArith List Bool String.
From Elex Require Import Model.Units Proofs.UnitsProofs Model.Estimandizer Proofs.EstimandizerProofs.
Import ListNotations.

(* the procedural pipeline (filters, isin, concat, drop_duplicates keep-first) assigns every joined unit the
   category and reporting flag of the decision table [classify] -- for every baseline, feed, blocklist, limits,
   policy and every outcome of the outlier models *)
Theorem C09_refines : forall (p : params) (data : list drow) (feed : list frow),
  NoDup (map d_id data) -> forall r, In r data -> lookup_unit (d_id r) (unit_table p data feed) = Some (classify p r).
Proof. exact refines. Qed.
Print Assumptions C09_refines.

(* used to fit  <->  at/above threshold, not blocklisted (unit or state), baseline turnout not zero, turnout factor
   strictly inside the limits, not flagged by an enabled outlier model *)
Theorem C09_fit_iff : forall (p : params) (r : drow),
  used_for_fit p r = true <->
  (p_thr p <= d_pev r /\ blk p r = false /\ ~ d_w r == 0 /\ p_lo p < tf r /\ tf r < p_hi p
   /\ d_flag_t r = false /\ (d_flag_m r && p_margin p = false))%Q.
Proof. exact fit_iff. Qed.
Print Assumptions C09_fit_iff.

Theorem C09_predicted : forall (p : params) (r : drow),
  (d_pev r < p_thr p)%Q -> blk p r = false -> ~ (d_w r == 0)%Q -> classify p r = (Expected, false).
Proof. exact predicted. Qed.
Print Assumptions C09_predicted.

(* first applicable reason wins: [classify] is the ordered decision list itself *)
Theorem C09_first_reason : forall (p : params) (r : drow),
  (blk p r = true -> fst (classify p r) = Blocklisted) /\
  (blk p r = false -> zero_b r = true -> fst (classify p r) = ZeroBaseline) /\
  (blk p r = false -> zero_b r = false -> rep0 p r && strange p r = true -> fst (classify p r) = StrangeTF).
Proof.
  intros p r. unfold classify. repeat split; intros; repeat match goal with H : _ = _ |- _ => rewrite H end; reflexivity.
Qed.
Print Assumptions C09_first_reason.

(* turnout factor = quotient, 0 rather than NaN / inf when the denominator is 0 *)
Theorem C09_turnout_factor : forall r : drow, (~ d_w r == 0 -> tf r * d_w r == d_rw r)%Q /\ (d_w r == 0 -> tf r == 0)%Q.
Proof. exact tf_def. Qed.
Print Assumptions C09_turnout_factor.

(* every unit of the join and every unexpected feed unit is in the unit table, exactly once, and nothing else is *)
Theorem C09_partition : forall (p : params) (data : list drow) (feed : list frow),
  NoDup (map d_id data) ->
  NoDup (map ekey (unit_table p data feed)) /\
  forall i, In i (map ekey (unit_table p data feed)) <-> In i (map d_id data) \/ In i (ids_of (unexpected data feed)).
Proof. intros p data feed ND. split; [apply table_nodup; exact ND | intros i; apply table_members; exact ND]. Qed.
Print Assumptions C09_partition.

Example C09_example :
  let p := {| p_thr := 100; p_lo := 1 # 2; p_hi := 2; p_unit_bl := ["b"%string]; p_postal_bl := []; p_zero_policy := false; p_margin := false |} in
  let base := [ {| b_id := "a"; b_postal := "S"; b_w := 100 |}; {| b_id := "b"; b_postal := "S"; b_w := 50 |};
                {| b_id := "c"; b_postal := "S"; b_w := 10 |}; {| b_id := "d"; b_postal := "S"; b_w := 0 |} ]%string in
  let feed := [ {| f_id := "a"; f_postal := "S"; f_rw := 120; f_pev := 100; f_nan := false |}; {| f_id := "b"; f_postal := "S"; f_rw := 40; f_pev := 100; f_nan := false |};
                {| f_id := "c"; f_postal := "S"; f_rw := 5; f_pev := 100; f_nan := false |}; {| f_id := "d"; f_postal := "S"; f_rw := 3; f_pev := 20; f_nan := false |};
                {| f_id := "z"; f_postal := "S"; f_rw := 7; f_pev := 100; f_nan := false |} ]%string in
  unit_table p (join p [] [] base feed) feed =
  [("a", Expected, true); ("z", Unexpected, false); ("b", Blocklisted, false); ("d", ZeroBaseline, false); ("c", StrangeTF, false)]%string.
Proof. vm_compute. reflexivity. Qed.

(* a baseline unit that is in the feed without results (NaN): under the "drop" policy it leaves the joined data and is passed through
   with the unexpected units -- it does not vanish --, under the "zero" policy it stays with zero results and zero percent *)
Theorem C09_nan_row_passed_through : forall (p : params) (ft fm : list string) (base : list brow) (feed : list frow) (b : brow) (f : frow),
  p_zero_policy p = false -> NoDup (map b_id base) -> In b base ->
  find_feed feed (b_postal b) (b_id b) = Some f -> f_nan f = true ->
  In (b_id b) (ids_of (unexpected (join p ft fm base feed) feed)).
Proof. exact nan_row_passed_through. Qed.
Print Assumptions C09_nan_row_passed_through.

Theorem C09_nan_row_zeroed : forall (p : params) (ft fm : list string) (base : list brow) (feed : list frow) (b : brow) (f : frow),
  p_zero_policy p = true -> In b base ->
  find_feed feed (b_postal b) (b_id b) = Some f -> f_nan f = true ->
  exists r, In r (join p ft fm base feed) /\ d_id r = b_id b /\ (d_rw r == 0)%Q /\ (d_pev r == 0)%Q.
Proof. exact nan_row_zeroed. Qed.
Print Assumptions C09_nan_row_zeroed.

(* derived quantities (Estimandizer), compared with the implementation's columns on every modelled unit of every run:
   the normalised margin of non-negative counts is in [-1, 1], 0 -- not NaN -- when nothing was counted, and margin = normalised
   margin x two-party votes otherwise *)
Theorem C09_normalised_margin_range : forall dem gop : Q, (0 <= dem -> 0 <= gop -> -1 <= dv_nmargin (margin_columns dem gop) <= 1)%Q.
Proof. exact nmargin_range. Qed.
Print Assumptions C09_normalised_margin_range.

Theorem C09_normalised_margin_defined : forall dem gop : Q,
  ((dem + gop == 0 -> dv_nmargin (margin_columns dem gop) == 0) /\
   (~ dem + gop == 0 -> dv_nmargin (margin_columns dem gop) * dv_weights (margin_columns dem gop) == dv_margin (margin_columns dem gop)))%Q.
Proof. intros dem gop. split; [apply nmargin_nothing_counted | apply nmargin_times_weights]. Qed.
Print Assumptions C09_normalised_margin_defined.
