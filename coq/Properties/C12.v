(* C12 -- Estimates are a deterministic function of the arguments. *)
From Coq Require Import List String Bool QArith.
From Elex Require Import Model.ClientSM Model.Estimandizer Proofs.ClientSMProofs Proofs.EstimandizerProofs Gen.Effects.
Import ListNotations.
Open Scope string_scope.

(* if every randomness site is seeded, the result is the same for every state of the process-global generators *)
Theorem C12_seeded : forall (Site Seed Global Draw Out : Type) (seeded : Site -> bool) (from_seed : Seed -> Site -> Draw)
  (from_global : Global -> Site -> Draw) (compute : list Draw -> Out) (sites : list Site) (sd : Seed) (g1 g2 : Global),
  forallb seeded sites = true ->
  exec Site Seed Global Draw Out seeded from_seed from_global compute sites sd g1 = exec Site Seed Global Draw Out seeded from_seed from_global compute sites sd g2.
Proof. exact all_seeded_deterministic. Qed.
Print Assumptions C12_seeded.

(* generated facts: every randomness site on the estimate path (calibration split, bootstrap draws, cross-validation folds,
   bootstrapped calibration scale) derives from the seed setting; get_estimates reads no field of the client before writing
   it; every assignment of self.model in get_estimates constructs a fresh model object *)
Theorem C12_generated_ok :
  forallb (fun s : string * nat * string * bool => snd s) rng_sites = true
  /\ Nat.leb 3 (List.length rng_sites) = true
  /\ reads_before_write_get_estimates = []
  /\ forallb (fun b : bool => b) model_assignments_are_fresh_objects = true
  /\ Nat.leb 1 (List.length model_assignments_are_fresh_objects) = true.
Proof. vm_compute. auto 6. Qed.
Print Assumptions C12_generated_ok.

Theorem C12_history_independent : forall (Args Field Out State : Type) (project : list string -> State -> list Field) (after : Args -> State)
  (body : Args -> list Field -> Out), (forall s, project [] s = []) ->
  forall (s s' : State) (a : Args),
  snd (cstep Args Field Out State project after body [] s (GetEstimates Args a)) = snd (cstep Args Field Out State project after body [] s' (GetEstimates Args a)).
Proof. exact history_independent. Qed.
Print Assumptions C12_history_independent.

Theorem C12_summary_latest_only : forall (Args Field Out State : Type) (project : list string -> State -> list Field) (after : Args -> State)
  (body : Args -> list Field -> Out) (reads : list string) (s : State) (hist : list (call Args)) (a : Args),
  crun Args Field Out State project after body reads s (hist ++ [GetEstimates Args a]) = after a.
Proof. exact latest_only. Qed.
Print Assumptions C12_summary_latest_only.

(* the pre-repair gaussian estimator had an unseeded site (defect F6): the generated-facts obligation is false for it *)
Theorem C12_unseeded_site_refuted :
  forallb (fun s : string * nat * string * bool => snd s) [("math_utils.py", 86%nat, "scipy.stats.bootstrap", false)] = false.
Proof. reflexivity. Qed.
Print Assumptions C12_unseeded_site_refuted.

(* known finding F23 / F23b: the state that is NOT on the client.  add_estimand_baselines works in place on the baseline frame it is
   given (and a call with "data" in save_output writes the processed frame to the local cache).  For a run that requests the margin the
   first pass leaves the two-party vote in baseline_weights, a second pass over the same frame (or over the cached file) leaves the
   turnout there: the two runs agree exactly when no unit has third-party votes.  check_add_baselines compares both passes with the
   implementation on every run. *)
Theorem C12_baseline_pass_twice : forall f : bframe, bf_has_margin f = false ->
  bf_weights (add_baselines_margin f) = Some (bf_dem f + bf_gop f)%Q
  /\ bf_weights (add_baselines_margin (add_baselines_margin f)) = Some (bf_turnout f)
  /\ (weights_eqb (bf_weights (add_baselines_margin (add_baselines_margin f))) (bf_weights (add_baselines_margin f)) = true
      <-> (bf_turnout f == bf_dem f + bf_gop f)%Q).
Proof.
  intros f H. split; [exact (first_pass_two_party f H)|]. split; [exact (second_pass_turnout f) | exact (add_baselines_idempotent_iff f H)].
Qed.
Print Assumptions C12_baseline_pass_twice.

Theorem C12_baseline_frame_reuse_refuted : exists f : bframe, bf_has_margin f = false /\
  weights_eqb (bf_weights (add_baselines_margin (add_baselines_margin f))) (bf_weights (add_baselines_margin f)) = false.
Proof.
  exists {| bf_dem := 1964; bf_gop := 3128; bf_turnout := 5130; bf_weights := None; bf_has_margin := false |}. split; reflexivity.
Qed.
Print Assumptions C12_baseline_frame_reuse_refuted.
