(* C12 -- Estimates are a deterministic function of the arguments. *)
From Coq Require Import List String Bool.
From Elex Require Import Model.ClientSM Proofs.ClientSMProofs Gen.Effects.
Import ListNotations.
Open Scope string_scope.

(* if every randomness site is seeded, the result is the same for every state of the process-global generators *)
Theorem C12_seeded : forall (Site Seed Global Draw Out : Type) (seeded : Site -> bool) (from_seed : Seed -> Site -> Draw)
  (from_global : Global -> Site -> Draw) (compute : list Draw -> Out) (sites : list Site) (sd : Seed) (g1 g2 : Global),
  forallb seeded sites = true ->
  exec Site Seed Global Draw Out seeded from_seed from_global compute sites sd g1 = exec Site Seed Global Draw Out seeded from_seed from_global compute sites sd g2.
Proof. exact all_seeded_deterministic. Qed.
Print Assumptions C12_seeded.

(* generated facts: every randomness site on the estimate path (calibration split, bootstrap draws, cross-validation folds,
   bootstrapped calibration scale) derives from the seed setting; get_estimates reads no field of the client before writing
   it; every assignment of self.model in get_estimates constructs a fresh model object *)
Theorem C12_generated_ok :
  forallb (fun s : string * nat * string * bool => snd s) rng_sites = true
  /\ Nat.leb 3 (List.length rng_sites) = true
  /\ reads_before_write_get_estimates = []
  /\ forallb (fun b : bool => b) model_assignments_are_fresh_objects = true
  /\ Nat.leb 1 (List.length model_assignments_are_fresh_objects) = true.
Proof. vm_compute. auto 6. Qed.
Print Assumptions C12_generated_ok.

Theorem C12_history_independent : forall (Args Field Out State : Type) (project : list string -> State -> list Field) (after : Args -> State)
  (body : Args -> list Field -> Out), (forall s, project [] s = []) ->
  forall (s s' : State) (a : Args),
  snd (cstep Args Field Out State project after body [] s (GetEstimates Args a)) = snd (cstep Args Field Out State project after body [] s' (GetEstimates Args a)).
Proof. exact history_independent. Qed.
Print Assumptions C12_history_independent.

Theorem C12_summary_latest_only : forall (Args Field Out State : Type) (project : list string -> State -> list Field) (after : Args -> State)
  (body : Args -> list Field -> Out) (reads : list string) (s : State) (hist : list (call Args)) (a : Args),
  crun Args Field Out State project after body reads s (hist ++ [GetEstimates Args a]) = after a.
Proof. exact latest_only. Qed.
Print Assumptions C12_summary_latest_only.

(* the pre-repair gaussian estimator had an unseeded site (defect F6): the generated-facts obligation is false for it *)
Theorem C12_unseeded_site_refuted :
  forallb (fun s : string * nat * string * bool => snd s) [("math_utils.py", 86%nat, "scipy.stats.bootstrap", false)] = false.
Proof. reflexivity. Qed.
Print Assumptions C12_unseeded_site_refuted.
