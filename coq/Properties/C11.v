(* C11 -- An unexpected unit only adds its own votes. *)
From Coq Require Import ZArith QArith List Bool String.
From Elex Require Import Base.Frame Model.Aggregate Model.BootAgg Model.ContestEffects Proofs.AggregateProofs Proofs.BootAggProofs
  Proofs.ContestEffectsProofs Gen.Contests.
Import ListNotations.
Open Scope Z_scope.

(* adding one row x to the unexpected frame changes counted votes, prediction and both bounds of group g by
   delta a x g = (votes of x if x is attributable to g, else 0) -- for every aggregate list, every g, every level i *)
Theorem C11_delta : forall a rows x g i, ufr x = FUnx ->
  agg_results a (rows ++ [x]) g = agg_results a rows g + delta a x g /\
  agg_pred a (rows ++ [x]) g = agg_pred a rows g + delta a x g /\
  agg_lo a i (rows ++ [x]) g = agg_lo a i rows g + delta a x g /\
  agg_hi a i (rows ++ [x]) g = agg_hi a i rows g + delta a x g.
Proof. exact unexpected_delta. Qed.
Print Assumptions C11_delta.

Theorem C11_reporting_unchanged : forall a rows x g, ufr x = FUnx -> urep x = 0 ->
  agg_reporting a (rows ++ [x]) g = agg_reporting a rows g.
Proof. exact unexpected_reporting_unchanged. Qed.
Print Assumptions C11_reporting_unchanged.

(* the group set grows by at most the group of x; a group that did not exist is created *)
Theorem C11_groups : forall a rows x g, ufr x = FUnx ->
  (In g (agg_keys a (rows ++ [x])) <-> In g (agg_keys a rows) \/ (attributable a x = true /\ kf a x = Some g)).
Proof. exact unexpected_keys_delta. Qed.
Print Assumptions C11_groups.

Theorem C11_new_group : forall a rows x g i, ufr x = FUnx -> ~ In g (agg_keys a rows) ->
  attributable a x = true -> kf a x = Some g ->
  agg_results a (rows ++ [x]) g = ures x /\ agg_pred a (rows ++ [x]) g = ures x /\
  agg_lo a i (rows ++ [x]) g = ures x /\ agg_hi a i (rows ++ [x]) g = ures x.
Proof. exact unexpected_new_group. Qed.
Print Assumptions C11_new_group.

(* the aggregate functions are total: defined for every aggregate list and every x (Gallina functions are total; stated
   for the record: the table always exists and has one row per key) *)
Theorem C11_total : forall a n rows x, List.length (np_table a n (rows ++ [x])) = List.length (agg_keys a (rows ++ [x])).
Proof. intros. unfold np_table. apply map_length. Qed.
Print Assumptions C11_total.

(* bootstrap: numerator += margin of x, denominator += two-party votes of x, for exactly the groups of x *)
Theorem C11_boot_delta : forall a x rows g,
  (z_total a (rows ++ [x]) g == z_total a rows g + (if okey_is (bkf a x) g then b_predt x else 0))%Q /\
  (yz_total a (rows ++ [x]) g == yz_total a rows g + (if okey_is (bkf a x) g then b_predm x else 0))%Q.
Proof. exact boot_delta. Qed.
Print Assumptions C11_boot_delta.

(* bootstrap, district offices, "leaves every other number unchanged": which contests get a random effect of their own is
   decided from the expected units only.  The frames the three decisions read are re-derived from
   BootstrapElectionModel.compute_bootstrap_errors at every run (Gen/Contests.v); finding F19 was all three = AllUnits *)
Theorem C11_contest_structure_generated :
  (multi_frame, valid_frame, count_frame) = (Expected, Expected, Expected).
Proof. reflexivity. Qed.
Print Assumptions C11_contest_structure_generated.

Theorem C11_contest_effects_independent : forall (e u : list contest),
  selected multi_frame valid_frame count_frame contest_threshold e u
  = selected multi_frame valid_frame count_frame contest_threshold e [].
Proof. exact (expected_only contest_threshold). Qed.
Print Assumptions C11_contest_effects_independent.

Theorem C11_contest_effects_spec : forall (e u : list contest) (c : contest),
  In c (selected multi_frame valid_frame count_frame contest_threshold e u) <->
  In c e /\ (contest_threshold < count c e)%nat /\ multi e (fst c) = true.
Proof. exact (selected_spec contest_threshold). Qed.
Print Assumptions C11_contest_effects_spec.

(* witnesses of finding F19: with the unit count, or the at-large test, taken over all units, one unexpected unit changes the
   contest structure (and with it every prediction) *)
Theorem C11_count_on_all_units_refuted :
  selected Expected Expected AllUnits 10 ex_e ex_u <> selected Expected Expected AllUnits 10 ex_e [].
Proof. exact count_on_all_units_refuted. Qed.
Print Assumptions C11_count_on_all_units_refuted.

Theorem C11_multi_on_all_units_refuted :
  selected AllUnits Expected Expected 10 ex_e2 ex_u2 <> selected AllUnits Expected Expected 10 ex_e2 [].
Proof. exact multi_on_all_units_refuted. Qed.
Print Assumptions C11_multi_on_all_units_refuted.
