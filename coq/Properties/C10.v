(* C10 -- Outstanding and excluded units cannot influence anyone else's estimate. *)
From Coq Require Import ZArith QArith List Bool String.
From Elex Require Import Model.Units Model.NonInterference Proofs.NonInterferenceProofs.
Import ListNotations.

(* for EVERY outlier model and EVERY estimator (any function of the fitting rows): replacing the row of a unit that is
   below the reporting threshold, blocklisted or zero-baseline by a row with other counts (still below / blocklisted /
   zero-baseline) changes neither the outlier flags nor the set of rows any fit sees *)
Theorem C10_fit_rows_unchanged : forall (p : params) (outlier_t outlier_m : list drow -> list string) (pre post : list drow) (u u' : drow),
  cand_unit p u = false -> cand_unit p u' = false ->
  fit_rows drow d_id (cand_unit p) (fit_ok_unit p) outlier_t outlier_m (pre ++ u' :: post)
  = fit_rows drow d_id (cand_unit p) (fit_ok_unit p) outlier_t outlier_m (pre ++ u :: post).
Proof. exact unit_non_interference. Qed.
Print Assumptions C10_fit_rows_unchanged.

Theorem C10_estimates_unchanged : forall (R : Type) (rid : R -> string) (cand : R -> bool) (fit_ok : R -> bool -> bool -> bool)
  (outlier_t outlier_m : list R -> list string),
  (forall r ft fm, fit_ok r ft fm = true -> cand r = true) ->
  forall (Y : Type) (estimate : list R -> Y) (pre post : list R) (u u' : R),
  cand u = false -> cand u' = false ->
  pipeline R rid cand fit_ok outlier_t outlier_m estimate (pre ++ u' :: post) = pipeline R rid cand fit_ok outlier_t outlier_m estimate (pre ++ u :: post).
Proof. intros R rid cand fit_ok ot om H Y est pre post u u'. apply estimates_unchanged. exact H. Qed.
Print Assumptions C10_estimates_unchanged.

(* the units named by the property are exactly such rows *)
Theorem C10_not_candidates : forall (p : params) (r : drow),
  (rep0 p r = false -> cand_unit p r = false) /\ (blk p r = true -> cand_unit p r = false) /\ (zero_b r = true -> cand_unit p r = false).
Proof. intros p r. split; [apply below_threshold_not_candidate | split; [apply blocklisted_not_candidate | apply zero_baseline_not_candidate]]. Qed.
Print Assumptions C10_not_candidates.

(* and the rows fits see are those of the C09 decision table *)
Theorem C10_fit_rows_are_C09 : forall (p : params) (r : drow), fit_ok_unit p r (d_flag_t r) (d_flag_m r) = used_for_fit p r.
Proof. exact fit_ok_unit_is_used_for_fit. Qed.
Print Assumptions C10_fit_rows_are_C09.

(* bootstrap: a partial count only clips the same unit's draws *)
Theorem C10_clip_own_unit_only : forall (U : Type) (bounds : U -> Q -> Q * Q) (raw : U -> Q) (pre post : list (U * Q)) (u : U) (c c' : Q),
  draws U bounds raw (pre ++ (u, c') :: post) = (draws U bounds raw pre ++ clipq (bounds u c') (raw u) :: draws U bounds raw post)%list /\
  draws U bounds raw (pre ++ (u, c) :: post) = (draws U bounds raw pre ++ clipq (bounds u c) (raw u) :: draws U bounds raw post)%list.
Proof. exact clip_own_unit_only. Qed.
Print Assumptions C10_clip_own_unit_only.

(* historical evaluation: results of units not yet reporting are hidden, the model's input does not depend on them *)
Theorem C10_historical : forall (thr : Q) (pre post : list (string * Q * list Q)) (i : string) (pev : Q) (res res' : list Q),
  Qle_bool thr pev = false -> List.length res = List.length res' ->
  hide thr (pre ++ (i, pev, res') :: post) = hide thr (pre ++ (i, pev, res) :: post).
Proof. exact hidden_results_irrelevant. Qed.
Print Assumptions C10_historical.
