(* C06 -- Bootstrap intervals are ordered, nested by level, and margins stay in [-1, 1]. *)
From Coq Require Import ZArith QArith Qminmax List Bool.
From Elex Require Import Base.QRound Model.Ranks Model.NonrepBounds Proofs.RanksProofs Proofs.NonrepBoundsProofs Proofs.GenFormulas Gen.Formulas.
Import ListNotations.
Open Scope Q_scope.

(* quantile ranks are valid ranks for EVERY level in (0,1) and EVERY number of draws >= 2 *)
Theorem C06_ranks_valid : forall (a : Q) (B : Z), 0 < a -> a < 1 -> (2 <= B)%Z ->
  (0 <= lower_rank a B)%Z /\ (lower_rank a B <= upper_rank a B)%Z /\ (upper_rank a B <= B)%Z.
Proof. exact ranks_valid. Qed.
Print Assumptions C06_ranks_valid.

Theorem C06_quantile_levels_valid : forall (a : Q) (B : Z), 0 < a -> a < 1 -> (2 <= B)%Z ->
  0 <= lower_q a B /\ lower_q a B <= upper_q a B /\ upper_q a B <= 1.
Proof. exact quantile_levels_valid. Qed.
Print Assumptions C06_quantile_levels_valid.

Theorem C06_ranks_nested : forall (a b : Q) (B : Z), 0 < a -> a <= b -> b < 1 -> (1 <= B)%Z ->
  (lower_rank b B <= lower_rank a B)%Z /\ (upper_rank a B <= upper_rank b B)%Z.
Proof. exact ranks_nested. Qed.
Print Assumptions C06_ranks_nested.

(* the source's rank formulas are the modelled ones (generated, for all arguments) *)
Theorem C06_source_quantiles : forall (a : Q) (B : Z),
  fst (gen_boot_quantiles a (inject_Z B)) == lower_q a B /\ snd (gen_boot_quantiles a (inject_Z B)) == upper_q a B.
Proof. exact gen_boot_quantiles_ok. Qed.
Print Assumptions C06_source_quantiles.

(* np.quantile with linear interpolation is monotone in the level on sorted draws *)
Theorem C06_quantile_monotone : forall (xs : list Q), sorted_idx xs -> (1 <= Z.of_nat (List.length xs))%Z ->
  forall p q, 0 <= p -> p <= q -> q <= 1 -> quantile_lin xs p <= quantile_lin xs q.
Proof. exact quantile_monotone. Qed.
Print Assumptions C06_quantile_monotone.

(* unit level: lower <= upper for every set of draws; a wider level contains a narrower one *)
Theorem C06_unit_order : forall (a : Q) (B : Z) (pred : Q) (errs : list Q),
  0 < a -> a < 1 -> (2 <= B)%Z -> errs <> [] ->
  (fst (unit_interval a B pred errs) <= snd (unit_interval a B pred errs))%Z.
Proof. exact unit_interval_ordered. Qed.
Print Assumptions C06_unit_order.

Theorem C06_unit_nested : forall (a b : Q) (B : Z) (pred : Q) (errs : list Q),
  0 < a -> a <= b -> b < 1 -> (2 <= B)%Z -> errs <> [] ->
  (fst (unit_interval b B pred errs) <= fst (unit_interval a B pred errs))%Z /\
  (snd (unit_interval a B pred errs) <= snd (unit_interval b B pred errs))%Z.
Proof. exact unit_interval_nested. Qed.
Print Assumptions C06_unit_nested.

(* aggregate level (groups neither called nor stop-listed): lower < prediction < upper, nested by level *)
Theorem C06_agg_straddle : forall (a : Q) (B : Z) (pred : Q) (errs : list Q),
  fst (agg_interval a B pred errs) < pred /\ pred < snd (agg_interval a B pred errs).
Proof. exact agg_interval_straddles. Qed.
Print Assumptions C06_agg_straddle.

Theorem C06_agg_nested : forall (a b : Q) (B : Z) (pred : Q) (errs : list Q),
  0 < a -> a <= b -> b < 1 -> (2 <= B)%Z -> errs <> [] ->
  fst (agg_interval b B pred errs) <= fst (agg_interval a B pred errs) /\
  snd (agg_interval a B pred errs) <= snd (agg_interval b B pred errs).
Proof. exact agg_interval_nested. Qed.
Print Assumptions C06_agg_nested.

(* margins: clipping keeps every draw inside its bounds; the default bounds are inside [-1,1]; a turnout-weighted
   average of unit margins bounded by their turnout is in [-1,1] *)
Theorem C06_clip_range : forall lo hi x : Q, lo <= hi -> lo <= clip lo hi x /\ clip lo hi x <= hi.
Proof. exact clip_range. Qed.
Print Assumptions C06_clip_range.

Theorem C06_margin_bounds_inside : forall f nm : Q, 0 <= f -> f <= 1 -> -1 <= nm -> nm <= 1 ->
  -1 <= y_lower f nm (-1) /\ y_lower f nm (-1) <= y_upper f nm 1 /\ y_upper f nm 1 <= 1.
Proof. exact y_bounds_range. Qed.
Print Assumptions C06_margin_bounds_inside.

Theorem C06_margin_range : forall ms ts : list Q,
  Forall2 (fun m t => - t <= m /\ m <= t) ms ts -> 0 < qsum ts -> -1 <= qsum ms / qsum ts /\ qsum ms / qsum ts <= 1.
Proof. exact weighted_margin_bounded. Qed.
Print Assumptions C06_margin_range.

Example C06_example : lower_rank (9 # 10) 500 = 25%Z /\ upper_rank (9 # 10) 500 = 475%Z /\ lower_rank (7 # 10) 2 = 0%Z /\ upper_rank (7 # 10) 2 = 1%Z.
Proof. vm_compute. auto. Qed.

(* the bounds each draw of a nonreporting unit is clipped to (_generate_nonreporting_bounds, compared with the implementation's
   arrays for every nonreporting unit of every run by check_y_bounds / check_z_bounds): for any expected-vote percentage, any
   naive bounds ylo <= counted margin <= yhi, the margin interval is ordered, inside [ylo, yhi] -- hence inside [-1, 1] for the
   default -1 / 1 -- and contains the margin already counted; the turnout-factor interval is ordered and not negative *)
Theorem C06_margin_clip_bounds : forall ylo yhi pev nm : Q, 0 <= pev -> ylo <= nm -> nm <= yhi ->
  let b := y_bounds ylo yhi pev nm in ylo <= fst b /\ fst b <= nm /\ nm <= snd b /\ snd b <= yhi.
Proof. exact y_clip_bounds_range. Qed.
Print Assumptions C06_margin_clip_bounds.

Theorem C06_margin_clip_bounds_span : forall ylo yhi pev nm : Q, 0 <= pev -> ylo <= yhi ->
  let b := y_bounds ylo yhi pev nm in Qmin ylo nm <= fst b /\ fst b <= snd b /\ snd b <= Qmax yhi nm.
Proof. exact y_clip_bounds_span. Qed.
Print Assumptions C06_margin_clip_bounds_span.

Theorem C06_turnout_clip_bounds : forall zlo zhi err pev tf : Q,
  0 <= pev -> 0 <= tf -> 0 <= err -> zlo <= zhi -> (1 # 100000000) <= zhi ->
  let b := z_bounds zlo zhi err pev tf in fst b <= snd b /\ (0 <= zlo -> 0 <= fst b).
Proof. exact z_bounds_ordered. Qed.
Print Assumptions C06_turnout_clip_bounds.

Example C06_clip_bounds_example :
  Qeq_bool (fst (y_bounds (-1) 1 80 (1 # 2))) (1 # 5) = true /\ Qeq_bool (snd (y_bounds (-1) 1 80 (1 # 2))) (3 # 5) = true
  /\ y_bounds (-1) 1 30 (1 # 2) = (-1, 1) /\ y_bounds (-1) 1 100 (1 # 2) = (-1, 1)
  /\ Qeq_bool (fst (z_bounds (1 # 2) (3 # 2) (1 # 2) 80 1)) (10 # 13) = true /\ Qeq_bool (snd (z_bounds (1 # 2) (3 # 2) (1 # 2) 80 1)) (10 # 3) = true.
Proof. vm_compute. auto 8. Qed.
