(* C03 -- Counted votes are a floor and reported units are final. *)
From Coq Require Import ZArith QArith Qminmax List Bool String.
From Elex Require Import Base.Frame Base.QRound Model.Aggregate Model.Floor Proofs.AggregateProofs Proofs.FloorProofs.
Import ListNotations.
Open Scope Z_scope.

(* unit level: whatever the regression returns (any rational, any sign, any correction), the rounded value is a whole
   number >= the counted votes -- prediction, lower and upper bound alike *)
Theorem C03_unit_floor : forall (raw : Q) (last res : Z), res <= unit_value raw last res.
Proof. exact unit_value_floor. Qed.
Print Assumptions C03_unit_floor.
Theorem C03_unit_lower_floor : forall (raw corr : Q) (last res : Z), res <= unit_lower raw corr last res.
Proof. intros. apply unit_value_floor. Qed.
Print Assumptions C03_unit_lower_floor.
Theorem C03_unit_upper_floor : forall (raw corr : Q) (last res : Z), res <= unit_upper raw corr last res.
Proof. intros. apply unit_value_floor. Qed.
Print Assumptions C03_unit_upper_floor.

(* a partial count that already exceeds the regression's prediction is reported as is *)
Theorem C03_unit_partial_exceeds : forall (raw : Q) (last res : Z),
  (raw * inject_Z last + inject_Z last <= inject_Z res)%Q -> unit_value raw last res = res.
Proof. exact unit_value_is_res_when_below. Qed.
Print Assumptions C03_unit_partial_exceeds.

(* reporting, unexpected and non-modelled units: prediction = lower = upper = counted votes *)
Theorem C03_unit_reported : forall (fr : frame) (res pred : Z) (ints : list (Z * Z)),
  fr <> FNon ->
  fst (unit_cols fr res pred ints) = res /\ forall p, In p (snd (unit_cols fr res pred ints)) -> p = (res, res).
Proof. exact unit_cols_reported. Qed.
Print Assumptions C03_unit_reported.

(* aggregate level, nonparametric: given the unit floors, every group's prediction and bounds are >= its counted votes *)
Theorem C03_agg_floor_pred : forall a rows g,
  (forall r, In r rows -> ufr r = FNon -> ures r <= upred r) -> agg_results a rows g <= agg_pred a rows g.
Proof. exact agg_floor_pred. Qed.
Print Assumptions C03_agg_floor_pred.
Theorem C03_agg_floor_lower : forall a i rows g,
  (forall r, In r rows -> ufr r = FNon -> ures r <= ulo i r) -> agg_results a rows g <= agg_lo a i rows g.
Proof. exact agg_floor_lo. Qed.
Print Assumptions C03_agg_floor_lower.
Theorem C03_agg_floor_upper : forall a i rows g,
  (forall r, In r rows -> ufr r = FNon -> ures r <= uhi i r) -> agg_results a rows g <= agg_hi a i rows g.
Proof. exact agg_floor_hi. Qed.
Print Assumptions C03_agg_floor_upper.

(* gaussian aggregate bounds: for EVERY (lb, ub) the normal-quantile step may produce -- also far below the partial
   counts -- the reported bounds are >= the group's counted votes *)
Theorem C03_agg_floor_gauss : forall a last bounds rows g,
  (qlookup g bounds = None -> non_col a ures rows g = 0) ->
  agg_results a rows g <= gauss_lo a last bounds rows g /\ agg_results a rows g <= gauss_hi a last bounds rows g.
Proof. intros. split; [apply gauss_lo_floor | apply gauss_hi_floor]; assumption. Qed.
Print Assumptions C03_agg_floor_gauss.

(* a group with no nonreporting unit has a zero-width interval at exactly its counted votes *)
Theorem C03_zero_width : forall a i rows g,
  has_key (kf a) g (rows_of FNon rows) = false ->
  agg_pred a rows g = agg_results a rows g /\ agg_lo a i rows g = agg_results a rows g /\ agg_hi a i rows g = agg_results a rows g.
Proof. exact agg_zero_width. Qed.
Print Assumptions C03_zero_width.

Example C03_example : unit_value ((-3) # 4) 101 40 = 40 /\ unit_value (1 # 2) 101 40 = 152 /\ unit_value (1 # 200) 100 7 = 100.
Proof. vm_compute. auto. Qed.
