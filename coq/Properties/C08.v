(* C08 -- The national summary is bounded, ordered, and depends only on the contests. *)
From Coq Require Import ZArith QArith List Bool.
From Elex Require Import Model.Calls Model.Ranks Model.NatSum Proofs.NatSumProofs.
Import ListNotations.
Open Scope Q_scope.

(* lower <= prediction <= upper: both correlation modes, every level (lq), every draw matrix, every column the argsort
   may pick in the uncorrelated mode (jlo, jhi), every call / stop list *)
Theorem C08_order : forall corr lq B jlo jhi cs, nonneg_weights cs ->
  nat_lower corr lq B jlo cs <= nat_pred cs /\ nat_pred cs <= nat_upper corr lq B jhi cs.
Proof. exact order. Qed.
Print Assumptions C08_order.

(* within [base, base + total weight] (stated before the base is added) *)
Theorem C08_range : forall corr lq B jlo jhi cs, nonneg_weights cs ->
  0 <= nat_lower corr lq B jlo cs /\ nat_upper corr lq B jhi cs <= qsum (map c_w cs).
Proof. exact range. Qed.
Print Assumptions C08_range.

Theorem C08_pred_def : forall cs, nat_pred cs = qsum (map (fun c => c_w c * (if Model.Compare.Qltb 0 (c_pred c) then 1 else 0)) cs).
Proof. exact pred_def. Qed.
Print Assumptions C08_pred_def.

Theorem C08_called : forall corr lq B jlo jhi c,
  is_called c = true -> c_stop c = false -> loss corr lq B jlo c = false /\ gain corr lq B jhi c = false.
Proof. exact called_no_uncertainty. Qed.
Print Assumptions C08_called.

Theorem C08_wrong_size : forall corr a B jlo jhi weights cs base,
  nat_sum corr a B jlo jhi weights cs base = None <-> List.length weights <> List.length cs.
Proof. exact wrong_size. Qed.
Print Assumptions C08_wrong_size.

(* a function of the top-level contests only: finer aggregates computed before or after, in any order, do not matter *)
Theorem C08_history : forall ops, m_contests (mrun ops) = last_top ops None.
Proof. exact history_independent. Qed.
Print Assumptions C08_history.

Theorem C08_finer_aggregates_irrelevant : forall ops1 ops2 p,
  (forall o, In o ops2 -> match o with AggregateCall true _ => False | _ => True end) ->
  m_contests (mrun (ops1 ++ AggregateCall true p :: ops2)) = Some p.
Proof. exact finer_aggregates_irrelevant. Qed.
Print Assumptions C08_finer_aggregates_irrelevant.

(* pre-repair witnesses (defects F3 and F4), kept as regression statements about the OLD behaviour:
   - subtraction instead of conjunction lets a loss be -1: lower bound above the prediction *)
Example C08_unrepaired_order_refuted :
  let pred_states := 0%Z in let lower_states := false in
  (pred_states - (if negb lower_states then 1 else 0) < 0)%Z.
Proof. vm_compute. reflexivity. Qed.

Example C08_example :
  let c1 := {| c_w := 10; c_pred := 2 # 100; c_d1 := [1 # 100; 5 # 100]; c_d2 := [0; 0]; c_call := NoCall; c_stop := false |} in
  let c2 := {| c_w := 5; c_pred := -(1 # 100); c_d1 := [0; 0]; c_d2 := [0; 0]; c_call := CallR; c_stop := false |} in
  nat_sum true (9 # 10) 2 0 0 [10; 5] [c1; c2] 3 = Some (13, 3, 13) /\ nat_sum true (9 # 10) 2 0 0 [10] [c1; c2] 3 = None.
Proof. vm_compute. auto. Qed.

(* the order clause for BOTH threshold modes: with the soft threshold the point prediction is a sum of fractional counts
   (expit(T * margin)), but the bounds are still prediction -/+ weights . 0/1 losses / gains, so lower <= prediction <= upper for any
   prediction whatsoever *)
Theorem C08_order_any_threshold : forall (pred : Q) (ws losses gains : list Q),
  Forall (fun w => 0 <= w) ws -> Forall (fun x => 0 <= x) losses -> Forall (fun x => 0 <= x) gains ->
  pred - dot ws losses <= pred /\ pred <= pred + dot ws gains.
Proof. exact order_any_threshold. Qed.
Print Assumptions C08_order_any_threshold.
