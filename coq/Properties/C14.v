(* C14 -- Enough reporting units means an estimate; too few means the dedicated error.
   Only statements, each closed by [exact] of a lemma from Proofs/, with Print Assumptions. *)
From Coq Require Import ZArith QArith Qround List.
From Elex Require Import Base.QRound Model.Split Proofs.SplitProofs Proofs.GenFormulas Gen.Formulas.
Import ListNotations.
Open Scope Q_scope.

(* for every level a in (0,1) and every count n at or above the minimum: >= 1 training row, >= 1 calibration
   row, and the quantile level a*(1+1/n_cal) is strictly below 1 (so the weighted and unweighted quantiles exist) *)
Theorem C14_split_valid : forall (a : Q) (n : Z),
  0 < a -> a < 1 -> (np_minimum a <= n)%Z ->
  (1 <= np_train n a)%Z /\ (1 <= np_ncal n a)%Z /\
  a * (inject_Z (np_ncal n a) + 1) < inject_Z (np_ncal n a).
Proof. exact np_split_valid. Qed.
Print Assumptions C14_split_valid.

Theorem C14_quantile_valid : forall (a : Q) (n : Z),
  0 < a -> a < 1 -> (np_minimum a <= n)%Z ->
  0 < correction_quantile a (np_ncal n a) /\ correction_quantile a (np_ncal n a) < 1.
Proof. exact np_quantile_valid. Qed.
Print Assumptions C14_quantile_valid.

Theorem C14_gaussian : forall n : Z, (7 <= n)%Z -> (4 <= gauss_train n)%Z /\ (3 <= n - gauss_train n)%Z.
Proof. exact gauss_split_valid. Qed.
Print Assumptions C14_gaussian.

(* the dedicated error is raised iff some requested level's minimum exceeds the number of modelled reporting units *)
Theorem C14_gate_iff : forall (n : Z) (mins : list Q) (d : bool),
  (0 <= n)%Z -> (gate n mins d = NotEnough <-> exists m, In m mins /\ inject_Z n < m).
Proof. exact gate_not_enough_iff. Qed.
Print Assumptions C14_gate_iff.

Theorem C14_runs_iff : forall (n : Z) (mins : list Q) (d : bool),
  (0 <= n)%Z -> (gate n mins d = Runs <-> (forall m, In m mins -> m <= inject_Z n) /\ d = false).
Proof. exact gate_runs_iff. Qed.
Print Assumptions C14_runs_iff.

Theorem C14_duplicates : forall (n : Z) (mins : list Q), gate n mins true <> Runs.
Proof. exact gate_duplicate. Qed.
Print Assumptions C14_duplicates.

(* the formulas in the current source are the modelled ones, for all arguments *)
Theorem C14_source_conf_frac : forall (n : Z) (a : Q),
  a < 1 -> 0 < inject_Z n -> gen_np_conf_frac (inject_Z n) a == np_conf_frac n a.
Proof. exact gen_np_conf_frac_ok. Qed.
Print Assumptions C14_source_conf_frac.

Theorem C14_source_minimum : forall a : Q, a < 1 -> gen_np_minimum a == inject_Z (np_minimum a).
Proof. exact gen_np_minimum_ok. Qed.
Print Assumptions C14_source_minimum.

Theorem C14_source_train_rows : forall (n : Z) (f : Q), gen_train_rows (inject_Z n) f == inject_Z (train_rows n f).
Proof. exact gen_train_rows_ok. Qed.
Print Assumptions C14_source_train_rows.

Theorem C14_source_quantile : forall (a : Q) (c : Z), gen_np_correction_quantile a (inject_Z c) == correction_quantile a c.
Proof. exact gen_np_correction_quantile_ok. Qed.
Print Assumptions C14_source_quantile.

Theorem C14_source_gaussian : gen_gauss_conf_frac == gauss_conf_frac /\ forall a, gen_gauss_minimum a == gauss_minimum.
Proof. exact (conj gen_gauss_conf_frac_ok gen_gauss_minimum_ok). Qed.
Print Assumptions C14_source_gaussian.

(* the pre-repair split really was empty at the minimum (defect F7; kept as a regression witness) *)
Theorem C14_unrepaired_train_empty_refuted :
  exists (a : Q) (n : Z), 0 < a /\ a < 1 /\ (np_minimum a <= n)%Z /\ train_rows_unrepaired n (np_conf_frac n a) = 0%Z.
Proof. exact unrepaired_train_empty. Qed.
Print Assumptions C14_unrepaired_train_empty_refuted.

(* non-vacuity: the hypotheses are met by ordinary requests *)
Example C14_example : 0 < 7 # 10 /\ 7 # 10 < 1 /\ (np_minimum (7 # 10) <= 6)%Z /\ np_train 6 (7 # 10) = 1%Z /\ np_ncal 6 (7 # 10) = 5%Z.
Proof. vm_compute. repeat split; congruence. Qed.
