(* C15 -- Gaussian intervals use a group's own calibration if big enough, else its parent. *)
From Coq Require Import ZArith QArith Qminmax List Bool String.
From Elex Require Import Base.Frame Model.GaussAssign Proofs.GaussAssignProofs.
Import ListNotations.

(* for every group structure (groups with 0, few or many calibration units, groups present only among nonreporting units,
   one or several states) and every number of aggregate levels k: the recursion of GaussianModel.fit followed by the matching
   loop gives each group with outstanding units exactly the calibration set named by the rule -- own group if it holds at
   least T = min(10, all calibration units) units, otherwise the parent's, ..., otherwise all calibration units *)
Theorem C15_assign_is_rule : forall (k : nat) (conf : list cal) (nu : list key) (g : key),
  conf <> [] -> In g nu -> assign k conf nu g = Some (rule k conf g).
Proof. exact assign_is_rule. Qed.
Print Assumptions C15_assign_is_rule.

Theorem C15_own_if_big_enough : forall (k : nat) (conf : list cal) (g : key),
  (threshold conf <= cnt_at k conf (prefix k g))%nat -> rule k conf g = (k, ids_at k conf (prefix k g)).
Proof. exact rule_own_if_big_enough. Qed.
Print Assumptions C15_own_if_big_enough.

(* never a statistic of another group at the same level: the chosen set consists of the calibration units sharing the
   matched key prefix with the group, and every finer own-level set was too small *)
Theorem C15_never_sibling : forall (k : nat) (conf : list cal) (g : key),
  let (j, ids) := rule k conf g in
  (j <= k)%nat /\ ids = ids_at j conf (prefix j g) /\ ((j < k)%nat -> (cnt_at (S j) conf (prefix (S j) g) < threshold conf)%nat).
Proof. exact rule_never_sibling. Qed.
Print Assumptions C15_never_sibling.

Theorem C15_formula : forall (ppf : Q -> Q -> Q -> Q) (alpha lo hi ws wss mu sg kp : Q),
  (gauss_lb ppf alpha lo ws wss mu sg kp + ppf ((3 + alpha) * (1 # 4)) (ws * mu) (agg_variance sg kp ws wss) == lo)%Q /\
  (gauss_ub ppf alpha hi ws wss mu sg kp - ppf ((3 + alpha) * (1 # 4)) (ws * mu) (agg_variance sg kp ws wss) == hi)%Q.
Proof. exact formula_shape. Qed.
Print Assumptions C15_formula.

Example C15_example :
  let conf : list cal := map (fun i => (["S"; "a"]%string, i)) (seq 0 12) ++ map (fun i => (["S"; "b"]%string, i)) (seq 12 3) in
  let nu : list key := [["S"; "a"]; ["S"; "b"]; ["S"; "c"]; ["T"; "z"]]%string in
  option_map fst (assign 2 conf nu ["S"; "a"]%string) = Some 2%nat /\ option_map fst (assign 2 conf nu ["S"; "b"]%string) = Some 1%nat
  /\ option_map fst (assign 2 conf nu ["S"; "c"]%string) = Some 1%nat /\ option_map fst (assign 2 conf nu ["T"; "z"]%string) = Some 0%nat.
Proof. vm_compute. auto. Qed.

(* the reported bound of a group (last two steps of get_aggregate_prediction_intervals, compared with the implementation's number
   on every run by check_reported_bound): never below the votes already counted in the group -- whatever the normal quantile --,
   equal to the formula above when that is larger, and lower <= upper whenever the un-floored formula is ordered *)
Theorem C15_reported_bound_floor : forall (upper : bool) (unadjusted wsum ppfv vn rest : Q),
  (vn + rest <= reported_bound upper unadjusted wsum ppfv vn rest)%Q.
Proof. exact reported_bound_floor. Qed.
Print Assumptions C15_reported_bound_floor.

Theorem C15_reported_bound_unfloored : forall (upper : bool) (unadjusted wsum ppfv vn rest : Q),
  (vn <= wsum + (if upper then unadjusted + ppfv else unadjusted - ppfv))%Q ->
  (reported_bound upper unadjusted wsum ppfv vn rest == wsum + (if upper then unadjusted + ppfv else unadjusted - ppfv) + rest)%Q.
Proof. exact reported_bound_unfloored. Qed.
Print Assumptions C15_reported_bound_unfloored.

Theorem C15_reported_bound_ordered : forall (ul uu wsum pl pu vn rest : Q),
  (ul - pl <= uu + pu)%Q -> (reported_bound false ul wsum pl vn rest <= reported_bound true uu wsum pu vn rest)%Q.
Proof. exact reported_bound_ordered. Qed.
Print Assumptions C15_reported_bound_ordered.
