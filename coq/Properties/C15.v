(* C15 -- Gaussian intervals use a group's own calibration if big enough, else its parent. *)
From Coq Require Import ZArith QArith Qminmax List Bool String.
From Elex Require Import Base.Frame Base.Loss Model.GaussAssign Model.WMedian Proofs.GaussAssignProofs Proofs.WMedianProofs.
Import ListNotations.

(* for every group structure (groups with 0, few or many calibration units, groups present only among nonreporting units,
   one or several states) and every number of aggregate levels k: the recursion of GaussianModel.fit followed by the matching
   loop gives each group with outstanding units exactly the calibration set named by the rule -- own group if it holds at
   least T = min(10, all calibration units) units, otherwise the parent's, ..., otherwise all calibration units *)
Theorem C15_assign_is_rule : forall (k : nat) (conf : list cal) (nu : list key) (g : key),
  conf <> [] -> In g nu -> assign k conf nu g = Some (rule k conf g).
Proof. exact assign_is_rule. Qed.
Print Assumptions C15_assign_is_rule.

Theorem C15_own_if_big_enough : forall (k : nat) (conf : list cal) (g : key),
  (threshold conf <= cnt_at k conf (prefix k g))%nat -> rule k conf g = (k, ids_at k conf (prefix k g)).
Proof. exact rule_own_if_big_enough. Qed.
Print Assumptions C15_own_if_big_enough.

(* never a statistic of another group at the same level: the chosen set consists of the calibration units sharing the
   matched key prefix with the group, and every finer own-level set was too small *)
Theorem C15_never_sibling : forall (k : nat) (conf : list cal) (g : key),
  let (j, ids) := rule k conf g in
  (j <= k)%nat /\ ids = ids_at j conf (prefix j g) /\ ((j < k)%nat -> (cnt_at (S j) conf (prefix (S j) g) < threshold conf)%nat).
Proof. exact rule_never_sibling. Qed.
Print Assumptions C15_never_sibling.

Theorem C15_formula : forall (ppf : Q -> Q -> Q -> Q) (alpha lo hi ws wss mu sg kp : Q),
  (gauss_lb ppf alpha lo ws wss mu sg kp + ppf ((3 + alpha) * (1 # 4)) (ws * mu) (agg_variance sg kp ws wss) == lo)%Q /\
  (gauss_ub ppf alpha hi ws wss mu sg kp - ppf ((3 + alpha) * (1 # 4)) (ws * mu) (agg_variance sg kp ws wss) == hi)%Q.
Proof. exact formula_shape. Qed.
Print Assumptions C15_formula.

Example C15_example :
  let conf : list cal := map (fun i => (["S"; "a"]%string, i)) (seq 0 12) ++ map (fun i => (["S"; "b"]%string, i)) (seq 12 3) in
  let nu : list key := [["S"; "a"]; ["S"; "b"]; ["S"; "c"]; ["T"; "z"]]%string in
  option_map fst (assign 2 conf nu ["S"; "a"]%string) = Some 2%nat /\ option_map fst (assign 2 conf nu ["S"; "b"]%string) = Some 1%nat
  /\ option_map fst (assign 2 conf nu ["S"; "c"]%string) = Some 1%nat /\ option_map fst (assign 2 conf nu ["T"; "z"]%string) = Some 0%nat.
Proof. vm_compute. auto. Qed.

(* the reported bound of a group (last two steps of get_aggregate_prediction_intervals, compared with the implementation's number
   on every run by check_reported_bound): never below the votes already counted in the group -- whatever the normal quantile --,
   equal to the formula above when that is larger, and lower <= upper whenever the un-floored formula is ordered *)
Theorem C15_reported_bound_floor : forall (upper : bool) (unadjusted wsum ppfv vn rest : Q),
  (vn + rest <= reported_bound upper unadjusted wsum ppfv vn rest)%Q.
Proof. exact reported_bound_floor. Qed.
Print Assumptions C15_reported_bound_floor.

Theorem C15_reported_bound_unfloored : forall (upper : bool) (unadjusted wsum ppfv vn rest : Q),
  (vn <= wsum + (if upper then unadjusted + ppfv else unadjusted - ppfv))%Q ->
  (reported_bound upper unadjusted wsum ppfv vn rest == wsum + (if upper then unadjusted + ppfv else unadjusted - ppfv) + rest)%Q.
Proof. exact reported_bound_unfloored. Qed.
Print Assumptions C15_reported_bound_unfloored.

Theorem C15_reported_bound_ordered : forall (ul uu wsum pl pu vn rest : Q),
  (ul - pl <= uu + pu)%Q -> (reported_bound false ul wsum pl vn rest <= reported_bound true uu wsum pu vn rest)%Q.
Proof. exact reported_bound_ordered. Qed.
Print Assumptions C15_reported_bound_ordered.

(* the centre of a calibration group (math_utils.weighted_median on the group's scores, weights = baseline + 1 divided by their
   sum; compared with mu_lower_bound / mu_upper_bound of every captured model row by check_wmedian): whatever the order of the
   rows, for positive total weight it is defined, has at most half of the weight strictly below it and at most half strictly
   above it, and therefore minimises the weighted absolute deviation of the group's scores *)
Theorem C15_centre_is_weighted_median : forall l : list obs, nonneg l -> (0 < total l)%Q ->
  exists m, weighted_median l = Some m /\ (2 * below l m <= total l)%Q /\ (2 * above l m <= total l)%Q.
Proof. exact weighted_median_wmed. Qed.
Print Assumptions C15_centre_is_weighted_median.

Theorem C15_centre_minimises_deviation : forall l : list obs, nonneg l -> (0 < total l)%Q ->
  exists m, weighted_median l = Some m /\ forall b, (loss l m <= loss l b)%Q.
Proof. exact weighted_median_minimises. Qed.
Print Assumptions C15_centre_minimises_deviation.

(* the variance inflation (math_utils.compute_inflate on the baselines of the calibration group; compared by check_inflate):
   sum of squares <= square of the sum <= n times the sum of squares, hence a number in [1/n, 1] *)
Theorem C15_inflation_bounds : forall w : list Q, (forall x, In x w -> (0 <= x)%Q) ->
  (ssq w <= qsum w * qsum w)%Q /\ (qsum w * qsum w <= inject_Z (Z.of_nat (List.length w)) * ssq w)%Q /\
  ((0 < qsum w)%Q -> (0 <= inflate w)%Q /\ (inflate w <= 1)%Q).
Proof.
  intros w H. split; [exact (ssq_le_sq w H)|]. split; [exact (sq_le_n_ssq w)|].
  intros P. split; [exact (inflate_nonneg w P) | exact (inflate_le_one w H P)].
Qed.
Print Assumptions C15_inflation_bounds.

Example C15_centre_example :
  weighted_median [(1, 1); (2, 2); (3, 3)]%Q = Some (5 # 2)%Q /\ weighted_median [(3, 1); (1, 2)]%Q = Some 1%Q
  /\ weighted_median [(1, 3); (1, 1); (2, 2)]%Q = Some 2%Q.
Proof. vm_compute. auto. Qed.
