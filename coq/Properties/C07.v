(* C07 -- Race calls and call-stops are always honoured; contradictory calls are rejected. *)
From Coq Require Import ZArith QArith List Bool String.
From Elex Require Import Model.Calls Proofs.CallsProofs.
Import ListNotations.
Open Scope Q_scope.

(* the adjustment does not look at the interval level: the statements hold at every level, for every prediction and
   every pair of bounds the bootstrap may have produced (any sign) *)
Theorem C07_lhs : forall (p : Q) (stop : bool) (b : Q * Q),
  5 # 1000 <= adjust_pred CallL p /\ (stop = false -> 0 <= fst (adjust_bounds CallL stop b)).
Proof. exact called_lhs. Qed.
Print Assumptions C07_lhs.

Theorem C07_rhs : forall (p : Q) (stop : bool) (b : Q * Q),
  adjust_pred CallR p <= - (5 # 1000) /\ (stop = false -> snd (adjust_bounds CallR stop b) <= 0).
Proof. exact called_rhs. Qed.
Print Assumptions C07_rhs.

Theorem C07_stop : forall b : Q * Q, fst (adjust_bounds NoCall true b) <= 0 /\ 0 <= snd (adjust_bounds NoCall true b).
Proof. exact stopped_contains_zero. Qed.
Print Assumptions C07_stop.

Theorem C07_untouched : forall (p : Q) (b : Q * Q), adjust_pred NoCall p = p /\ adjust_bounds NoCall false b = b.
Proof. exact untouched. Qed.
Print Assumptions C07_untouched.

Theorem C07_reject : forall lhs rhs contests : list string,
  format_called lhs rhs contests = None <->
  ((exists c, In c lhs /\ In c rhs) \/ (exists c, In c lhs /\ ~ In c contests) \/ (exists c, In c rhs /\ ~ In c contests)).
Proof. exact reject_iff. Qed.
Print Assumptions C07_reject.

Theorem C07_reject_stops : forall stops contests : list string,
  format_stops stops contests = None <-> exists c, In c stops /\ ~ In c contests.
Proof. exact stops_reject_iff. Qed.
Print Assumptions C07_reject_stops.

Example C07_example :
  adjust_pred CallL (-(3 # 100)) == 5 # 1000 /\ fst (adjust_bounds CallL false (-(1 # 10), 1 # 100)) == 5 # 1000
  /\ adjust_bounds NoCall true (2 # 100, 5 # 100) = (-(5 # 1000), 5 # 100)
  /\ format_called ["AA"; "BB"]%string ["BB"]%string ["AA"; "BB"; "CC"]%string = None.
Proof. vm_compute. repeat split; auto. Qed.
