(* C18 -- Nothing is persisted unless asked; results saved before a too-few-units error. *)
From Coq Require Import List String Bool.
From Elex Require Import Model.Persist Proofs.PersistProofs Gen.Persist Proofs.PersistGen.
Import ListNotations.
Open Scope string_scope.

Theorem C18_nothing : forall c : cfg,
  c_results c = false -> c_data c = false -> c_config c = false -> c_conf c = false -> writes c = [].
Proof. exact nothing. Qed.
Print Assumptions C18_nothing.

Theorem C18_results : forall c : cfg,
  (In PutLive (writes c) <-> c_results c = true /\ c_local c = false) /\
  (c_gate_ok c = true -> forall t, In (PutTable t) (writes c) <-> (c_results c = true /\ c_local c = false /\ In t (c_tables c))).
Proof. exact results_iff. Qed.
Print Assumptions C18_results.

Theorem C18_before_gate : forall c : cfg,
  c_results c = true -> c_local c = false -> c_gate_ok c = false ->
  In PutLive (writes c) /\ In PutLiveCounties (writes c) /\ forall t, ~ In (PutTable t) (writes c).
Proof. exact live_results_before_gate. Qed.
Print Assumptions C18_before_gate.

Theorem C18_conformalization : forall c : cfg,
  In PutGaussConf (writes c) <-> (c_conf c = true /\ c_estimator c = Gaussian /\ c_gate_ok c = true /\ (0 < c_gauss_fits c)%nat).
Proof. exact conformalization_iff. Qed.
Print Assumptions C18_conformalization.

Theorem C18_local_only : forall c : cfg,
  c_results c = false -> c_conf c = false -> forall e, In e (writes c) -> is_remote e = false.
Proof. exact local_only. Qed.
Print Assumptions C18_local_only.

(* generated facts, re-derived from the source at every run *)
(* every remote key template is <root>/<election id>/... and no literal part contains whitespace *)
Theorem C18_keys : forallb (fun t => template_ok (snd t)) key_templates = true /\ Nat.leb 5 (List.length key_templates) = true.
Proof. vm_compute. auto. Qed.
Print Assumptions C18_keys.

(* the client's writes are guarded by "not local and results requested"; live results are written before the gate,
   prediction tables after it; the save flags are exactly membership tests on save_output *)
Theorem C18_guards :
  forallb site_ok client_write_sites = true /\ has_site "get_estimates" "data" = true /\ has_site "get_estimates" "self.results_handler" = true
  /\ flags_ok = true /\ gauss_guards_ok = true.
Proof. vm_compute. auto 6. Qed.
Print Assumptions C18_guards.

Example C18_example :
  writes {| c_results := true; c_data := false; c_config := false; c_conf := true; c_local := false; c_estimator := Gaussian; c_gate_ok := true;
            c_tables := ["state_data"; "unit_data"]; c_gauss_fits := 1 |}
  = [PutLive; PutLiveCounties; PutGaussConf; PutGaussBounds; PutTable "state_data"; PutTable "unit_data"].
Proof. reflexivity. Qed.
