(* C05 -- With no covariates the model is uniform swing by the weighted median. *)
From Coq Require Import ZArith QArith Qminmax List Bool.
From Elex Require Import Base.QRound Base.Loss Model.Floor Model.Conformal Model.Estimandizer Proofs.ConformalProofs Proofs.EstimandizerProofs.
Import ListNotations.
Open Scope Q_scope.

(* a point with less than half of the weight strictly on either side minimises the weighted absolute loss, uniquely *)
Theorem C05_wmedian_minimises : forall (l : list obs) (m : Q), nonneg l -> strict_wmedian l m = true -> forall x, loss l m <= loss l x.
Proof. exact wmedian_minimises. Qed.
Print Assumptions C05_wmedian_minimises.

Theorem C05_minimiser_is_wmedian : forall (l : list obs) (m : Q), nonneg l ->
  2 * below l m < total l -> 2 * above l m < total l -> forall b, loss l b <= loss l m -> b == m.
Proof. exact strict_half_unique. Qed.
Print Assumptions C05_minimiser_is_wmedian.

(* for EVERY solver that returns a minimiser of the intercept-only median regression (weights = baseline + 1, targets =
   relative change of the modelled reporting units): the coefficient is the weighted median m and each nonreporting unit is
   predicted at baseline * (1 + m), floored at its partial count, rounded *)
Theorem C05_uniform_swing : forall (l : list obs) (m b : Q) (last res : Z),
  nonneg l -> strict_wmedian l m = true -> (forall x, loss l b <= loss l x) ->
  b == m /\ unit_value b last res = swing_pred m last res
  /\ swing_pred m last res = rhe (Qmax ((1 + m) * inject_Z last) (inject_Z res)).
Proof. exact uniform_swing. Qed.
Print Assumptions C05_uniform_swing.

Example C05_example :
  let l : list obs := [(101, 1 # 10); (51, -(2 # 10)); (201, 3 # 100); (31, 4 # 10)] in
  find_wmedian l = Some (3 # 100) /\ swing_pred (3 # 100) 1001 400 = 1031%Z /\ swing_pred (3 # 100) 101 400 = 400%Z.
Proof. vm_compute. auto. Qed.

(* "baseline = previous result + 1": the denominator of the relative change is positive for every non-negative previous result, the
   residual is the relative change, and scaling the baseline by (1 + residual) gives the count back -- which is why a common factor
   1 + m applied to baseline + 1 is a uniform swing *)
Theorem C05_baseline_plus_one : forall results baseline : Q, 0 <= baseline ->
  0 < last_election baseline /\ residual results baseline * last_election baseline == results - last_election baseline
  /\ (1 + residual results baseline) * last_election baseline == results.
Proof.
  intros results baseline H. destruct (residual_spec results baseline H) as [H1 H2].
  repeat split; [exact H1 | exact H2 | apply residual_inverse; exact H].
Qed.
Print Assumptions C05_baseline_plus_one.
