(* C13 -- What is reported for one request does not depend on what else was requested. *)
From Coq Require Import List String Bool QArith.
From Elex Require Import Model.Schema Proofs.SchemaProofs Gen.Schema.
Import ListNotations.

(* merging the per-estimand frames of ANY duplicate-free list of estimands keeps every key and category column once and
   un-suffixed, provided the columns the frames share are all merge keys *)
Theorem C13_schema : forall (common on : list string) (specific : string -> list string),
  (forall c, In c common -> In c on) ->
  (forall e c, In c (specific e) -> ~ In c common /\ ~ In c on) ->
  (forall e e' c, e <> e' -> In c (specific e) -> ~ In c (specific e')) ->
  forall (e0 : string) (es : list string), NoDup (e0 :: es) ->
  merge_all on (map (frame_cols common specific) (e0 :: es)) = (common ++ specific e0 ++ flat_map specific es)%list.
Proof. exact merged_schema. Qed.
Print Assumptions C13_schema.

(* generated facts: in the current source the shared columns of the per-estimand unit frames ARE all merge keys, the
   aggregate frames are merged on their aggregate key columns plus the reporting count, and every merge is an inner merge *)
Theorem C13_source_merge_keys :
  subsetb unit_common_cols unit_merge_on = true
  /\ String.eqb agg_merge_on_expr "key_columns + ['reporting']" = true
  /\ String.eqb agg_key_columns_expr "[col for col in self.estimates[agg][0].columns if col in AGGREGATE_ORDER]" = true
  /\ forallb (fun m : string * string => String.eqb (fst m) "'inner'" && String.eqb (snd m) "merge_on") merge_calls = true
  /\ forallb (fun c : string * string => negb (String.eqb (fst c) "const") || String.eqb (snd c) "reporting") agg_frame_cols = true.
Proof. vm_compute. auto 6. Qed.
Print Assumptions C13_source_merge_keys.

(* the gaussian estimator keeps the unadjusted unit bounds per level: an aggregate computation for level a reads level a's
   bounds whatever other levels were requested (before or after) *)
Theorem C13_level_cache : forall (B : Type) (pre post : list (Q * B)) (a : Q) (b : B),
  (forall x, In x post -> Qeq_bool (fst x) a = false) ->
  crun (unit_ops B (pre ++ (a, b) :: post) ++ [AggIntervals a])%list [] = [(a, Some b)].
Proof. exact reads_own_level. Qed.
Print Assumptions C13_level_cache.

(* witnesses of the two historical defects: category column outside the merge keys (F13), single-slot cache (pre 1.0.8) *)
Theorem C13_unrepaired_schema_refuted :
  In "unit_category_x"%string
     (merge_cols ["postal_code"; "reporting"; "geographic_unit_fips"]%string
                 ["postal_code"; "geographic_unit_fips"; "pred_dem"; "reporting"; "unit_category"; "results_dem"]%string
                 ["postal_code"; "geographic_unit_fips"; "pred_turnout"; "reporting"; "unit_category"; "results_turnout"]%string).
Proof. vm_compute. auto 10. Qed.
Print Assumptions C13_unrepaired_schema_refuted.
