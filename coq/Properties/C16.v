(* C16 -- Fitting and prediction design matrices are aligned and identifiable. *)
From Coq Require Import ZArith QArith List Bool String Permutation.
From Elex Require Import Model.Featurizer Proofs.FeaturizerProofs.
Import ListNotations.
Open Scope Q_scope.

(* same columns, same order, for every assignment of categorical values to reporting / nonreporting / unexpected units *)
Theorem C16_same_columns : forall p rows r r',
  List.length (fitting_row p rows r) = List.length (active_features p rows) /\
  List.length (holdout_row p rows r') = List.length (active_features p rows).
Proof. exact same_columns. Qed.
Print Assumptions C16_same_columns.

Theorem C16_order : forall l,
  Permutation (sort_features l) l /\
  exists a b c, sort_features l = a ++ b ++ c /\ Forall (fun s => key_of s = 0%nat) a /\ Forall (fun s => key_of s = 1%nat) b /\ Forall (fun s => key_of s = 2%nat) c
                /\ a = filter (fun s => Nat.eqb (key_of s) 0) l.
Proof. exact sort_features_spec. Qed.
Print Assumptions C16_order.

Theorem C16_intercept_first : forall p rows,
  hd_error (active_features p rows) = Some "intercept"%string /\ hd_error (complete_features p rows) = Some "intercept"%string.
Proof. exact intercept_first. Qed.
Print Assumptions C16_intercept_first.

(* every fitted dummy column is non-constant on the fitting rows ... *)
Theorem C16_identifiable : forall p i rows lv, In lv (active p i rows) ->
  (exists r, In r rows /\ f_fit r = true /\ indicator p i r lv == 1) /\ (exists r, In r rows /\ f_fit r = true /\ indicator p i r lv == 0).
Proof. exact identifiable. Qed.
Print Assumptions C16_identifiable.

(* ... and exactly one observed level per fixed effect is absorbed by the intercept *)
Theorem C16_one_level_absorbed : forall p i rows, (exists r, In r rows /\ f_fit r = true) ->
  exists a, absorbed p i rows = Some a /\ In a (observed p i rows) /\ ~ In a (active p i rows)
            /\ forall lv, In lv (observed p i rows) -> lv = a \/ In lv (active p i rows).
Proof. exact one_level_absorbed. Qed.
Print Assumptions C16_one_level_absorbed.

Theorem C16_seen_level : forall p i rows r lv, In (level_of p i r) (observed p i rows) -> holdout_value p rows i r lv = indicator p i r lv.
Proof. exact seen_level. Qed.
Print Assumptions C16_seen_level.

Theorem C16_unseen_level : forall p i rows r lv, ~ In (level_of p i r) (observed p i rows) ->
  holdout_value p rows i r lv == 1 / inject_Z (Z.of_nat (List.length (active p i rows)) + 1).
Proof. exact unseen_level. Qed.
Print Assumptions C16_unseen_level.

Theorem C16_centering : forall p rows j, p_center p = true -> rows <> [] -> qsum (map (feat_value p rows j) rows) == 0.
Proof. exact centred_mean_zero. Qed.
Print Assumptions C16_centering.

Theorem C16_other : forall (sel : list string) (lv : string), ~ In lv sel -> pooled (Some sel) lv = "other"%string.
Proof. exact other_pooling. Qed.
Print Assumptions C16_other.

Theorem C16_state_copies : forall p rows st,
  In st (live_sep p rows) <-> In st (p_sep p) /\ exists r, In r rows /\ f_rep r = true /\ f_state r = st.
Proof. exact state_copies_only_reporting. Qed.
Print Assumptions C16_state_copies.

Example C16_example :
  let p := {| p_fes := [("cls", None)]; p_feats := ["x"]; p_sep := []; p_center := true |}%string in
  let r3 := {| f_fit := false; f_rep := false; f_state := "S"; f_levels := ["c"]; f_feats := [2] |}%string in
  let rows := [ {| f_fit := true; f_rep := true; f_state := "S"; f_levels := ["b"]; f_feats := [1] |};
                {| f_fit := true; f_rep := true; f_state := "S"; f_levels := ["a"]; f_feats := [3] |}; r3 ]%string in
  active_features p rows = ["intercept"; "x"; "cls_b"]%string /\ complete_features p rows = ["intercept"; "x"; "cls_b"; "cls_c"]%string
  /\ map Qred (holdout_row p rows r3) = [1; 0; 1 # 2].
Proof. vm_compute. auto. Qed.
