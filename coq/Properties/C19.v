(* C19 -- Version retrieval returns exactly the requested window despite paging and faults. *)
From Coq Require Import ZArith List Bool.
From Elex Require Import Model.Paging Proofs.PagingProofs.
Import ListNotations.
Open Scope Z_scope.

(* however the newest-first listing is cut into pages (any number of pages, any page sizes), with or without a
   window start / end, the recursive paging with its early stop returns exactly the versions inside the window *)
Theorem C19_window : forall (pages : list page) (start stop : option Z),
  pages_wf pages -> sorted_desc (concat (map fst pages)) ->
  list_versions pages start stop = filter (in_window start stop) (concat (map fst pages)).
Proof. exact window. Qed.
Print Assumptions C19_window.

Theorem C19_once : forall (pages : list page) (start stop : option Z),
  pages_wf pages -> sorted_desc (concat (map fst pages)) -> NoDup (map v_id (concat (map fst pages))) ->
  NoDup (map v_id (list_versions pages start stop)).
Proof. exact once. Qed.
Print Assumptions C19_once.

(* every sample-th listed version: positions 0, k, 2k, ... *)
Theorem C19_sampling : forall (k : nat) (l : list ver) (j : nat), (1 <= k)%nat -> nth_error (every_nth k l) j = nth_error l (j * k)%nat.
Proof. exact every_nth_spec. Qed.
Print Assumptions C19_sampling.

(* retrieval: the sampled versions minus the failed downloads, each stamped with its own version's time *)
Theorem C19_get : forall (listed : list ver) k fails tz st,
  get listed k fails tz = Rows st ->
  st = map (fun v => (v_id v, v_lm v + tz)) (filter (fun v => negb (zmem (v_id v) fails)) (every_nth k listed)) /\ st <> [].
Proof. exact get_rows. Qed.
Print Assumptions C19_get.

Theorem C19_skip_failures : forall (listed : list ver) k fails tz,
  listed <> [] -> (exists v, In v (every_nth k listed) /\ zmem (v_id v) fails = false) -> exists st, get listed k fails tz = Rows st.
Proof. exact get_some_success. Qed.
Print Assumptions C19_skip_failures.

Theorem C19_none : forall k fails tz, get [] k fails tz = NoData.
Proof. exact get_none. Qed.
Print Assumptions C19_none.

Example C19_example :
  let vs := map (fun i => {| v_id := i; v_lm := 100 - i |}) [1; 2; 3; 4; 5; 6; 7] in
  let pages := [(firstn 3 vs, true); (firstn 3 (skipn 3 vs), true); (skipn 6 vs, false)] in
  map v_id (list_versions pages (Some 96) (Some 98)) = [2; 3; 4] /\ requests pages (Some 96) = 2%nat.
Proof. vm_compute. auto. Qed.
