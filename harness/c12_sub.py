"""Subprocess entry for C12: runs a scenario (a list of get_estimates calls, optionally a national summary) and prints a
canonical digest of the LAST call's tables.  Invoked with different PYTHONHASHSEED values."""
import hashlib
import json
import sys


def canon(tables):
    out = {}
    for name, df in tables.items():
        cols = list(df.columns)
        rows = []
        for rec in df.to_dict("records"):
            rows.append([("nan" if isinstance(v, float) and v != v else (float(v).hex() if isinstance(v, float) else str(v))) for v in (rec[c] for c in cols)])
        out[name] = hashlib.sha256(json.dumps([cols, rows]).encode()).hexdigest()
    return out


def run_scenario(sc):
    import numpy as np

    from harness import run_impl

    client = run_impl._imp()
    mc = client.ModelClient() if sc.get("shared_client", True) else None
    last = None
    frame = None
    if sc.get("shared_base_frame"):
        # a caller that loads the baseline once and hands the very same DataFrame object to every call
        frame = run_impl.frames(sc["cases"][-1])[0]
    if sc.get("local_cache"):
        # the documented cache: a call with "data" in save_output writes the baseline next to the working directory, later calls that
        # are not given a frame read it from there
        import copy
        import os
        import shutil
        import tempfile

        wd = tempfile.mkdtemp(prefix="cwd_", dir=os.path.dirname(os.path.abspath(sys.argv[1])))
        cwd = os.getcwd()
        os.chdir(wd)
        try:
            first = copy.deepcopy(sc["cases"][-1])
            first["params"]["save_output"] = ["data"]
            r0 = run_impl.run_case(first, client_obj=client.ModelClient())
            second = copy.deepcopy(sc["cases"][-1])
            second["params"]["save_output"] = []
            last = run_impl.run_case(second, client_obj=client.ModelClient(), want_client=True, preprocessed_none=True) if r0["ok"] else dict(r0, client=None)
        finally:
            os.chdir(cwd)
            shutil.rmtree(wd, ignore_errors=True)
        sc = dict(sc, cases=[])
    feed_frame = None
    if sc.get("shared_feed_frame"):
        # a caller that keeps ONE live-results DataFrame: an earlier call for the other kind of estimand (margin <-> vote counts) was given
        # this very object, then the call that is compared
        import copy

        final_ = sc["cases"][-1]
        feed_frame = run_impl.frames(final_)[1]
        warm = copy.deepcopy(final_)
        wp = warm["params"]
        if wp["pi_method"] == "bootstrap":
            wp.update({"pi_method": "nonparametric", "estimands": ["turnout"], "features": [], "fixed_effects": {}, "model_parameters": {}})
        else:
            wp.update({"pi_method": "bootstrap", "estimands": ["margin"], "features": ["baseline_normalized_margin"], "fixed_effects": {},
                       "model_parameters": {"B": 10, "seed": 1}})
            if "postal_code" not in wp["aggregates"]:
                wp["aggregates"] = list(wp["aggregates"]) + ["postal_code"]
        for k_ in ("lhs_called_contests", "rhs_called_contests", "stop_model_call"):
            wp.pop(k_, None)
        run_impl.run_case(warm, client_obj=client.ModelClient(), feed_frame=feed_frame)
    for k, case in enumerate(sc["cases"]):
        if sc.get("perturb_global_rng"):
            np.random.seed(1000 + 17 * k + sc.get("rng_salt", 0))
            import random as _r

            _r.seed(5 + k + sc.get("rng_salt", 0))
        obj = mc if mc is not None else client.ModelClient()
        r = run_impl.run_case(case, client_obj=obj, want_client=True, base_frame=frame, feed_frame=feed_frame, defaults=sc.get("defaults"))
        last = r
    res = {"ok": last["ok"], "exc": last["exc"]}
    if last["ok"]:
        res["tables"] = canon(last["tables"])
        if sc.get("nat_sum"):
            try:
                # the contests of the run (a feed unit of a state outside the configuration makes one more)
                st = last["tables"].get("state_data")
                states = sorted(set(st["postal_code"])) if st is not None else sorted(sc["cases"][-1]["states"])
                if sc.get("nat_sum_history"):
                    # earlier summaries on the same client (other weights / base / levels, then the same arguments): the last one must not care
                    last["client"].get_national_summary_votes_estimates({s: 1.0 for s in states}, 0, [0.6])
                    last["client"].get_national_summary_votes_estimates({s: float(i + 2) for i, s in enumerate(states)}, 3, [0.7, 0.9])
                    last["client"].get_national_summary_votes_estimates(None, 1, [0.99, 0.5])
                if sc.get("nat_unit_weights"):
                    # every contest counts 1: many draws tie on the national total
                    df = last["client"].get_national_summary_votes_estimates(None, 0, [0.5, 0.6, 0.7, 0.8, 0.9, 0.95, 0.99])
                else:
                    df = last["client"].get_national_summary_votes_estimates({s: float(i + 2) for i, s in enumerate(states)}, 3, [0.7, 0.9])
                res["nat_sum"] = canon({"nat_sum": df})
            except Exception as e:  # noqa: BLE001
                res["nat_sum_exc"] = (type(e).__name__, str(e)[:200])
    return res


if __name__ == "__main__":
    sc = json.load(open(sys.argv[1]))
    print("C12RESULT " + json.dumps(run_scenario(sc)))
