"""Shared machinery of bin/check: translator, Coq build, Coq-side evaluation of correspondence cases,
violations / known findings, evidence files."""
import hashlib
import json
import multiprocessing as mp
import os
import re
import subprocess
import sys
import time
from concurrent.futures import ThreadPoolExecutor
from fractions import Fraction

VERIF = os.path.dirname(os.path.dirname(os.path.abspath(__file__)))
REPO = os.environ.get("VERIF_REPO", "/repo")
COQ = os.path.join(VERIF, "coq")
BUILD = os.path.join(VERIF, "build")
EVID = os.path.join(VERIF, "evidence")
REPLAYS = os.path.join(EVID, "replays")
NPROC = int(os.environ.get("VERIF_NPROC", "14"))

TRUSTED_COMMON = [
    "Coq 8.16.1 kernel (Debian build) incl. its VM (vm_compute); no native_compute; no extraction",
    "tools/translate.py (Python-ast translator of formulas / literal facts into coq/Gen/*.v)",
    "correspondence harness: generators, encoders (float.hex -> exact Q), shard runner; comparators are Gallina",
    "hand-written Gallina models (coq/Model/*.v) are validated against /repo/src only by the correspondence runs",
]


# ------------------------------------------------------------------ Coq literals
def zlit(n):
    n = int(n)
    return f"({n})%Z"


def qlit(x):
    """exact rational literal of an int / Fraction / finite float"""
    if isinstance(x, bool):
        raise TypeError
    if isinstance(x, int):
        fr = Fraction(x)
    elif isinstance(x, Fraction):
        fr = x
    else:
        x = float(x)
        if x != x or x in (float("inf"), float("-inf")):
            raise ValueError("non-finite")
        fr = Fraction(x)  # exact
    return f"(Qmake ({fr.numerator})%Z ({fr.denominator})%positive)"


def slit(s):
    s = str(s)
    if '"' in s or any(ord(c) < 32 or ord(c) > 126 for c in s):
        raise ValueError(f"string not encodable: {s!r}")
    return f'"{s}"%string'


def llit(items):
    return "[" + "; ".join(items) + "]"


def blit(b):
    return "true" if b else "false"


def olit(x, enc):
    return "None" if x is None else f"(Some {enc(x)})"


# ------------------------------------------------------------------ process helpers
def run(cmd, timeout, cwd=None, env=None):
    try:
        p = subprocess.run(cmd, cwd=cwd, env=env, stdout=subprocess.PIPE, stderr=subprocess.STDOUT, timeout=timeout, text=True)
        return p.returncode, p.stdout
    except subprocess.TimeoutExpired as e:
        return 124, (e.stdout or "") + f"\nTIMEOUT after {timeout}s"


def pmap(func, items, procs=None, chunksize=1):
    procs = procs or NPROC
    items = list(items)
    if not items:
        return []
    if procs <= 1 or len(items) == 1:
        return [func(x) for x in items]
    ctx = mp.get_context("fork")
    with ctx.Pool(min(procs, len(items))) as pool:
        return pool.map(func, items, chunksize=chunksize)


# ------------------------------------------------------------------ translator + build
_translate_cache = None


def translate():
    global _translate_cache
    if _translate_cache is not None:
        return _translate_cache
    rc, out = run([sys.executable, os.path.join(VERIF, "tools", "translate.py"), os.path.join(REPO, "src"), os.path.join(COQ, "Gen")], 120)
    rep = {"rc": rc, "problems": [], "files": {}}
    try:
        rep.update(json.loads(out.strip().splitlines()[-1]))
    except Exception:
        rep["problems"].append("translator crashed: " + out[-400:])
    _translate_cache = rep
    return rep


def ensure_makefile():
    mk = os.path.join(COQ, "Makefile")
    cp = os.path.join(COQ, "_CoqProject")
    files = []
    for d in ("Base", "Model", "Gen", "Proofs", "Properties"):
        dd = os.path.join(COQ, d)
        if os.path.isdir(dd):
            files += sorted(f"{d}/{f}" for f in os.listdir(dd) if f.endswith(".v"))
    text = "-Q . Elex\n-arg -w -arg -notation-overridden,-deprecated-hint-without-locality,-deprecated-instance-without-locality\n" + "\n".join(files) + "\n"
    old = open(cp).read() if os.path.exists(cp) else None
    if old != text or not os.path.exists(mk):
        with open(cp, "w") as fh:
            fh.write(text)
        rc, out = run(["coq_makefile", "-f", "_CoqProject", "-o", "Makefile"], 120, cwd=COQ)
        if rc != 0:
            raise RuntimeError("coq_makefile failed: " + out)


def build(target=None, timeout=1500):
    """make one Properties/Cxx.vo (or everything). returns (ok, log)"""
    ensure_makefile()
    cmd = ["make", "-j", "16"]
    if target:
        cmd.append(target)
    rc, out = run(["timeout", str(timeout)] + cmd, timeout + 30, cwd=COQ)
    return rc == 0, out


def theorem_report(prop):
    """Compile Properties/<prop>.v freshly (its dependencies must be built) to collect Print Assumptions."""
    src = os.path.join(COQ, "Properties", f"{prop}.v")
    text = open(src).read()
    names = re.findall(r"^Print Assumptions (\w+)\.", text, flags=re.M)
    thms = re.findall(r"^(?:Theorem|Lemma)\s+(\w+)", text, flags=re.M)
    vo = os.path.join(COQ, "Properties", f"{prop}.vo")
    if os.path.exists(vo):
        os.remove(vo)
    ok, out = build(f"Properties/{prop}.vo", timeout=900)
    # split output into one block per Print Assumptions
    blocks = []
    cur = None
    for line in out.splitlines():
        if line.startswith("Closed under the global context"):
            blocks.append([])
            cur = None
        elif line.startswith("Axioms:"):
            cur = []
            blocks.append(cur)
        elif cur is not None:
            if re.match(r"^\S", line) and ":" in line or line.startswith(" "):
                if line.startswith("make") or line.startswith("COQC") or line.startswith("File "):
                    cur = None
                else:
                    cur.append(line.strip())
            else:
                cur = None
    res = []
    for i, n in enumerate(names):
        ax = blocks[i] if i < len(blocks) else None
        res.append({"theorem": n, "assumptions": "Closed under the global context" if ax == [] else (ax if ax is not None else "NOT CHECKED")})
    return {"ok": ok, "theorems": thms, "printed": res, "log_tail": out[-3000:] if not ok else ""}


STDLIB_AXIOMS = ["functional_extensionality_dep", "Classical_Prop.classic", "proof_irrelevance", "sig_forall_dec", "JMeq_eq", "Eqdep.Eq_rect_eq.eq_rect_eq",
                 "propositional_extensionality", "constructive_indefinite_description", "sig_not_dec"]

FORBIDDEN = re.compile(r"\b(Admitted|admit|Axiom|Parameter|Conjecture|Abort All)\b|Unset Guard|bypass_check|Admit Obligations|type-in-type|impredicative-set")


def forbidden_scan():
    hits = []
    for d, _, fs in os.walk(COQ):
        for f in fs:
            if f.endswith(".v") and "/cases" not in d:
                p = os.path.join(d, f)
                txt = open(p, encoding="utf-8").read()
                txt_nc = re.sub(r"\(\*.*?\*\)", "", txt, flags=re.S)
                for m in FORBIDDEN.finditer(txt_nc):
                    hits.append(f"{os.path.relpath(p, VERIF)}: {m.group(0)}")
    return hits


# ------------------------------------------------------------------ Coq-side evaluation of cases
def coq_eval(prop, imports, exprs, shard=250, timeout=600, tag="x"):
    """Evaluates each Gallina expression (any printable closed term, normally bool) with vm_compute.
    returns list of strings (the printed normal forms) or None where evaluation failed."""
    d = os.path.join(BUILD, "cases", prop)
    os.makedirs(d, exist_ok=True)
    for f in os.listdir(d):
        if f.startswith(f"{tag}_"):
            os.remove(os.path.join(d, f))
    shards = [exprs[i:i + shard] for i in range(0, len(exprs), shard)]
    files = []
    for k, sh in enumerate(shards):
        p = os.path.join(d, f"{tag}_{k:04d}.v")
        with open(p, "w") as fh:
            fh.write(imports + "\n")
            for j, e in enumerate(sh):
                fh.write(f"Definition case_{j} := {e}.\nEval vm_compute in case_{j}.\n")
        files.append(p)

    def one(p):
        rc, out = run(["timeout", str(timeout), "coqc", "-Q", COQ, "Elex", "-w", "-notation-overridden", p], timeout + 20, cwd=d)
        return rc, out

    with ThreadPoolExecutor(max_workers=NPROC) as ex:
        outs = list(ex.map(one, files))
    results = []
    errors = []
    for (rc, out), sh in zip(outs, shards):
        vals = re.findall(r"^\s+= (.*?)\n\s+: ", out, flags=re.S | re.M)
        vals = [" ".join(v.split()) for v in vals]
        if rc != 0 or len(vals) != len(sh):
            errors.append(out[-1500:])
            vals = vals + [None] * (len(sh) - len(vals))
        results += vals[: len(sh)]
    for f in files:
        base = f[:-2]
        for ext in (".vo", ".vok", ".vos", ".glob"):
            if os.path.exists(base + ext):
                os.remove(base + ext)
        aux = os.path.join(os.path.dirname(f), "." + os.path.basename(base) + ".aux")
        if os.path.exists(aux):
            os.remove(aux)
    return results, errors


# ------------------------------------------------------------------ known findings
def load_known():
    p = os.path.join(VERIF, "known_findings.json")
    if not os.path.exists(p):
        return []
    return json.load(open(p))["findings"]


# ------------------------------------------------------------------ a check run
class Check:
    def __init__(self, prop, tier, seed):
        self.prop = prop
        self.tier = tier
        self.seed = seed
        self.t0 = time.time()
        self.violations = []  # dicts: what, replay (payload), tags(dict), no_input(bool)
        self.known_hits = {}
        self.coverage = {}
        self.assumptions = []
        self.samples = []
        self.fingerprints = set()
        self.evaluations = 0
        self.notes = {}
        self.obligations = 0
        self.discharged = 0
        self.thm = None

    # -- proof side
    def proofs(self):
        tr = translate()
        self.notes["translator_problems"] = tr.get("problems", [])
        rep = theorem_report(self.prop)
        self.thm = rep
        bad = forbidden_scan()
        n = len(rep["printed"])
        self.obligations += max(n, 1)
        closed = 0
        if rep["ok"] and not bad:
            for t in rep["printed"]:
                a = t["assumptions"]
                if a == "Closed under the global context":
                    closed += 1
                elif isinstance(a, list) and a and all(any(x in line for x in STDLIB_AXIOMS) or line.startswith(":") or "->" in line or "forall" in line or line.startswith("(") or line.startswith("{")
                                                      for line in a):
                    closed += 1
                    self.assumptions.append(f"theorem {t['theorem']} depends on standard-library axioms: " + " ".join(a)[:300])
        self.notes["print_assumptions"] = rep["printed"]
        if self.tier == "thorough" and rep["ok"]:
            # independent re-check of the compiled property file and everything it depends on
            rc, out = run(["timeout", "1500", "coqchk", "-o", "-silent", "-Q", COQ, "Elex", f"Elex.Properties.{self.prop}"], 1600, cwd=COQ)
            m = re.search(r"\* Axioms:(.*?)\n\s*\n\* Constants", out, flags=re.S)
            self.notes["coqchk"] = {"rc": rc, "axioms": " ".join((m.group(1) if m else out[-300:]).split())}
            if rc != 0:
                closed = 0
                self.notes["coqchk"]["failed"] = out[-500:]
        self.discharged += closed
        if bad:
            self.notes["forbidden"] = bad
        return rep["ok"] and not bad, rep

    # -- case bookkeeping
    def count(self, fingerprint, nontrivial=True, sample=None):
        self.evaluations += 1
        if nontrivial:
            self.fingerprints.add(json.dumps(fingerprint, sort_keys=True, default=str))
        if sample is not None and len(self.samples) < 4:
            self.samples.append(sample)

    def violation(self, what, replay, tags=None, no_input=False):
        self.violations.append({"what": what, "replay": replay, "tags": tags or {}, "no_input": no_input})

    # -- finishing
    def finish(self, rule, extra=None, exhaustive=None):
        from harness import findings

        known = load_known()
        unknown = []
        lines = []
        for v in self.violations:
            hit = None
            for k in known:
                if k.get("status") != "known" or k["property"] != self.prop:
                    continue
                if findings.matches(k, v):
                    hit = k
                    break
            if hit is not None:
                self.known_hits.setdefault(hit["id"], hit)
            else:
                unknown.append(v)
        for k in self.known_hits.values():
            lines.append(f"KNOWN-FINDING: property={self.prop} {k['what']}")
        os.makedirs(REPLAYS, exist_ok=True)
        for f in os.listdir(REPLAYS):
            if f.startswith(self.prop + "-"):
                os.remove(os.path.join(REPLAYS, f))
        vio_lines = []
        seen = set()
        for v in sorted(unknown, key=lambda v: v["no_input"]):
            payload = json.dumps({"property": self.prop, "what": v["what"], "replay": v["replay"], "tags": v["tags"],
                                  "replay_cmd": f"bin/check {self.prop} --replay <this file>"}, indent=1, default=str, sort_keys=True)
            h = hashlib.sha1(payload.encode()).hexdigest()[:12]
            if h in seen:
                continue
            seen.add(h)
            path = os.path.join(REPLAYS, f"{self.prop}-{h}.json")
            with open(path, "w") as fh:
                fh.write(payload)
            vio_lines.append(f"VIOLATION property={self.prop} replay={path}" + (" no-failing-input-found" if v["no_input"] else ""))
            if len(vio_lines) >= 5:
                break
        os.makedirs(BUILD, exist_ok=True)
        with open(os.path.join(BUILD, f"violations_{self.prop}.json"), "w") as fh:
            json.dump([{"what": v["what"], "tags": v["tags"], "replay": v["replay"], "no_input": v["no_input"]} for v in unknown], fh, indent=1, default=str)
        cov = {
            "obligations": self.obligations,
            "discharged": self.discharged,
            "checker_cmd": f"cd /verif/coq && make Properties/{self.prop}.vo   (coqc 8.16.1, full .vo build; Print Assumptions under every theorem)",
            "trusted_base": TRUSTED_COMMON + self.assumptions,
            "evaluations": self.evaluations,
            "distinct_nontrivial": len(self.fingerprints),
            "rule": rule,
            "samples": self.samples or [{"note": "no generated case this run"}],
            "print_assumptions": self.notes.get("print_assumptions", []),
            "translator_problems": self.notes.get("translator_problems", []),
            "coqchk": self.notes.get("coqchk", "thorough tier only"),
            "known_findings_reported": sorted(self.known_hits),
        }
        if exhaustive is not None:
            cov["exhaustive"] = exhaustive
        if extra:
            cov.update(extra)
        ev = {
            "property_id": self.prop,
            "tier": self.tier,
            "seed": self.seed,
            "level": "proof",
            "coverage": cov,
            "assumptions": self.assumptions,
            "wall_s": round(time.time() - self.t0, 2),
            "violations": len(unknown),
        }
        os.makedirs(EVID, exist_ok=True)
        with open(os.path.join(EVID, f"{self.prop}.json"), "w") as fh:
            json.dump(ev, fh, indent=1, default=str)
        for ln in lines:
            print(ln)
        for ln in vio_lines:
            print(ln)
        print(f"[{self.prop}] tier={self.tier} seed={self.seed} theorems={self.discharged}/{self.obligations} "
              f"cases={self.evaluations} distinct={len(self.fingerprints)} known={len(self.known_hits)} violations={len(unknown)} "
              f"wall={ev['wall_s']}s")
        return 1 if unknown else 0
