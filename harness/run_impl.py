"""Runs the implementation (/repo/src) on a synthetic case. Must be imported under /venv/bin/python."""
import logging
import os
import sys
import warnings

os.environ.setdefault("APP_ENV", "local")
os.environ.setdefault("DATA_ENV", "dev")
os.environ.setdefault("MODEL_S3_BUCKET", "verif-bucket")
os.environ.setdefault("MODEL_S3_PATH_ROOT", "verif-root")
os.environ.setdefault("AWS_DEFAULT_REGION", "us-east-1")
os.environ.setdefault("AWS_ACCESS_KEY_ID", "x")
os.environ.setdefault("AWS_SECRET_ACCESS_KEY", "x")
REPO_SRC = os.environ.get("VERIF_REPO_SRC", "/repo/src")
if REPO_SRC not in sys.path:
    sys.path.insert(0, REPO_SRC)

import numpy as np  # noqa: E402
import pandas as pd  # noqa: E402

from harness import gen  # noqa: E402

_imported = False


def _imp():
    global _imported
    import elexmodel.client as client

    if not _imported:
        assert os.path.realpath(client.__file__).startswith(os.path.realpath(REPO_SRC)), client.__file__
        logging.getLogger("elexmodel").setLevel(logging.CRITICAL)
        logging.getLogger("elexmodel").disabled = True
        logging.disable(logging.CRITICAL)
        warnings.filterwarnings("ignore", category=FutureWarning)
        warnings.filterwarnings("ignore", category=RuntimeWarning)
        warnings.filterwarnings("ignore", category=DeprecationWarning)
        _imported = True
    return client


STR_COLS = {"geographic_unit_fips": str, "county_fips": str, "district": str, "postal_code": str}


def frames(case):
    base = pd.DataFrame(case["baseline"])
    feed = pd.DataFrame(case["feed"])
    for c in STR_COLS:
        if c in base.columns:
            base[c] = base[c].astype(str)
        if c in feed.columns:
            feed[c] = feed[c].astype(str)
    if len(feed) == 0:
        feed = pd.DataFrame(columns=["postal_code", "geographic_unit_fips", "results_dem", "results_gop", "results_turnout", "percent_expected_vote"])
    return base, feed


# the defaults of ModelClient.get_estimates as documented by its signature / its keyword lookups at the pinned commit (written out here on purpose: a
# default that moves in the code must not move in the harness with it)
DOCUMENTED_DEFAULTS = {"prediction_intervals": [0.7, 0.9], "percent_reporting_threshold": 100, "geographic_unit_type": "county", "features": [], "fixed_effects": {},
                       "pi_method": "nonparametric", "handle_unreporting": "drop", "lhs_called_contests": [], "rhs_called_contests": [], "stop_model_call": []}
DOCUMENTED_MP_DEFAULTS = {"turnout_factor_lower": 0.5, "turnout_factor_upper": 2.0, "outlier_z_threshold": 2.0, "fit_margin_outlier_model": True,
                          "fit_turnout_outlier_model": True, "robust": False, "lambda_": 0, "seed": 4191, "beta": 1, "winsorize": False}


def default_aggregates_doc(office):
    return ["postal_code", "district", "unit"] if office in ("H", "Y", "Z") else ["postal_code", "unit"]


def run_case(case, client_obj=None, extra_kwargs=None, want_client=False, omit_model_parameters=False, base_frame=None, feed_frame=None, preprocessed_none=False, config_none=False, defaults=None):
    """returns dict: {'ok': bool, 'tables': {name: DataFrame}, 'exc': (type name, msg)}

    base_frame: pass this very DataFrame object as preprocessed_data (a caller that keeps one baseline frame across polls)
    instead of a fresh copy built from case['baseline']"""
    client = _imp()
    base, feed = frames(case)
    if feed_frame is not None:
        feed = feed_frame
    p = case["params"]
    mc = client_obj or client.ModelClient()
    kwargs = dict(
        features=list(p.get("features", [])),
        aggregates=list(p["aggregates"]),
        fixed_effects=p.get("fixed_effects", {}),
        pi_method=p["pi_method"],
        save_output=p.get("save_output", []),
        handle_unreporting=p.get("handle_unreporting", "drop"),
    )
    for k in ("lhs_called_contests", "rhs_called_contests", "stop_model_call"):
        if k in p:
            kwargs[k] = p[k]
    if extra_kwargs:
        kwargs.update(extra_kwargs)
    out = {"ok": False, "tables": None, "exc": None}
    top = {"prediction_intervals": list(p["prediction_intervals"]), "percent_reporting_threshold": p["percent_reporting_threshold"], "geographic_unit_type": case["unit_type"]}
    mp_arg = None if omit_model_parameters else dict(p.get("model_parameters", {}))
    if defaults == "omit":
        # everything that has its documented default value is left out of the call ...
        for k_, v_ in list(top.items()):
            if v_ == DOCUMENTED_DEFAULTS[k_]:
                top.pop(k_)
        for k_ in list(kwargs):
            if k_ in DOCUMENTED_DEFAULTS and kwargs[k_] == DOCUMENTED_DEFAULTS[k_]:
                kwargs.pop(k_)
        if kwargs.get("aggregates") is not None and list(kwargs["aggregates"]) == default_aggregates_doc(case["office"]):
            kwargs.pop("aggregates")
        if mp_arg is not None:
            mp_arg = {k_: v_ for k_, v_ in mp_arg.items() if not (k_ in DOCUMENTED_MP_DEFAULTS and v_ == DOCUMENTED_MP_DEFAULTS[k_])}
            if not mp_arg:
                mp_arg = None
    elif defaults == "spell" and mp_arg is not None:
        # ... or every documented default of the model parameters is written out
        for k_, v_ in DOCUMENTED_MP_DEFAULTS.items():
            if k_ in ("seed", "lambda_") and p["pi_method"] == "bootstrap":
                continue            # the bootstrap has defaults of its own for these two (seed 0, regularisation chosen by cross-validation)
            mp_arg.setdefault(k_, v_)
    try:
        res = mc.get_estimates(
            feed,
            gen.ELECTION_ID,
            case["office"],
            list(p["estimands"]),
            raw_config=(None if config_none else gen.make_config(case)),
            preprocessed_data=(None if preprocessed_none else (base_frame if base_frame is not None else base.copy())),
            **top,
            **({} if mp_arg is None else {"model_parameters": mp_arg}),
            **kwargs,
        )
        out["ok"] = True
        out["tables"] = {k: v.copy() for k, v in res.items()}
    except Exception as e:  # noqa: BLE001
        out["exc"] = (type(e).__name__, str(e)[:500])
        import traceback

        tb = traceback.format_exc()
        out["tb"] = tb[-1500:]
        out["tb_frames"] = [ln.strip() for ln in tb.splitlines() if "elexmodel" in ln][-8:]
    if want_client:
        out["client"] = mc
    return out


def get_units(case, feed_frame=None):
    """CombinedDataHandler.get_units on a case -> (reporting, nonreporting, unexpected) frames
    feed_frame: pass this very DataFrame object as the live feed (a caller that keeps one feed frame and updates it in place)"""
    _imp()
    from elexmodel.handlers.config import ConfigHandler
    from elexmodel.handlers.data.CombinedData import CombinedDataHandler
    from elexmodel.handlers.data.PreprocessedData import PreprocessedDataHandler

    base, feed = frames(case)
    if feed_frame is not None:
        feed = feed_frame
    p = case["params"]
    cfg = ConfigHandler(gen.ELECTION_ID, config=gen.make_config(case))
    eb = cfg.get_estimand_baselines(case["office"], p["estimands"])
    pre = PreprocessedDataHandler(gen.ELECTION_ID, case["office"], case["unit_type"], p["estimands"], eb, data=base.copy())
    pre.data = pre.select_rows_in_states(pre.data, cfg.get_states(case["office"]))
    data = CombinedDataHandler(pre.data, feed, p["estimands"], case["unit_type"], handle_unreporting=p.get("handle_unreporting", "drop"))
    mp = p.get("model_parameters", {})
    return data.get_units(
        p["percent_reporting_threshold"],
        mp.get("turnout_factor_lower", 0.5),
        mp.get("turnout_factor_upper", 2.0),
        mp.get("unit_blocklist", []),
        mp.get("postal_code_blocklist", []),
        mp.get("fit_margin_outlier_model", True),
        mp.get("fit_turnout_outlier_model", True),
        mp.get("outlier_z_threshold", 2.0),
        p["aggregates"],
    )


class SolverCapture:
    """Wraps elexsolver.QuantileRegressionSolver.fit/predict from the outside (no change to /repo).

    records: list of dicts {"op": "fit"|"predict", ...}; stub(op, index, args, real_result) may replace a predict result;
    fault(fit_index, kwargs) may raise to inject a solver failure."""

    def __init__(self, stub=None, fault=None, keep_arrays=True, inner_fault=None):
        self.records = []
        self.stub = stub
        self.fault = fault
        # inner_fault(j, in_retry, tau): called before every per-quantile solve (_fit / _fit_with_regularization), j counts the
        # solves of first attempts only; may raise to make the solver fail in the middle of a multi-quantile fit
        self.inner_fault = inner_fault
        self.in_retry = False
        self.n_inner = 0
        self.keep = keep_arrays
        self.n_fit = 0
        self.n_pred = 0

    def __enter__(self):
        _imp()
        from elexsolver.QuantileRegressionSolver import QuantileRegressionSolver as Q

        self.Q = Q
        self.orig_fit = Q.fit
        self.orig_predict = Q.predict
        cap = self

        def fit(slf, x, y, *args, **kwargs):
            i = cap.n_fit
            cap.n_fit += 1
            rec = {"op": "fit", "i": i, "kwargs": {k: (v if not hasattr(v, "shape") else None) for k, v in kwargs.items()}, "nargs": len(args),
                   "n": int(np.asarray(x).shape[0]), "p": int(np.asarray(x).shape[1]) if np.asarray(x).ndim > 1 else 1}
            if cap.keep:
                rec["x"] = np.array(x, dtype=float).copy()
                rec["y"] = np.array(y, dtype=float).copy()
                rec["weights"] = np.array(kwargs["weights"], dtype=float).copy() if kwargs.get("weights") is not None else None
            cap.records.append(rec)
            if cap.fault is not None:
                cap.fault(i, rec, kwargs)
            cap.in_retry = kwargs.get("normalize_weights", True) is False
            r = cap.orig_fit(slf, x, y, *args, **kwargs)
            rec["coefficients"] = np.array(slf.coefficients, dtype=float).copy()
            return r

        def predict(slf, x, *args, **kwargs):
            i = cap.n_pred
            cap.n_pred += 1
            r = cap.orig_predict(slf, x, *args, **kwargs)
            if cap.stub is not None:
                r2 = cap.stub(i, x, r)
                if r2 is not None:
                    r = r2
            rec = {"op": "predict", "i": i, "n": int(np.asarray(x).shape[0])}
            if cap.keep:
                rec["out"] = np.array(r, dtype=float).copy()
            cap.records.append(rec)
            return r

        def make_inner(orig):
            def inner(slf, x, y, weights, tau, *args, **kwargs):
                if cap.inner_fault is not None:
                    j = cap.n_inner
                    if not cap.in_retry:
                        cap.n_inner += 1
                    cap.inner_fault(j, cap.in_retry, tau)
                return orig(slf, x, y, weights, tau, *args, **kwargs)
            return inner

        self.orig_inner = {}
        for name in ("_fit", "_fit_with_regularization"):
            if hasattr(Q, name):
                self.orig_inner[name] = getattr(Q, name)
                setattr(Q, name, make_inner(self.orig_inner[name]))
        Q.fit = fit
        Q.predict = predict
        return self

    def __exit__(self, *exc):
        self.Q.fit = self.orig_fit
        self.Q.predict = self.orig_predict
        for name, f in self.orig_inner.items():
            setattr(self.Q, name, f)
        return False


def emit_inaccuracy_warning():
    """Issues the solver's 'Solution may be inaccurate' warning exactly as the installed cvxpy would from inside
    elexsolver.QuantileRegressionSolver: through cvxpy's own helper (which attributes the warning to the first frame outside
    cvxpy) called from a frame whose module is elexsolver.QuantileRegressionSolver.  Whether this becomes an exception is up to
    the warnings filters the library installed -- that is the behaviour under test."""
    _imp()
    import elexsolver.QuantileRegressionSolver as qmod

    ns = qmod.__dict__
    if "_verif_emit_inaccurate" not in ns:
        src = (
            "def _verif_emit_inaccurate():\n"
            "    msg = ('Solution may be inaccurate. Try another solver, adjusting the solver settings, or solve with '\n"
            "           'verbose=True for more information.')\n"
            "    try:\n"
            "        from cvxpy.utilities.warn import warn as _w\n"
            "    except ImportError:\n"
            "        import warnings as _wa\n"
            "        _wa.warn_explicit(msg, UserWarning, 'cvxpy/problems/problem.py', 1, module='cvxpy.problems.problem', registry={})\n"
            "        return\n"
            "    _w(msg)\n"
        )
        exec(src, ns)  # noqa: S102  (defined in the solver module's namespace so that the frame's module is the solver's)
    ns["_verif_emit_inaccurate"]()
