"""Synthetic election generator shared by all correspondence checks.

Every random choice is drawn from one random.Random(seed) so that a case replays exactly.
A case is a plain JSON-able dict:
  {office, unit_type, states, baseline:[row...], feed:[row...], params:{...}}
"""
import random

ELECTION_ID = "2099-11-03_USA_G"

CLASSES = ["urban", "suburban", "rural"]
STATE_POOL = ["AA", "BB", "CC", "DD", "EE", "FF", "GG", "HH", "JJ", "KK"]
# district ids deliberately contain prefix pairs ("1" / "10")
DISTRICT_POOL = ["1", "10", "2", "3"]


def make_config(case):
    aggs = ["postal_code", "county_classification", "county_fips", "unit"]
    fes = ["postal_code", "county_fips", "county_classification"]
    if case["office"] in ("H", "Y", "Z") or any("district" in b for b in case["baseline"]):
        aggs = ["postal_code", "county_classification", "county_fips", "district", "unit"]
        fes = fes + ["district"]
    return {
        ELECTION_ID: [
            {
                "office": case["office"],
                "states": case["states"],
                "geographic_unit_types": ["county", "precinct", "county-district", "precinct-district"],
                "historical_election": [],
                "features": ["feat_a", "feat_b"],
                "aggregates": aggs,
                "fixed_effect": fes,
                "baseline_pointer": case.get("baseline_pointer") or {"dem": "dem", "gop": "gop", "turnout": "turnout"},
            }
        ]
    }


def unit_id(unit_type, district, county, k):
    if unit_type == "county":
        return county
    if unit_type == "precinct":
        return f"{county}_{k}"
    if unit_type == "county-district":
        return f"{district}_{county}"
    return f"{district}_{county}_{k}"


def gen_election(rng, n_states=None, n_units=None, office=None, unit_type=None, with_district=None, tossup=False, n_districts=None, extra_district=False):
    """baseline rows only"""
    if office is None:
        office = rng.choice(["S", "P", "H"]) if with_district is None else ("H" if with_district else rng.choice(["S", "P"]))
    district = office in ("H", "Y", "Z")
    if unit_type is None:
        unit_type = rng.choice(["county-district", "precinct-district"]) if district else rng.choice(["county", "precinct"])
    n_states = n_states or rng.randint(1, 3)
    states = STATE_POOL[:n_states]
    n_units = n_units or rng.randint(45, 110)
    rows = []
    seen = set()
    per_state = max(1, n_units // n_states)
    for si, st in enumerate(states):
        n_count = rng.randint(2, 5)
        counties = [f"{si + 1}{c:02d}" for c in range(1, n_count + 1)]
        cclass = {c: rng.choice(CLASSES) for c in counties}
        dists = rng.sample(DISTRICT_POOL, n_districts or rng.randint(2, 3)) if district else [None]
        swing_state = rng.uniform(-0.1, 0.1) if not tossup else rng.uniform(-0.015, 0.015)      # tossup: every contest is close
        k = 0
        attempts = 0
        while k < per_state and attempts < per_state * 20:
            attempts += 1
            c = rng.choice(counties)
            d = rng.choice(dists)
            uid = unit_id(unit_type, d, c, k)
            if uid in seen:
                if unit_type in ("county", "county-district"):
                    # ids are determined by (district, county): add a fresh county to get more units
                    c = f"{si + 1}{len(counties) + 1:02d}"
                    counties.append(c)
                    cclass[c] = rng.choice(CLASSES)
                    uid = unit_id(unit_type, d, c, k)
                    if uid in seen:
                        continue
                else:
                    continue
            seen.add(uid)
            k += 1
            size = int(rng.lognormvariate(6.5, 1.0)) + 5
            share = min(0.95, max(0.05, rng.gauss(0.5 + swing_state, 0.15)))
            dem = int(size * share)
            gop = size - dem
            other = rng.randint(0, max(1, size // 20))
            row = {
                "postal_code": st,
                "geographic_unit_fips": uid,
                "county_fips": c,
                "county_classification": cclass[c],
                "baseline_dem": dem,
                "baseline_gop": gop,
                "baseline_turnout": dem + gop + other,
                "feat_a": round(rng.uniform(0, 1), 4),
                "feat_b": round(rng.gauss(0, 1), 4),
            }
            if district:
                row["district"] = d
            rows.append(row)
    if extra_district and not district:
        # a statewide office whose baseline also carries a district column (electoral votes by congressional district, say): the unit ids stay
        # <county> / <county>_<precinct>, districts follow the counties
        cd = {}
        for row in rows:
            key = (row["postal_code"], row["county_fips"])
            if key not in cd:
                cd[key] = rng.choice(["1", "2", "3"])
            row["district"] = cd[key]
    return {"office": office, "unit_type": unit_type, "states": states, "baseline": rows}


def live_row(rng, b, pev, swing=0.0, tf=None, noise=0.05):
    """live counts of baseline row b at percent expected vote pev"""
    if tf is None:
        tf = max(0.55, min(1.9, rng.gauss(1.0, 0.12)))
    frac = pev / 100.0
    two = b["baseline_dem"] + b["baseline_gop"]
    share_b = b["baseline_dem"] / two if two else 0.5
    share = min(0.98, max(0.02, share_b + swing + rng.gauss(0, noise)))
    tot2 = int(round(two * tf * frac))
    dem = int(round(tot2 * share))
    gop = tot2 - dem
    oth = int(round((b["baseline_turnout"] - two) * tf * frac))
    return {
        "postal_code": b["postal_code"],
        "geographic_unit_fips": b["geographic_unit_fips"],
        "results_dem": dem,
        "results_gop": gop,
        "results_turnout": dem + gop + oth,
        "percent_expected_vote": pev,
    }


def gen_feed(rng, case, frac_reporting=None, threshold=100, special=True, n_unexpected=None, allow_unknown_state=True, nan_rows=False, tossup=False, dark_group=False):
    """Adds feed rows (and possibly tweaks baseline rows: zero baseline) for a case.

    returns list of feed rows; annotates case['notes'] with the intended role of special units.
    """
    base = case["baseline"]
    feed = []
    notes = {}
    swing = rng.uniform(-0.08, 0.08) if not tossup else rng.uniform(-0.01, 0.01)
    if frac_reporting is None:
        frac_reporting = rng.choice([0.4, 0.5, 0.7, 0.7, 0.9, 1.0])
    idx = list(range(len(base)))
    rng.shuffle(idx)
    n_rep = int(round(frac_reporting * len(base)))
    roles = {}
    for j, i in enumerate(idx):
        roles[i] = "rep" if j < n_rep else rng.choice(["partial", "partial", "none", "missing"])
    if dark_group:
        # a county (of at least two units when there is one) in which nothing has reached the threshold yet: a group of the county table,
        # and with it often of the classification table, without a single reporting unit
        by_county = {}
        for i, b in enumerate(base):
            by_county.setdefault((b["postal_code"], b["county_fips"]), []).append(i)
        multi = sorted(k for k, v in by_county.items() if len(v) >= 2) or sorted(by_county)
        for i in by_county[rng.choice(multi)]:
            roles[i] = rng.choice(["partial", "none"])
    specials = []
    if special:
        pool = idx[:]
        if dark_group:
            pool = [i for i in pool if roles[i] == "rep"]
        rng.shuffle(pool)
        for kind in ["zero_baseline", "tf_low", "tf_high", "tf_eq_low", "tf_eq_high", "at_thr", "below_thr", "zero_baseline_partial", "zero_dem_baseline", "tiny"]:
            if pool and rng.random() < (0.3 if kind in ("zero_dem_baseline", "tiny") else 0.6):
                i = pool.pop()
                roles[i] = kind
                specials.append(kind)
    if nan_rows:
        # units that are in the feed with missing (NaN) results ("not reporting yet" as some feeds send it)
        pool2 = [i for i in idx if roles[i] in ("rep", "partial", "none")]
        for i in pool2[: rng.randint(1, 3)]:
            roles[i] = "nan_result"
    for i, b in enumerate(base):
        role = roles[i]
        uid = b["geographic_unit_fips"]
        if role == "tiny":
            # a one-voter precinct / county of its own, nothing counted yet: its group's predicted turnout lies strictly between 0 and 1
            c_new = f"8{len(feed) % 90 + 10}"
            b["county_fips"] = c_new
            b["baseline_dem"], b["baseline_gop"], b["baseline_turnout"] = 1, 0, 1
            b["geographic_unit_fips"] = unit_id(case["unit_type"], b.get("district"), c_new, "t")
            uid = b["geographic_unit_fips"]
            feed.append({"postal_code": b["postal_code"], "geographic_unit_fips": uid, "results_dem": 0, "results_gop": 0, "results_turnout": 0, "percent_expected_vote": 0})
            notes[uid] = role
            continue
        if role == "nan_result":
            r = live_row(rng, b, rng.choice([0, 40, 100]), swing)
            for c in ("results_dem", "results_gop", "results_turnout"):
                r[c] = None           # in the feed, but no results at all yet
            feed.append(r)
            notes[uid] = role
        elif role == "rep":
            # at or above the threshold: with a threshold below 100 many "reporting" units are still counting
            pev_rep = 100 if (threshold >= 100 or rng.random() < 0.5) else rng.randint(int(threshold), 100)
            feed.append(live_row(rng, b, pev_rep, swing))
        elif role == "partial":
            hi = max(1, int(threshold) - 1)
            pev = rng.randint(1, hi) if hi >= 1 else 0
            if threshold <= 1:
                pev = 0
            feed.append(live_row(rng, b, pev, swing))
        elif role == "none":
            r = live_row(rng, b, 0, swing)
            feed.append(r)
        elif role == "missing":
            notes[uid] = "missing"
        elif role in ("zero_baseline", "zero_baseline_partial"):
            b["baseline_dem"] = 0
            b["baseline_gop"] = 0
            b["baseline_turnout"] = 0
            r = {
                "postal_code": b["postal_code"],
                "geographic_unit_fips": uid,
                "results_dem": rng.randint(0, 30),
                "results_gop": rng.randint(0, 30),
                "percent_expected_vote": 100 if role == "zero_baseline" else max(0, min(100, int(threshold) - 1)),
            }
            r["results_turnout"] = r["results_dem"] + r["results_gop"] + rng.randint(0, 3)
            feed.append(r)
            notes[uid] = role
        elif role == "zero_dem_baseline":
            # no votes for one party last time, but a normal turnout: zero baseline for ONE estimand only
            b["baseline_gop"] = b["baseline_gop"] + b["baseline_dem"]
            b["baseline_dem"] = 0
            feed.append(live_row(rng, b, rng.choice([100, 100, 40]), swing))
            notes[uid] = role
        elif role in ("tf_low", "tf_high"):
            tf = rng.uniform(0.1, 0.45) if role == "tf_low" else rng.uniform(2.1, 3.0)
            feed.append(live_row(rng, b, 100, swing, tf=tf))
            notes[uid] = role
        elif role in ("tf_eq_low", "tf_eq_high"):
            # turnout factor exactly on the limit: results_weights = k * baseline_weights
            bt = b["baseline_turnout"]
            if role == "tf_eq_low":
                bt = bt + (bt % 2)  # even so that half is whole
                b["baseline_turnout"] = bt
                if b["baseline_dem"] + b["baseline_gop"] > bt:
                    b["baseline_gop"] = max(0, bt - b["baseline_dem"])
                tot = bt // 2
            else:
                tot = bt * 2
            dem = tot // 2
            gop = tot // 3
            feed.append({
                "postal_code": b["postal_code"], "geographic_unit_fips": uid,
                "results_dem": dem, "results_gop": gop, "results_turnout": tot, "percent_expected_vote": 100,
            })
            notes[uid] = role
        elif role == "at_thr":
            feed.append(live_row(rng, b, threshold, swing))
            notes[uid] = role
        elif role == "below_thr":
            # one below the threshold, or a fraction of a percent below it (providers report fractional percentages)
            feed.append(live_row(rng, b, max(0, threshold - rng.choice([1, 1, 0.4, 0.3])), swing))
            notes[uid] = role
    # unexpected units
    if n_unexpected is None:
        n_unexpected = rng.choice([0, 1, 2, 3])
    district = case["office"] in ("H", "Y", "Z")
    known_counties = sorted({b["county_fips"] for b in base})
    known_d = sorted({b.get("district") for b in base if b.get("district")})
    used = {b["geographic_unit_fips"] for b in base}
    for k in range(n_unexpected):
        st = rng.choice(case["states"])
        if rng.random() < 0.15 and allow_unknown_state:
            st = "ZZ"             # a state the office is not configured for: still a unit of the feed, reported as unexpected
        c = rng.choice(known_counties) if rng.random() < 0.6 else f"9{rng.randint(10, 99)}"
        d = (rng.choice(known_d) if rng.random() < 0.6 else rng.choice(["7", "70"])) if district else None
        uid = unit_id(case["unit_type"], d, c, f"x{k}")
        if case["unit_type"].startswith("precinct") and rng.random() < 0.35:
            uid = uid + "_A"      # split precinct: the precinct part of the id itself contains an underscore
        if case["unit_type"] in ("county", "county-district") and uid in used:
            c = f"9{rng.randint(10, 99)}"
            uid = unit_id(case["unit_type"], d, c, f"x{k}")
        if uid in used:
            continue
        used.add(uid)
        dem = rng.randint(0, 400)
        gop = rng.randint(0, 400)
        zero_votes = rng.random() < 0.3      # a unit that has not sent any votes yet: its group may hold nothing but zeros
        if zero_votes:
            dem = gop = 0
        feed.append({
            "postal_code": st, "geographic_unit_fips": uid, "results_dem": dem, "results_gop": gop,
            "results_turnout": dem + gop + (0 if zero_votes else rng.randint(0, 20)),
            "percent_expected_vote": rng.choice([0, 50, 100]),
        })
        notes[uid] = "unexpected"
    rng.shuffle(feed)
    case["notes"] = notes
    return feed


def default_aggregates(office):
    return ["postal_code", "district", "unit"] if office in ("H", "Y", "Z") else ["postal_code", "unit"]


def gen_params(rng, case, pi_method=None, estimands=None):
    office = case["office"]
    district = office in ("H", "Y", "Z")
    pi_method = pi_method or rng.choice(["nonparametric", "gaussian", "bootstrap"])
    levels = ["postal_code", "county_fips", "county_classification"] + (["district"] if district else [])
    k = rng.randint(1, len(levels))
    aggs = rng.sample(levels, k)
    if district and rng.random() < 0.7 and "district" not in aggs:
        aggs.append("district")
    if rng.random() < 0.85:
        aggs.append("unit")
    rng.shuffle(aggs)
    if pi_method == "bootstrap":
        estimands = ["margin"]
        features = ["baseline_normalized_margin"] + (["feat_a"] if rng.random() < 0.3 else [])
        if "postal_code" not in aggs:
            aggs.append("postal_code")
        mp = {"B": rng.choice([20, 37, 50]), "seed": rng.randint(0, 5)}
    else:
        estimands = estimands or rng.choice([["turnout"], ["dem"], ["turnout", "dem"], ["dem", "gop", "turnout"]])
        features = rng.choice([[], ["feat_a"], ["feat_a", "feat_b"], ["feat_b"]])
        mp = {}
        if pi_method == "nonparametric" and rng.random() < 0.3:
            mp["robust"] = True
    # less common model parameters (each one switches on a code path the defaults never reach)
    if rng.random() < 0.25:
        mp["turnout_factor_lower"], mp["turnout_factor_upper"] = rng.choice([(0.6, 1.8), (0.25, 3.0), (0.5, 1.5), (0, 5), (0.0, 2.0)])
    if rng.random() < 0.15:
        mp["outlier_z_threshold"] = rng.choice([1.5, 3.0])
    if pi_method == "gaussian":
        if rng.random() < 0.25:
            mp["winsorize"] = True
        if rng.random() < 0.25:
            mp["beta"] = rng.choice([1.5, 2])
    if pi_method != "bootstrap" and features and rng.random() < 0.2:
        mp["lambda_"] = rng.choice([0.1, 1.0])
    if pi_method == "bootstrap" and rng.random() < 0.2:
        mp["lambda_"] = rng.choice([0.0, 1.0, 10.0])
    if pi_method == "bootstrap" and rng.random() < 0.15:
        mp["national_summary_correlation"] = False
    if pi_method == "bootstrap" and rng.random() < 0.1:
        mp["agg_model_hard_threshold"] = False
        mp["T"] = rng.choice([25, 5000])
    if pi_method == "bootstrap":
        # the remaining knobs of the bootstrap (each reaches code the defaults leave alone)
        r_ = rng.random()
        if r_ < 0.08:
            mp["strata"] = []
        elif r_ < 0.16:
            mp["strata"] = ["county_classification", "postal_code"]
        if rng.random() < 0.1:
            mp["y_LB"], mp["y_UB"] = -0.2, 0.2
        if rng.random() < 0.1:
            mp["z_LB"], mp["z_UB"] = -0.3, 0.6
        if rng.random() < 0.1:
            mp["percent_expected_vote_error_bound"] = rng.choice([0.25, 1.0])
        if rng.random() < 0.1:
            mp["z_unobserved_lower_bound"], mp["z_unobserved_upper_bound"] = 0.7, 1.3
        if rng.random() < 0.05:
            mp["y_unobserved_lower_bound"], mp["y_unobserved_upper_bound"] = -0.9, 0.9
        if len(case["states"]) >= 2 and rng.random() < 0.1:
            mp["states_for_separate_model"] = [case["states"][0]]
    fes = {}
    if rng.random() < 0.35 and pi_method != "bootstrap":
        fes = rng.choice([{"postal_code": "all"}, {"county_classification": "all"}, ["county_classification"],
                          {"county_classification": CLASSES[:2]}, {"county_classification": [CLASSES[-1]]}])    # selected levels: the rest is pooled into 'other'
    alphas = rng.choice([[0.7], [0.9], [0.7, 0.9], [0.5, 0.8], [0.6, 0.8, 0.9], [0.1, 0.3, 0.9], [0.3], [0.9, 0.5], [0.99]])
    params = {
        "estimands": estimands,
        "prediction_intervals": alphas,
        "percent_reporting_threshold": 100,
        "pi_method": pi_method,
        "aggregates": aggs,
        "features": features,
        "fixed_effects": fes,
        "model_parameters": mp,
        "handle_unreporting": rng.choice(["drop", "zero"]),
    }
    return params


def gen_case(rng, pi_method=None, threshold=None, **kw):
    case = gen_election(rng, **{k: v for k, v in kw.items() if k in ("n_states", "n_units", "office", "unit_type", "with_district", "tossup", "n_districts", "extra_district")})
    params = gen_params(rng, case, pi_method=pi_method, estimands=kw.get("estimands"))
    if kw.get("aggregates") is not None:
        params["aggregates"] = list(kw["aggregates"])
    if kw.get("alphas") is not None:
        params["prediction_intervals"] = list(kw["alphas"])
    if kw.get("features") is not None:
        params["features"] = list(kw["features"])
    if kw.get("fixed_effects") is not None:
        params["fixed_effects"] = kw["fixed_effects"]
    if kw.get("handle_unreporting") is not None:
        params["handle_unreporting"] = kw["handle_unreporting"]
    if kw.get("model_parameters") is not None:
        params["model_parameters"].update(kw["model_parameters"])
    thr = threshold if threshold is not None else rng.choice([100, 100, 100, 99, 50, 1])
    params["percent_reporting_threshold"] = thr
    case["params"] = params
    n_unx = kw.get("n_unexpected")
    if params["pi_method"] == "bootstrap" and kw.get("avoid_boot_nan_key", True):
        # an unexpected unit with a missing key column makes the bootstrap aggregation raise (finding F15, decided by C11)
        aggs_ = params["aggregates"]
        if case["office"] in ("H", "Y", "Z") and "district" not in aggs_:
            n_unx = 0
    case["feed"] = gen_feed(rng, case, frac_reporting=kw.get("frac_reporting"), threshold=thr,
                            special=kw.get("special", True), n_unexpected=n_unx, nan_rows=kw.get("nan_rows", False), tossup=kw.get("tossup", False),
                            dark_group=kw.get("dark_group", False))
    # blocklists
    mp = params["model_parameters"]
    if kw.get("blocklist", True) and rng.random() < 0.4:
        ids = [r["geographic_unit_fips"] for r in case["feed"]]
        mp["unit_blocklist"] = rng.sample(ids, min(len(ids), rng.randint(1, 2)))
    if kw.get("blocklist", True):
        # a unit that meets two exclusion reasons at once (zero baseline AND blocklisted)
        zb = [u for u, role in case.get("notes", {}).items() if str(role).startswith("zero_baseline")]
        if zb and rng.random() < 0.6:
            mp["unit_blocklist"] = sorted(set(mp.get("unit_blocklist", [])) | {rng.choice(zb)})
    if kw.get("blocklist", True) and len(case["states"]) >= 2 and rng.random() < 0.3:
        mp["postal_code_blocklist"] = [case["states"][-1]]
    if mp.get("postal_code_blocklist") and mp.get("states_for_separate_model"):
        # a separate model for a state while the only other state is blocklisted duplicates every column (singular without regularisation)
        mp.pop("states_for_separate_model")
    if "outlier" in kw and not kw["outlier"]:
        mp["fit_margin_outlier_model"] = False
        mp["fit_turnout_outlier_model"] = False
    return case
