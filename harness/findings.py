"""Matching of a violation against the committed known-findings file.

A known finding is identified by a conjunction of tag values describing the specific input class /
call site that fails (never by property id alone), so a different violation of the same property is
still reported."""


def matches(known, violation):
    want = known.get("match") or {}
    if not want:
        return False
    tags = violation.get("tags") or {}
    for k, v in want.items():
        if k not in tags:
            return False
        if isinstance(v, list):
            if tags[k] not in v:
                return False
        elif tags[k] != v:
            return False
    return True
