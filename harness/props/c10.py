"""C10 -- Outstanding and excluded units cannot influence anyone else's estimate."""
import copy
import json
import os
import random
import shutil

from harness import aggfam, core, gen

RULE = ("paired get_estimates runs on one synthetic election (outlier models ON, all unit categories) in which ONE unit's input counts are replaced: a unit "
        "below the reporting threshold (counts changed, and expected-vote percentage changed but kept below), a blocklisted unit (reporting or not), a reporting unit of a blocklisted state, a "
        "zero-baseline unit, an unexpected unit; all three estimators. Compared bit for bit: the arguments of every solver fit (design matrix, targets, "
        "weights -- captured by wrapping the quantile / OLS solvers), the unit rows of every other unit, and every aggregate row of groups that do not "
        "contain the perturbed unit. Plus HistoricalModelClient._format_historical_current_data on a local historical file with the results of units "
        "below the threshold changed. distinct = (estimator, kind of perturbed unit, office); non-trivial = both runs completed and the perturbed unit "
        "exists in the unit table")

KINDS = ["partial-count", "partial-pev", "blocklisted-reporting", "blocklisted-partial", "zero-baseline", "unexpected", "state-blocklisted"]


def pick_and_perturb(rng, case, kind, large=False):
    """returns (case', unit id) or None"""
    c2 = copy.deepcopy(case)
    p = c2["params"]
    thr = p["percent_reporting_threshold"]
    base = {b["geographic_unit_fips"]: b for b in c2["baseline"]}
    mp = p["model_parameters"]
    bl = set(mp.get("unit_blocklist", []))
    feed = c2["feed"]

    def bump(f, factor=None):
        k = factor or rng.choice([0.25, 3.0, 7.0, 40.0])
        f["results_dem"] = int(f["results_dem"] * k) + rng.randint(1, 9)
        f["results_gop"] = int(f["results_gop"] * (k / 2 + 0.3)) + rng.randint(1, 9)
        f["results_turnout"] = f["results_dem"] + f["results_gop"] + rng.randint(0, 5)

    cands = []
    for f in feed:
        uid = f["geographic_unit_fips"]
        b = base.get(uid)
        zero = b is not None and b["baseline_turnout"] == 0
        if kind in ("partial-count", "partial-pev") and b is not None and not zero and uid not in bl and f["percent_expected_vote"] < thr:
            cands.append(f)
        if kind == "zero-baseline" and zero:
            cands.append(f)
        if kind == "unexpected" and b is None:
            cands.append(f)
    if kind == "state-blocklisted":
        # a whole state on the postal-code blocklist (both runs); one of its reporting units changes its counts
        if len(c2["states"]) < 2:
            return None
        st = c2["states"][-1]
        mp["postal_code_blocklist"] = [st]
        case["params"]["model_parameters"]["postal_code_blocklist"] = [st]
        pool = [f for f in feed if f["postal_code"] == st and f["geographic_unit_fips"] in base and base[f["geographic_unit_fips"]]["baseline_turnout"] != 0
                and f["percent_expected_vote"] >= thr]
        if not pool:
            return None
        cands = [rng.choice(pool)]
    if kind.startswith("blocklisted"):
        want_rep = kind == "blocklisted-reporting"
        pool = [f for f in feed if f["geographic_unit_fips"] in base and base[f["geographic_unit_fips"]]["baseline_turnout"] != 0
                and ((f["percent_expected_vote"] >= thr) == want_rep)]
        if not pool:
            return None
        f = rng.choice(pool)
        mp["unit_blocklist"] = sorted(bl | {f["geographic_unit_fips"]})
        case["params"]["model_parameters"]["unit_blocklist"] = list(mp["unit_blocklist"])  # both runs blocklist it
        cands = [f]
    if not cands:
        return None
    f = rng.choice(cands)
    if kind == "partial-pev":
        lo = 0
        hi = max(0, int(thr) - 1)
        f["percent_expected_vote"] = rng.randint(lo, hi) if hi >= lo else 0
    bump(f, factor=40.0 if large else None)
    return c2, f["geographic_unit_fips"]


def run_captured(case):
    import numpy as np

    from harness import run_impl

    run_impl._imp()
    from elexsolver.OLSRegressionSolver import OLSRegressionSolver as O

    ols = []
    orig = O.fit

    def fit(slf, x, y, *a, **k):
        ols.append((np.array(x, dtype=float).tobytes(), np.array(y, dtype=float).tobytes(),
                    None if k.get("weights") is None else np.array(k["weights"], dtype=float).tobytes()))
        return orig(slf, x, y, *a, **k)

    O.fit = fit
    try:
        with run_impl.SolverCapture() as cap:
            h = aggfam.harvest(case)
    finally:
        O.fit = orig
    fits = [(r["x"].tobytes(), r["y"].tobytes(), None if r["weights"] is None else r["weights"].tobytes()) for r in cap.records if r["op"] == "fit"]
    return h, fits, ols


def worker(job):
    seed, pi, kind = job
    rng = random.Random(seed)
    if kind == "partial-count-large":
        # large gaussian election: groups with their own calibration model and groups that fall back to a coarser one; the
        # perturbed partial count is made large so that the counted-vote floor of its own groups binds
        case = gen.gen_case(rng, pi_method="gaussian", n_unexpected=1, n_units=260, n_states=2, frac_reporting=0.7, estimands=["dem"], alphas=[0.7],
                            aggregates=["postal_code", "county_classification", "county_fips", "unit"])
        kind = "partial-count"
        job = (seed, pi, "partial-count-large")
    elif kind == "state-blocklisted":
        case = gen.gen_case(rng, pi_method=pi, n_unexpected=1, avoid_boot_nan_key=True, n_states=rng.choice([2, 3]), n_units=rng.randint(90, 140), frac_reporting=0.7)
    else:
        case = gen.gen_case(rng, pi_method=pi, n_unexpected=2, avoid_boot_nan_key=True)
    if pi == "bootstrap" and ("county_classification" in case["params"]["aggregates"] or (case["office"] == "H" and "district" not in case["params"]["aggregates"])):
        case["params"]["aggregates"] = [a for a in case["params"]["aggregates"] if a != "county_classification"]
        if case["office"] == "H" and "district" not in case["params"]["aggregates"]:
            case["params"]["aggregates"].append("district")
        # two unexpected units were requested: make sure they have a complete key
    pp = pick_and_perturb(rng, case, kind, large=(job[2] == "partial-count-large"))
    out = {"job": list(job), "office": case["office"], "ok": False, "fails": [], "applicable": pp is not None}
    if pp is None:
        return out
    case2, uid = pp
    h0, fits0, ols0 = run_captured(case)
    h1, fits1, ols1 = run_captured(case2)
    out["uid"] = uid
    out["ok"] = h0["ok"] and h1["ok"]
    out["exc"] = [h0.get("exc"), h1.get("exc")]
    if h0["ok"] != h1["ok"]:
        out["fails"].append({"what": f"changing the counts of {kind} unit {uid} changes the outcome of the run: {h0.get('exc')} vs {h1.get('exc')}", "kind": "outcome"})
        return out
    if not out["ok"]:
        return out
    if len(fits0) != len(fits1) or any(a != b for a, b in zip(fits0, fits1)):
        k = next((i for i, (a, b) in enumerate(zip(fits0, fits1)) if a != b), None)
        out["fails"].append({"what": f"quantile-regression fit #{k} receives different arguments (design / targets / weights) when the counts of {kind} unit {uid} change",
                             "kind": "fit-inputs"})
    if len(ols0) != len(ols1) or any(a != b for a, b in zip(ols0, ols1)):
        k = next((i for i, (a, b) in enumerate(zip(ols0, ols1)) if a != b), None)
        out["fails"].append({"what": f"OLS fit #{k} receives different arguments when the counts of {kind} unit {uid} change", "kind": "fit-inputs"})
    p = case["params"]
    keys_of = aggfam.unit_keys_py(case)
    for e in p["estimands"]:
        u0 = {r["geographic_unit_fips"]: r for r in h0["unit"][e]}
        u1 = {r["geographic_unit_fips"]: r for r in h1["unit"][e]}
        if set(u0) != set(u1):
            out["fails"].append({"what": f"unit table ids differ: {sorted(set(u0) ^ set(u1))[:3]}", "kind": "unit-set"})
            continue
        out["in_table"] = uid in u0
        for i, r0 in u0.items():
            if i == uid:
                continue
            r1 = u1[i]
            diff = [c for c in r0 if r0[c] != r1[c] and not (r0[c] != r0[c] and r1[c] != r1[c])]
            if diff:
                out["fails"].append({"what": f"unit {i} changes in {diff[:3]} ({r0[diff[0]]} -> {r1[diff[0]]}) when the counts of {kind} unit {uid} change", "kind": "other-unit"})
                break
        postal = (u0.get(uid) or {}).get("postal_code") or next((f["postal_code"] for f in case["feed"] if f["geographic_unit_fips"] == uid), None)
        ku = keys_of(uid, postal)
        for agg in [a for a in p["aggregates"] if a != "unit"]:
            cols = aggfam.aggregate_list(case["office"], agg)
            gu = tuple(ku[c] for c in cols)
            t0 = {tuple(r[c] for c in cols): r for r in h0["agg"][f"{e}|{agg}"]["rows"]}
            t1 = {tuple(r[c] for c in cols): r for r in h1["agg"][f"{e}|{agg}"]["rows"]}
            if set(t0) != set(t1):
                out["fails"].append({"what": f"{agg} table: group set changes", "kind": "group-set"})
                continue
            for g, r0 in t0.items():
                if g == gu:
                    continue
                r1 = t1[g]
                diff = [c for c in r0 if r0[c] != r1[c] and not (r0[c] != r0[c] and r1[c] != r1[c])]
                if diff:
                    out["fails"].append({"what": f"{agg} group {g} does not contain {kind} unit {uid} but {diff[0]} changes {r0[diff[0]]} -> {r1[diff[0]]}", "kind": "other-group"})
                    break
    return out


def historical_job(seed):
    """HistoricalModelClient._format_historical_current_data with a local historical file"""
    import pandas as pd

    from harness import run_impl

    client = run_impl._imp()
    rng = random.Random(seed)
    case = gen.gen_election(rng, n_states=1, n_units=30, office="S", unit_type="county")
    base = case["baseline"]
    thr = 90
    cur = pd.DataFrame([{"postal_code": b["postal_code"], "geographic_unit_fips": b["geographic_unit_fips"], "percent_expected_vote": rng.choice([0, 40, 89, 90, 100])} for b in base])
    # the order (and the row labels) of the live feed are the caller's business: shuffled, labels kept, for every other seed
    pev_by = dict(zip(cur["geographic_unit_fips"], cur["percent_expected_vote"]))
    if seed % 4 == 1:
        cur = cur.sample(frac=1.0, random_state=seed % 1000).reset_index(drop=True)       # shuffled, fresh labels (as the command line tool does)
    elif seed % 4 == 3:
        cur = cur.sample(frac=1.0, random_state=seed % 1000)                              # shuffled, labels kept
    elif seed % 4 == 2:
        cur = cur.sort_values("percent_expected_vote", ascending=False).reset_index(drop=True)
    hid = "2095-11-03_USA_G"
    wd = os.path.join(core.BUILD, "c10hist", str(seed))
    shutil.rmtree(wd, ignore_errors=True)
    os.makedirs(os.path.join(wd, "data", hid, "S"))
    cwd = os.getcwd()
    outs = []
    try:
        os.chdir(wd)
        for variant in (0, 1):
            rows = []
            for b in base:
                pev = pev_by[b["geographic_unit_fips"]]
                r = dict(b)
                mult = 1 if (variant == 0 or pev >= thr) else rng.randint(2, 9)
                r["results_dem"] = b["baseline_dem"] * mult + (0 if mult == 1 else 13)
                r["results_gop"] = b["baseline_gop"] * mult
                r["results_turnout"] = b["baseline_turnout"] * mult + (0 if mult == 1 else 17)
                rows.append(r)
            pd.DataFrame(rows).to_csv(os.path.join(wd, "data", hid, "S", "data_county.csv"), index=False)
            hc = client.HistoricalModelClient()
            hc.aggregates = ["postal_code", "unit"]
            df, _pre = hc._format_historical_current_data(cur, hid, "S", "county", ["turnout", "dem"], {"turnout": "turnout", "dem": "dem"}, thr)
            outs.append(df.sort_values("geographic_unit_fips").to_dict("records"))
    except Exception as e:  # noqa: BLE001
        return {"seed": seed, "exc": (type(e).__name__, str(e)[:300])}
    finally:
        os.chdir(cwd)
        shutil.rmtree(wd, ignore_errors=True)
    res = {"seed": seed, "same": outs[0] == outs[1], "rows": len(outs[0])}
    if not res["same"]:
        d = next(((a, b) for a, b in zip(outs[0], outs[1]) if a != b), None)
        res["diff"] = d
    # hidden means 0
    below = {r["geographic_unit_fips"] for r in cur.to_dict("records") if r["percent_expected_vote"] < thr}
    res["leak"] = [r for r in outs[0] if r["geographic_unit_fips"] in below and (r["results_turnout"] != 0 or r["results_dem"] != 0)][:2]
    return res


def historical_eval_job(seed):
    """HistoricalModelClient.get_historical_evaluation end to end (local config and historical files in an empty working directory): two
    historical files that differ only in the results of units that are not yet reporting must give identical estimates"""
    import json as _json

    import pandas as pd

    from harness import run_impl

    client = run_impl._imp()
    rng = random.Random(seed)
    pi = ["nonparametric", "gaussian"][seed % 2]
    case = gen.gen_election(rng, n_states=1, n_units=rng.randint(40, 60), office="S", unit_type="county")
    base = case["baseline"]
    thr = 100
    n_rep = int(len(base) * 0.6)
    order = list(range(len(base)))
    rng.shuffle(order)
    pev = {base[i]["geographic_unit_fips"]: (100 if k < n_rep else rng.choice([0, 30, 60, 90])) for k, i in enumerate(order)}
    cur = pd.DataFrame([{"postal_code": b["postal_code"], "geographic_unit_fips": b["geographic_unit_fips"], "percent_expected_vote": pev[b["geographic_unit_fips"]]} for b in base])
    cur = cur.sample(frac=1.0, random_state=seed % 1000).reset_index(drop=True)          # the feed comes in its own order
    eid, hid = gen.ELECTION_ID, "2095-11-03_USA_G"
    wd = os.path.join(core.BUILD, "c10histeval", str(seed))
    shutil.rmtree(wd, ignore_errors=True)
    os.makedirs(os.path.join(wd, "data", hid, "S"))
    os.makedirs(os.path.join(wd, "config"))
    cfg = gen.make_config(case)
    cfg[eid][0]["historical_election"] = [hid]
    with open(os.path.join(wd, "config", f"{eid}.json"), "w") as fh:
        _json.dump(cfg, fh)
    with open(os.path.join(wd, "config", f"{hid}.json"), "w") as fh:
        _json.dump({hid: cfg[eid]}, fh)
    cwd = os.getcwd()
    outs = []
    res = {"seed": seed, "pi": pi}
    try:
        os.chdir(wd)
        for variant in (0, 1):
            rows = []
            r2 = random.Random(seed + 5)
            for b in base:
                hidden = pev[b["geographic_unit_fips"]] < thr
                mult = 1.0 + r2.uniform(-0.1, 0.1)
                alt = r2.choice([0.2, 3.0, 9.0])
                if variant == 1 and hidden:
                    mult = alt                                   # only units that are not reporting yet change their historical result
                r = dict(b)
                r["results_dem"] = int(b["baseline_dem"] * mult) + (0 if variant == 0 or not hidden else 13)
                r["results_gop"] = int(b["baseline_gop"] * mult)
                r["results_turnout"] = r["results_dem"] + r["results_gop"] + 7
                rows.append(r)
            pd.DataFrame(rows).to_csv(os.path.join(wd, "data", hid, "S", "data_county.csv"), index=False)
            hc = client.HistoricalModelClient()
            out = hc.get_historical_evaluation(cur.copy(), eid, "S", ["turnout", "dem"], [0.7, 0.9], thr, "county", pi_method=pi,
                                               aggregates=["postal_code", "unit"], features=[], fixed_effects={}, save_output=[],
                                               model_parameters={"fit_turnout_outlier_model": False, "fit_margin_outlier_model": False})
            est = out[hid]["estimates"]
            outs.append({k: v.sort_values(list(v.columns[:2])).to_dict("records") for k, v in est.items()})
    except Exception as e:  # noqa: BLE001
        res["exc"] = (type(e).__name__, str(e)[:300])
        return res
    finally:
        os.chdir(cwd)
        shutil.rmtree(wd, ignore_errors=True)
    res["same"] = True
    hidden_ids = {u for u, p_ in pev.items() if p_ < thr}
    for name in outs[0]:
        for a, b in zip(outs[0][name], outs[1][name]):
            for c in a:
                va, vb = a[c], b[c]
                if va != vb and not (va != va and vb != vb):
                    res["same"] = False
                    res["diff"] = f"table {name}, row {[a[k] for k in list(a)[:2]]}, column {c}: {va} with the first historical file, {vb} when only the historical results of the not yet reporting units {sorted(hidden_ids)[:4]}... change"
                    return res
    res["rows"] = sum(len(v) for v in outs[0].values())
    return res


def run(chk):
    ok, rep = chk.proofs()
    chk.assumptions += ["the interior of BootstrapElectionModel.compute_bootstrap_errors (strata distributions, PIT, samplers) is not modelled beyond 'function of the "
                        "fitting rows and the seeded generator'; it is covered by the paired runs (unit rows and groups not containing the perturbed unit bit-for-bit equal)",
                        "outlier models and solvers are arbitrary functions in the theorems"]
    rng = random.Random(chk.seed * 733 + 10)
    jobs = []
    reps = 1 if chk.tier == "quick" else 12
    for _ in range(reps):
        for pi in ("nonparametric", "gaussian", "bootstrap"):
            for kind in KINDS:
                jobs.append((rng.randint(0, 2**31), pi, kind))
    for _ in range(8 if chk.tier == "quick" else 40):
        jobs.append((rng.randint(0, 2**31), "gaussian", "partial-count-large"))
    outs = core.pmap(worker, jobs)
    n_ok = 0
    for o in outs:
        seed, pi, kind = o["job"]
        nt = bool(o["ok"] and o.get("in_table", kind == "unexpected"))
        n_ok += 1 if o["ok"] else 0
        chk.count({"pi": pi, "kind": kind, "office": o["office"], "ok": o["ok"], "applicable": o["applicable"]}, nontrivial=nt,
                  sample={"estimator": pi, "perturbed": kind, "unit": o.get("uid"), "both_runs_completed": o["ok"]})
        for f in o["fails"]:
            chk.violation(f["what"], {"kind": "c10", "job": o["job"]}, {"kind": f["kind"], "estimator": pi, "perturbed": kind})
    hj = core.pmap(historical_job, [rng.randint(0, 2**31) * 4 + k % 4 for k in range(6 if chk.tier == "quick" else 40)])
    for o in hj:
        chk.count({"historical": True, "same": o.get("same")}, nontrivial="same" in o, sample={"historical_frame_rows": o.get("rows"), "independent_of_hidden_results": o.get("same")})
        if "exc" in o:
            chk.violation(f"_format_historical_current_data failed: {o['exc']}", {"kind": "historical", "seed": o["seed"]}, {"kind": "historical-raises"}, no_input=True)
            continue
        if not o["same"]:
            chk.violation(f"historical frame depends on results of units below the threshold: {o.get('diff')}", {"kind": "historical", "seed": o["seed"]}, {"kind": "historical-leak"})
        if o["leak"]:
            chk.violation(f"historical results of not-yet-reporting units are not hidden: {o['leak']}", {"kind": "historical", "seed": o["seed"]}, {"kind": "historical-leak"})
    # the public entry point of the historical evaluation
    for o in core.pmap(historical_eval_job, [rng.randint(0, 2**30) * 2 + k % 2 for k in range(4 if chk.tier == "quick" else 30)]):
        chk.count({"historical_evaluation": True, "pi": o.get("pi"), "same": o.get("same")}, nontrivial="same" in o,
                  sample={"stream": "get_historical_evaluation", "estimator": o.get("pi"), "rows_compared": o.get("rows"), "independent_of_hidden_results": o.get("same")})
        if "exc" in o:
            chk.violation(f"get_historical_evaluation failed: {o['exc']}", {"kind": "historical-eval", "seed": o["seed"]}, {"kind": "historical-raises"}, no_input=True)
        elif not o["same"]:
            chk.violation(f"historical evaluation depends on hidden results: {o.get('diff')}", {"kind": "historical-eval", "seed": o["seed"]}, {"kind": "historical-leak"})
    if n_ok < max(4, len(outs) // 3):
        chk.violation(f"only {n_ok} of {len(outs)} perturbation pairs completed", {"kind": "coverage", "excs": [o.get('exc') for o in outs if not o['ok']][:4]}, {"kind": "coverage"}, no_input=True)
    if not ok and not [v for v in chk.violations if not v["no_input"]]:
        chk.violation("proof obligations of C10 no longer check", {"theorem_file": "coq/Properties/C10.v", "log": rep.get("log_tail", "")[-1500:]}, {"kind": "proof-broken"}, no_input=True)
    return chk.finish(RULE, extra={"pairs_completed": n_ok, "historical_pairs": len(hj)})


def replay(chk, payload):
    r = payload["replay"]
    if r.get("kind") == "historical-eval":
        o = historical_eval_job(r["seed"])
        print(json.dumps(o, indent=1, default=str))
        return 0 if o.get("same") else 1
    if r["kind"] == "c10":
        o = worker(tuple(r["job"]))
        print(json.dumps({k: o.get(k) for k in ("ok", "exc", "fails", "uid")}, indent=1, default=str))
        return 1 if o["fails"] else 0
    print(json.dumps(historical_job(r["seed"]), indent=1, default=str))
    return 0
