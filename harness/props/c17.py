"""C17 -- Margin histories interpolate within bounds; irregular histories are discarded."""
import json
import math
import random

from harness import core
from harness.core import llit, qlit, zlit

IMPORTS = "From Coq Require Import ZArith QArith List.\nImport ListNotations.\nFrom Elex Require Import Model.Versioned.\n"

RULE = ("generated version histories per unit (1-12 versions; repeated versions, zero-vote versions, downward revisions, exact reverts to an earlier version, impossible batches, "
        "expected-vote percentages re-scaled after the fact, final turnout 0; integer and float result columns) run through "
        "VersionedDataHandler.compute_versioned_margin_estimate; the returned frame (error type, one row per whole percent, imputed margin and "
        "correction) is compared inside Coq with the exact-rational model (1e-9 relative; a percent coinciding with a re-scaled observation "
        "percent is not compared and is counted); the statement (range, convexity, before-first, domain, correction, all-missing on irregular "
        "histories) is re-evaluated on the output; frames of 2-5 units whose versions are interleaved in time (direct call and through get_versioned_results): every unit "
        "gets the rows it gets alone. distinct = (number of versions, kind, dtype, error type); non-trivial = >= 3 versions")

KINDS = ["regular", "regular", "regular", "rescaled", "repeat", "zero_first", "downward", "bad_batch", "zero_final", "single", "reattributed", "revert", "pev_revert"]


def gen_history(rng, kind):
    n = 1 if kind == "single" else rng.randint(2, 12)
    dem, gop, oth = 0, 0, 0
    rows = []
    final_pev = rng.choice([100, 100, 93, 57, 12, 99.5])
    for k in range(n):
        if kind == "zero_first" and k == 0:
            pass
        elif kind == "repeat" and k > 0 and rng.random() < 0.4:
            pass
        else:
            dem += rng.randint(0, 400)
            gop += rng.randint(0, 400)
            oth += rng.randint(0, 30)
        rows.append([dem, gop, dem + gop + oth])
    if kind == "downward" and n >= 2:
        i = rng.randrange(1, n)
        rows[i][2] = max(0, rows[i - 1][2] - rng.randint(1, 50))
    if kind == "bad_batch" and n >= 2:
        i = rng.randrange(1, n)
        # dem jumps while gop falls by more than the two-party total moves
        rows[i][0] = rows[i - 1][0] + 300
        rows[i][1] = max(0, rows[i - 1][1] - 250)
        rows[i][2] = max(rows[i][2], rows[i - 1][2])
        for j in range(i + 1, n):
            rows[j][0] = max(rows[j][0], rows[i][0])
            rows[j][2] = max(rows[j][2], rows[j - 1][2], rows[j][0] + rows[j][1])
    if kind == "reattributed" and n >= 2:
        # votes moved between the two candidates with an unchanged two-party total: a batch of zero votes with a non-zero margin
        i = rng.randrange(1, n)
        shift = rng.randint(1, 40)
        rows[i][0] = rows[i - 1][0] + shift
        rows[i][1] = max(0, rows[i - 1][1] - shift)
        if rows[i][1] == 0 and rows[i - 1][1] < shift:
            rows[i][0] = rows[i - 1][0] + rows[i - 1][1]
        rows[i][2] = max(rows[i][2], rows[i - 1][2])
        for j in range(i + 1, n):
            rows[j][0] = max(rows[j][0], rows[i][0])
            rows[j][1] = max(rows[j][1], rows[i][1])
            rows[j][2] = max(rows[j][2], rows[j - 1][2], rows[j][0] + rows[j][1])
    if kind == "zero_final":
        rows = [[0, 0, 0] for _ in rows]
    tl = rows[-1][2]
    out = []
    for k, (d, g, t) in enumerate(rows):
        if kind == "rescaled":
            pev = min(100, round((t / tl * final_pev if tl else 0) + rng.uniform(-8, 8), 1))
            pev = max(0, pev)
        else:
            pev = round(t / tl * final_pev, 1) if tl else 0.0
        if k == len(rows) - 1:
            pev = final_pev
        out.append({"results_dem": d, "results_gop": g, "results_turnout": t, "percent_expected_vote": pev})
    if kind == "revert" and len(out) >= 3:
        # a published version is retracted: the unit goes back EXACTLY to an earlier version (twice), then nothing else happens.
        # Non-monotone turnout: the history is irregular although every version taken alone is a duplicate of one seen before
        j = rng.randrange(0, len(out) - 1)
        if out[j]["results_turnout"] < out[-1]["results_turnout"]:
            out = out + [dict(out[j]), dict(out[j])]
    if kind == "pev_revert" and len(out) >= 2:
        # the provider raises its expected-vote estimate and takes it back, votes unchanged: regular history, latest percent = the lower one
        last = out[-1]
        up = dict(last, percent_expected_vote=min(100, last["percent_expected_vote"] + 4)) if last["percent_expected_vote"] <= 96 else None
        if up:
            out = out + [up, dict(up), dict(last), dict(last)]
    return out


def run_impl_history(hist, dtype):
    from harness import run_impl

    run_impl._imp()
    import numpy as np
    import pandas as pd

    from elexmodel.handlers.data.VersionedData import VersionedDataHandler

    df = pd.DataFrame(hist)
    df["geographic_unit_fips"] = "u1"
    if dtype == "float":
        for c in ("results_dem", "results_gop", "results_turnout"):
            df[c] = df[c].astype(float)
    df["results_weights"] = df["results_dem"] + df["results_gop"]
    df["results_margin"] = df["results_dem"] - df["results_gop"]
    with np.errstate(all="ignore"):
        df["results_normalized_margin"] = np.nan_to_num(df["results_margin"] / df["results_weights"], nan=0, posinf=0, neginf=0)
    nm = [float(x) for x in df["results_normalized_margin"]]
    if dtype == "handler":
        # the whole path of the handler: versions come from its (here: in-memory) version store, get_versioned_results adds the derived
        # columns and orders the versions, compute_versioned_margin_estimate works on what get_versioned_results left on the object
        raw = pd.DataFrame(hist)
        raw["postal_code"] = "AA"
        raw["geographic_unit_fips"] = "u1"
        raw["last_modified"] = pd.date_range("2030-11-05 19:00", periods=len(raw), freq="10min", tz="America/New_York")
        h = VersionedDataHandler("2099-11-03_USA_G", "S", "county", estimands=["margin"])

        class Store:
            def get(self, path, sample):
                return raw.copy()

        h.s3_client = Store()
        with np.errstate(all="ignore"):
            h.get_versioned_results()
            res = h.compute_versioned_margin_estimate()
        return nm, res.to_dict("records")
    h = object.__new__(VersionedDataHandler)
    with np.errstate(all="ignore"):
        res = h.compute_versioned_margin_estimate(data=df.copy())
    recs = res.to_dict("records")
    return nm, recs


def opt_q(x):
    if x is None or (isinstance(x, float) and x != x):
        return "None"
    return f"(Some {qlit(float(x))})"


def s_oracle(hist, nm, recs):
    fails = []
    t = [h["results_turnout"] for h in hist]
    tl = t[-1]
    pc = [(x / tl if tl else 0.0) for x in t]
    mono = all(b >= a for a, b in zip(pc, pc[1:]))
    batches = []
    for a, b in zip(hist, hist[1:]):
        num = (b["results_dem"] - a["results_dem"]) - (b["results_gop"] - a["results_gop"])
        den = (b["results_dem"] + b["results_gop"]) - (a["results_dem"] + a["results_gop"])
        batches.append(0.0 if (den == 0 and num == 0) else (math.inf if den == 0 else num / den))
    batches.append(0.0)
    bad = any(abs(b) > 1 for b in batches)
    errs = {r["error_type"] for r in recs}
    if not mono or bad:
        if len(recs) != 101 or any(not (r["est_margin"] != r["est_margin"]) or not (r["est_correction"] != r["est_correction"]) for r in recs):
            fails.append({"what": "irregular history (non-monotone turnout or impossible batch) produced non-missing estimates", "kind": "irregular-not-discarded"})
        if errs == {"none"}:
            fails.append({"what": "irregular history has error_type 'none'", "kind": "irregular-no-error"})
        return fails
    if errs != {"none"}:
        fails.append({"what": f"regular history reported error types {errs}", "kind": "regular-error"})
        return fails
    pl = hist[-1]["percent_expected_vote"]
    maxp = int(math.floor(pl if tl else 0))
    ps = [int(r["percent_expected_vote"]) for r in recs]
    if ps != list(range(0, maxp + 1)):
        fails.append({"what": f"estimates produced for percents {ps[:3]}..{ps[-3:]} but the latest percent is {pl}", "kind": "domain"})
        return fails
    pv = [c * pl for c in pc]
    lo_all, hi_all = min(nm + batches), max(nm + batches)
    for r in recs:
        p = int(r["percent_expected_vote"])
        e = r["est_margin"]
        if p == 0:
            if e != 0:
                fails.append({"what": f"estimate at 0 percent is {e}, not 0", "kind": "zero"})
            continue
        if not (e == e) or e < -1 - 1e-9 or e > 1 + 1e-9:
            fails.append({"what": f"imputed margin {e} at percent {p} is outside [-1, 1]", "kind": "range"})
            break
        if p < pv[0] - 1e-9 and abs(e - nm[0]) > 1e-9:
            fails.append({"what": f"percent {p} lies before the first observation ({pv[0]}) but the estimate {e} differs from the first observed margin {nm[0]}",
                          "kind": "before-first"})
            break
        if e < lo_all - 1e-9 or e > hi_all + 1e-9:
            fails.append({"what": f"imputed margin {e} at percent {p} is not a convex combination of observed and batch margins [{lo_all}, {hi_all}]", "kind": "convex"})
            break
        if abs(r["est_correction"] - (nm[-1] - e)) > 1e-9:
            fails.append({"what": f"correction at percent {p} is {r['est_correction']}, final margin - estimate = {nm[-1] - e}", "kind": "correction"})
            break
    return fails


def worker(job):
    seed, kind, dtype = job
    rng = random.Random(seed)
    hist = gen_history(rng, kind)
    res = {"job": list(job), "n": len(hist), "ok": True, "exc": None}
    try:
        nm, recs = run_impl_history(hist, dtype)
    except Exception as e:  # noqa: BLE001
        res["ok"] = False
        res["exc"] = (type(e).__name__, str(e)[:200])
        res["hist"] = hist
        return res
    res["s"] = s_oracle(hist, nm, recs)
    errs = sorted({r["error_type"] for r in recs})
    res["err"] = errs
    code = 0 if errs == ["none"] else (1 if any("monotone" in e for e in errs) else 2)
    vs = llit([f"{{| v_turnout := {qlit(h['results_turnout'])}; v_pev := {qlit(h['percent_expected_vote'])}; v_dem := {qlit(h['results_dem'])}; "
               f"v_gop := {qlit(h['results_gop'])}; v_nm := {qlit(n_)} |}}" for h, n_ in zip(hist, nm)])
    impl = llit([f"({zlit(int(r['percent_expected_vote']))}, {opt_q(r['est_margin'])}, {opt_q(r['est_correction'])})" for r in recs])
    res["expr"] = f"let h := {vs} in (check_versioned h {zlit(code)} {impl}, count_ambiguous h)"
    res["hist"] = hist
    return res


def multi_job(job):
    """several units whose versions arrive interleaved in time, in ONE frame: every unit's rows must be what the unit gets when its history is
    processed alone (units are imputed independently of one another)"""
    from harness import run_impl

    seed, path = job
    run_impl._imp()
    import numpy as np
    import pandas as pd

    from elexmodel.handlers.data.VersionedData import VersionedDataHandler

    rng = random.Random(seed)
    k = rng.randint(2, 5)
    hists = {f"u{j}": gen_history(rng, rng.choice(KINDS)) for j in range(k)}
    # one clock for all units: a random merge that keeps each unit's own order
    cursor = {u: 0 for u in hists}
    rows = []
    t = 0
    while any(cursor[u] < len(h) for u, h in hists.items()):
        u = rng.choice([u for u, h in hists.items() if cursor[u] < len(h)])
        r = dict(hists[u][cursor[u]])
        r.update({"postal_code": "AA", "geographic_unit_fips": u, "t": t})
        rows.append(r)
        cursor[u] += 1
        t += 1

    def derived(df):
        df = df.copy()
        df["results_weights"] = df["results_dem"] + df["results_gop"]
        df["results_margin"] = df["results_dem"] - df["results_gop"]
        with np.errstate(all="ignore"):
            df["results_normalized_margin"] = np.nan_to_num((df["results_margin"] / df["results_weights"]).astype(float), nan=0, posinf=0, neginf=0)
        return df

    def run_frame(frame):
        with np.errstate(all="ignore"):
            if path == "handler":
                raw = frame.drop(columns=["t"]).copy()
                raw["last_modified"] = pd.Timestamp("2030-11-05 19:00", tz="America/New_York") + pd.to_timedelta(frame["t"].values * 10, unit="min")
                h = VersionedDataHandler("2099-11-03_USA_G", "S", "county", estimands=["margin"])

                class Store:
                    def get(self, path_, sample):
                        return raw.copy()

                h.s3_client = Store()
                h.get_versioned_results()
                res = h.compute_versioned_margin_estimate()
            else:
                h = object.__new__(VersionedDataHandler)
                res = h.compute_versioned_margin_estimate(data=derived(frame.drop(columns=["t"])))
        out = {}
        for rec in res.to_dict("records"):
            out.setdefault(rec["geographic_unit_fips"], []).append(tuple("nan" if (isinstance(rec[c], float) and rec[c] != rec[c]) else (float(rec[c]).hex() if isinstance(rec[c], (int, float)) else str(rec[c]))
                                                                         for c in ("percent_expected_vote", "nearest_observed_vote", "est_margin", "est_correction", "error_type")))
        return out

    allf = pd.DataFrame(rows)
    res = {"job": list(job), "units": k, "rows": len(rows), "ok": True, "exc": None, "s": [], "histories": hists, "order": [r["geographic_unit_fips"] for r in rows]}
    try:
        together = run_frame(allf)
        for u in hists:
            alone = run_frame(allf[allf["geographic_unit_fips"] == u].reset_index(drop=True))
            if together.get(u) != alone.get(u):
                a, b = alone.get(u) or [], together.get(u) or []
                diff = next((i for i, (x, y) in enumerate(zip(a, b)) if x != y), min(len(a), len(b)))
                res["s"].append({"what": f"unit {u} ({len(hists[u])} versions) processed together with {k - 1} other units whose versions are interleaved with its own gets "
                                         f"{len(b)} rows, first difference at row {diff}: alone {a[diff] if diff < len(a) else None}, together {b[diff] if diff < len(b) else None}",
                                 "kind": "units-not-independent"})
                break
    except Exception as e:  # noqa: BLE001
        res["ok"] = False
        res["exc"] = (type(e).__name__, str(e)[:200])
    return res


def run(chk):
    ok, rep = chk.proofs()
    chk.assumptions += ["the model works on the exact rational value of the (binary64) inputs; estimates compared at 1e-9 relative",
                        "searchsorted(side='right') on an ascending array is modelled as the last observation not above p",
                        "the averaging filter of BootstrapElectionModel._extrapolate_unit_margin (C17_never_averaged) is modelled from the source text; it is "
                        "not exercised by the correspondence runs because the surrounding function needs the S3 version store"]
    n = 160 if chk.tier == "quick" else 4000
    rng = random.Random(chk.seed * 271 + 17)
    jobs = [(rng.randint(0, 2**31), KINDS[i % len(KINDS)], ["int", "float", "handler"][(i // len(KINDS)) % 3]) for i in range(n)]
    outs = core.pmap(worker, jobs, chunksize=4)
    exprs = [o["expr"] for o in outs if o["ok"]]
    res, errs = core.coq_eval("C17", IMPORTS, exprs, shard=40)
    it = iter(res)
    amb = 0
    for o in outs:
        seed, kind, dtype = o["job"]
        replay = {"kind": "c17", "job": o["job"], "history": o.get("hist")}
        chk.count({"n": o["n"], "kind": kind, "dtype": dtype, "err": o.get("err")}, nontrivial=o["n"] >= 3,
                  sample={"kind": kind, "dtype": dtype, "versions": o.get("hist"), "error_types": o.get("err")} if o["n"] <= 4 else None)
        if not o["ok"]:
            chk.violation(f"compute_versioned_margin_estimate failed on a {kind}/{dtype} history: {o['exc']}", replay, {"kind": "raises", "hkind": kind})
            continue
        r = next(it)
        for f in o["s"]:
            chk.violation(f["what"] + f" ({kind}, {dtype} columns)", replay, {"kind": f["kind"], "dtype": dtype})
        if r is None:
            chk.violation("correspondence case did not evaluate", dict(replay, errors=errs[:1]), {"kind": "coq-eval"}, no_input=True)
            continue
        okb, cnt = r.strip("()").split(",")
        amb += int(cnt.strip().replace("%nat", ""))
        if okb.strip() != "true" and not o["s"]:
            chk.violation(f"returned frame differs from the model's table for a {kind}/{dtype} history although the C17 predicate holds on it",
                          dict(replay, correspondence="coq/Model/Versioned.v check_versioned"), {"kind": "model-diff"}, no_input=True)
    # several units in one frame, versions interleaved in time
    mjobs = [(rng.randint(0, 2**31), ["data", "handler"][i % 2]) for i in range(16 if chk.tier == "quick" else 300)]
    for o in core.pmap(multi_job, mjobs, chunksize=2):
        chk.count({"multi_units": o["units"], "path": o["job"][1]}, nontrivial=o["units"] >= 2 and o["ok"],
                  sample={"stream": "several units, interleaved versions", "units": o["units"], "rows": o["rows"], "order": o["order"][:12]} if o["units"] == 3 else None)
        rp = {"kind": "c17-multi", "job": o["job"], "histories": o["histories"], "order": o["order"]}
        if not o["ok"]:
            chk.violation(f"compute_versioned_margin_estimate failed on a frame of {o['units']} interleaved units: {o['exc']}", rp, {"kind": "raises", "hkind": "multi"})
        for f in o["s"]:
            chk.violation(f["what"], rp, {"kind": f["kind"]})
    if not ok and not [v for v in chk.violations if not v["no_input"]]:
        chk.violation("proof obligations of C17 no longer check", {"theorem_file": "coq/Properties/C17.v", "log": rep.get("log_tail", "")[-1500:]}, {"kind": "proof-broken"}, no_input=True)
    return chk.finish(RULE, extra={"ambiguous_percent_rows_not_compared": amb})


def replay(chk, payload):
    if payload["replay"].get("kind") == "c17-multi":
        o = multi_job(tuple(payload["replay"]["job"]))
        print(json.dumps({k_: o[k_] for k_ in ("ok", "exc", "s", "order")}, indent=1, default=str)[:3000])
        return 1 if (o["s"] or not o["ok"]) else 0
    o = worker(tuple(payload["replay"]["job"]))
    print(json.dumps({k: o.get(k) for k in ("ok", "exc", "s", "err", "hist")}, indent=1, default=str))
    return 1 if (not o["ok"] or o.get("s")) else 0
