"""C07 -- Race calls and call-stops are always honoured; contradictory calls are rejected."""
import itertools
import json
import random

from harness import aggfam, boot, core, gen
from harness.core import llit, qlit, slit, zlit

IMPORTS = ("From Coq Require Import ZArith QArith List String.\nImport ListNotations.\nFrom Elex Require Import Model.Calls.\n")

RULE = ("(a) the complete abstraction table, every run: (lower, upper, prediction) each in {negative, slightly negative, zero, slightly positive, positive} x {called "
        "left, called right, not called} x {stop-listed, not} = 750 contests (covering the 162 sign cells) in one BootstrapElectionModel object with injected bootstrap draws, at two levels; reported "
        "prediction and bounds compared inside Coq with adjust_pred / adjust_bounds, and the statement checked; (b) _format_called_contests on "
        "generated call lists (overlapping, unknown contests, duplicates) against format_called; (c) get_estimates runs with call and stop lists on "
        "state and state_district contests. distinct = table cell or (list shape) or API fingerprint; non-trivial = a call or stop is present")

VALS = [-0.0625, -0.001953125, 0.0, 0.001953125, 0.0625]


def table_run(alpha):
    import numpy as np

    cells = []
    for lo, hi, p in itertools.product(VALS, VALS, VALS):
        for call in ("L", "R", "N"):
            for stop in (True, False):
                cells.append((lo, hi, p, call, stop))
    # six more contests in which nothing has been counted and nothing is predicted (turnout 0, margin 0/0): a call made at poll close
    n_regular = len(cells)
    for call in ("L", "R", "N"):
        for stop in (True, False):
            cells.append((0.0, 0.0, 0.0, call, stop))
    names = [f"c{i:03d}" for i in range(len(cells))]
    B = 10
    diff = np.zeros((len(cells), B))
    for i, (lo, hi, p, call, stop) in enumerate(cells):
        a, b = p - hi, p - lo
        if a > b:
            a, b = b, a
        diff[i, : B // 2] = a
        diff[i, B // 2:] = b
    m = boot.model(B)
    rep, non, unx = boot.one_unit_per_contest(names, [c[2] for c in cells])
    boot.inject(m, diff, [c[2] for c in cells], turnout=[1.0] * n_regular + [0.0] * (len(cells) - n_regular))
    lhs = [n for n, c in zip(names, cells) if c[3] == "L"]
    rhs = [n for n, c in zip(names, cells) if c[3] == "R"]
    stops = [n for n, c in zip(names, cells) if c[4]]
    df = m.get_aggregate_predictions(rep, non, unx, ["postal_code"], "margin", lhs_called_contests=lhs, rhs_called_contests=rhs)
    lo_, hi_ = m.get_aggregate_prediction_intervals(rep, non, unx, ["postal_code"], alpha, None, "margin", lhs_called_contests=lhs, rhs_called_contests=rhs,
                                                   stop_model_call=stops)
    out = []
    for i, c in enumerate(cells):
        out.append({"cell": c, "name": names[i], "pred": float(df["pred_margin"].iloc[i]), "lower": float(np.asarray(lo_).flatten()[i]),
                    "upper": float(np.asarray(hi_).flatten()[i]), "order": list(df["postal_code"])[i]})
    return out


def statement_fail(r):
    lo, hi, p, call, stop = r["cell"]
    if call == "L":
        if r["pred"] < 0.005 - 1e-12:
            return f"called left but prediction {r['pred']} < +0.005"
        if not stop and r["lower"] < 0:
            return f"called left, not stop-listed, but lower bound {r['lower']} is negative"
    if call == "R":
        if r["pred"] > -0.005 + 1e-12:
            return f"called right but prediction {r['pred']} > -0.005"
        if not stop and r["upper"] > 0:
            return f"called right, not stop-listed, but upper bound {r['upper']} is positive"
    if call == "N" and stop and not (r["lower"] <= 0 <= r["upper"]):
        return f"stop-listed and not called but interval [{r['lower']}, {r['upper']}] does not contain 0"
    if call == "N" and not stop:
        elo = min(p - (p - lo if lo <= hi else p - hi), p - 0.001)
        if r["pred"] != p:
            return f"neither called nor stopped but the prediction changed {p} -> {r['pred']}"
    return None


def format_job(seed):
    from harness import run_impl

    run_impl._imp()
    from elexmodel.models.BootstrapElectionModel import BootstrapElectionModelException

    rng = random.Random(seed)
    contests = [f"S{i}" for i in range(rng.randint(1, 8))]
    pool = contests + ["ZZ", "S1_1", ""]
    lhs = [rng.choice(pool if rng.random() < 0.25 else contests) for _ in range(rng.randint(0, 4))]
    rhs = [rng.choice(pool if rng.random() < 0.25 else contests) for _ in range(rng.randint(0, 4))]
    if rng.random() < 0.5:
        rhs = [c for c in rhs if c not in lhs]
    m = boot.model(10)
    try:
        v = m._format_called_contests(lhs, rhs, contests, 1, 0, -1)
        impl = [int(x) for x in v]
    except BootstrapElectionModelException:
        impl = None
    except Exception as e:  # noqa: BLE001
        impl = ("other", type(e).__name__)
    return {"lhs": lhs, "rhs": rhs, "contests": contests, "impl": impl}


def api_job(job):
    seed, kind = job
    rng = random.Random(seed)
    office = ["H", "Y", "Z"][seed % 3] if kind == "district" else "S"           # every district office, not only the House
    extra = {"n_districts": 4, "n_units": rng.randint(110, 150)} if kind == "district" else {}      # districts 1, 10, 2, 3: string order differs from numeric order
    case = gen.gen_case(rng, pi_method="bootstrap", office=office, n_states=2, n_unexpected=0,
                        aggregates=["postal_code", "district", "unit"] if kind == "district" else ["postal_code", "unit"], alphas=[0.7, 0.9], **extra)
    if kind == "district":
        contests = sorted({f"{b['postal_code']}_{b['district']}" for b in case["baseline"]})
    else:
        contests = sorted({b["postal_code"] for b in case["baseline"]})
    rng.shuffle(contests)
    k = len(contests)
    lhs = contests[: max(1, k // 3)]
    rhs = contests[max(1, k // 3): max(2, 2 * k // 3)]
    stops = [c for c in contests if rng.random() < 0.4]
    bad = None
    if kind == "both":
        rhs = rhs + lhs[:1]
        bad = "both"
    if kind == "unknown":
        lhs = lhs + ["QQ"]
        bad = "unknown"
    import copy

    h_plain = aggfam.harvest(copy.deepcopy(case))
    if not h_plain["ok"]:
        # the election cannot be estimated at all (with or without calls): nothing to learn about call validation from it
        return {"job": list(job), "ok": False, "exc": h_plain.get("exc"), "bad": None, "lhs": [], "rhs": [], "stops": [], "fails": [], "office": office, "skipped": True}
    if bad is not None:
        h_plain = None
    case["params"].update({"lhs_called_contests": lhs, "rhs_called_contests": rhs, "stop_model_call": stops})
    h = aggfam.harvest(case)
    res = {"job": list(job), "ok": h["ok"], "exc": h.get("exc"), "bad": bad, "lhs": lhs, "rhs": rhs, "stops": stops, "fails": [], "office": office}
    if not h["ok"]:
        return res
    agg = "district" if kind == "district" else "postal_code"
    cols = aggfam.aggregate_list(office, agg)
    # both what the model handed to the results handler and the table the caller finally receives
    final_name = {"postal_code": "state_data", "district": "district_data"}[agg]
    sources = [("", h["agg"][f"margin|{agg}"]["rows"])] + ([(f" (returned {final_name})", h["final_tables"][final_name])] if final_name in h.get("final_tables", {}) else [])
    for tag, rows_ in sources:
        for rec in rows_:
            name = "_".join(str(rec[c]) for c in cols)
            for a in case["params"]["prediction_intervals"]:
                lo, hi, p = rec[f"lower_{a}_margin"], rec[f"upper_{a}_margin"], rec["pred_margin"]
                if name in lhs and (p < 0.005 - 1e-12 or (name not in stops and lo < 0)):
                    res["fails"].append(f"{name} called left: pred {p}, lower_{a} {lo}{tag}")
                if name in rhs and (p > -0.005 + 1e-12 or (name not in stops and hi > 0)):
                    res["fails"].append(f"{name} called right: pred {p}, upper_{a} {hi}{tag}")
                if name in stops and name not in lhs and name not in rhs and not (lo <= 0 <= hi):
                    res["fails"].append(f"{name} stop-listed: interval_{a} [{lo}, {hi}] does not contain 0{tag}")
    # a contest that is neither called nor stop-listed is reported exactly as in the run without any call
    if h_plain is not None and h_plain["ok"]:
        plain = {"_".join(r[c] for c in cols): r for r in h_plain["agg"][f"margin|{agg}"]["rows"]}
        for rec in h["agg"][f"margin|{agg}"]["rows"]:
            name = "_".join(rec[c] for c in cols)
            if name in lhs or name in rhs or name in stops or name not in plain:
                continue
            diff = [c for c in rec if isinstance(rec[c], float) and rec[c] == rec[c] and rec[c] != plain[name][c]]
            if diff:
                res["fails"].append(f"{name} is neither called nor stop-listed but its {diff[0]} is {rec[diff[0]]} with the calls and {plain[name][diff[0]]} without them")
                break
    return res


def run(chk):
    ok, rep = chk.proofs()
    chk.assumptions += ["bootstrap draw matrices are oracle inputs (injected into the model object like the repository's unit tests do)"]
    # (a) complete table at two levels
    exprs = []
    rows_all = []
    for alpha in (0.9, 0.7):
        rows = table_run(alpha)
        for r in rows:
            lo, hi, p, call, stop = r["cell"]
            c = {"L": "CallL", "R": "CallR", "N": "NoCall"}[call]
            a, b = sorted([p - hi, p - lo])
            # raw bounds relative to the prediction: lower = p - b, upper = p - a
            exprs.append(f"check_adjust {c} {core.blit(stop)} {qlit(p)} {qlit(p - b)} {qlit(p - a)} {qlit(r['pred'])} {qlit(r['lower'])} {qlit(r['upper'])}")
            rows_all.append((alpha, r))
    res, errs = core.coq_eval("C07", IMPORTS, exprs, shard=200, tag="tab")
    for (alpha, r), v in zip(rows_all, res):
        chk.count({"cell": r["cell"], "alpha": alpha}, nontrivial=r["cell"][3] != "N" or r["cell"][4],
                  sample={"cell(lower,upper,pred,call,stop)": r["cell"], "level": alpha, "reported": [r["pred"], r["lower"], r["upper"]]} if r["cell"] == (-0.0625, 0.0625, 0.0, "L", False) else None)
        replay = {"kind": "table", "cell": r["cell"], "alpha": alpha}
        f = statement_fail(r)
        if r["order"] != r["name"]:
            chk.violation("contest order of the returned frame differs from the injected one", replay, {"kind": "harness"}, no_input=True)
        if f:
            chk.violation(f"bootstrap outcome (lower {r['cell'][0]}, upper {r['cell'][1]}, prediction {r['cell'][2]}), call {r['cell'][3]}, stop {r['cell'][4]}, level {alpha}: {f}",
                          replay, {"kind": "call-not-honoured", "call": r["cell"][3], "stop": r["cell"][4]})
        elif v != "true":
            chk.violation(f"cell {r['cell']} level {alpha}: reported ({r['pred']}, {r['lower']}, {r['upper']}) differs from adjust_pred/adjust_bounds although the statement holds",
                          dict(replay, correspondence="coq/Model/Calls.v check_adjust"), {"kind": "model-diff"}, no_input=True)
    # (b) validation of the lists
    rng = random.Random(chk.seed * 31 + 7)
    n = 120 if chk.tier == "quick" else 2000
    fj = core.pmap(format_job, [rng.randint(0, 2**31) for _ in range(n)], chunksize=16)
    exprs = []
    for o in fj:
        impl = "None" if o["impl"] is None else (f"(Some {llit([zlit(x) for x in o['impl']])})" if isinstance(o["impl"], list) else "None")
        exprs.append(f"check_format {llit([slit(x) for x in o['lhs']])} {llit([slit(x) for x in o['rhs']])} {llit([slit(x) for x in o['contests']])} {impl}")
    res, errs = core.coq_eval("C07", IMPORTS, exprs, shard=200, tag="fmt")
    for o, v in zip(fj, res):
        both = set(o["lhs"]) & set(o["rhs"])
        unknown = (set(o["lhs"]) | set(o["rhs"])) - set(o["contests"])
        chk.count({"nl": len(o["lhs"]), "nr": len(o["rhs"]), "both": bool(both), "unk": bool(unknown)}, nontrivial=bool(o["lhs"] or o["rhs"]))
        replay = {"kind": "format", "lhs": o["lhs"], "rhs": o["rhs"], "contests": o["contests"]}
        should_reject = bool(both or unknown)
        rejected = o["impl"] is None
        if isinstance(o["impl"], tuple):
            chk.violation(f"_format_called_contests raised {o['impl'][1]} instead of the dedicated error", replay, {"kind": "wrong-exception"})
        elif should_reject != rejected:
            chk.violation(f"lhs={o['lhs']} rhs={o['rhs']} contests={o['contests']}: {'accepted' if not rejected else 'rejected'} but should be {'rejected' if should_reject else 'accepted'}",
                          replay, {"kind": "validation"})
        elif v != "true":
            chk.violation("called-contest vector differs from format_called", dict(replay, impl=o["impl"], correspondence="coq/Model/Calls.v check_format"),
                          {"kind": "model-diff"}, no_input=True)
    # (c) API
    kinds = ["state", "district", "both", "unknown", "state", "district"] if chk.tier == "quick" else ["state", "district", "both", "unknown"] * 8
    aj = core.pmap(api_job, [(rng.randint(0, 2**31), k) for k in kinds])
    for o in aj:
        chk.count({"api": o["job"][1], "ok": o["ok"]}, nontrivial=True, sample={"api": o["job"][1], "lhs": o["lhs"], "rhs": o["rhs"], "stops": o["stops"], "outcome": o["exc"] or "completed"})
        replay = {"kind": "api", "job": o["job"]}
        if o.get("skipped"):
            continue
        if o["bad"]:
            if o["ok"] or o["exc"][0] != "BootstrapElectionModelException":
                chk.violation(f"contradictory / unknown call ({o['bad']}) was not rejected with the dedicated error: {o['exc'] or 'estimates produced'}", replay, {"kind": "api-validation"})
        elif not o["ok"]:
            if o["exc"][0] != "ModelNotEnoughSubunitsException":
                chk.violation(f"run with valid call lists failed: {o['exc']}", replay, {"kind": "api-failed"})
        for f in o["fails"]:
            chk.violation(f, replay, {"kind": "call-not-honoured-api"})
    if not ok and not [v for v in chk.violations if not v["no_input"]]:
        chk.violation("proof obligations of C07 no longer check", {"theorem_file": "coq/Properties/C07.v", "log": rep.get("log_tail", "")[-1500:]}, {"kind": "proof-broken"}, no_input=True)
    return chk.finish(RULE, extra={"table_cells": 750, "table_exhaustive": True})


def replay(chk, payload):
    r = payload["replay"]
    if r["kind"] == "api":
        print(json.dumps(api_job(tuple(r["job"])), indent=1, default=str))
    else:
        print(json.dumps(r, indent=1))
    return 0
