"""C20 -- A failed or inaccurate quantile-regression solve is retried, not fatal."""
import json
import random

from harness import aggfam, core, gen

RULE = ("fault enumeration: for each run configuration (nonparametric / gaussian, 1-3 estimands, 1-3 levels, with and without features and "
        "regularisation) EVERY fit position of the run (median, lower, upper of every estimand and level) x {SolverError, UserWarning} is injected "
        "at the first attempt of that fit (and, without regularisation, at several fits of the same run: first and last, two in a row, all of them), and once more one layer down at every per-quantile solve inside the solver (a failure in the middle of a fit); the run must complete and every returned table must equal the fault-free run (1e-6 relative: the LP is "
        "the same up to a positive scaling of the objective); the retry call's captured keyword arguments are compared with the first attempt's. "
        "plus one regularised fit on which the real solver reports an inaccurate solution (no injection). distinct = (configuration, fit position, failure kind); non-trivial = the fault was actually raised and a retry happened")


def config_case(seed, kw):
    rng = random.Random(seed)
    return gen.gen_case(rng, outlier=False, special=False, blocklist=False, **kw)


def tables_of(h):
    out = {}
    for k, v in h["final_tables"].items():
        out[k] = v
    return out


def compare_tables(t0, t1, tol=1e-6):
    for name in t0:
        a, b = t0[name], t1.get(name)
        if b is None or len(a) != len(b):
            return f"table {name} missing or of different length"
        for ra, rb in zip(a, b):
            for c in ra:
                va, vb = ra[c], rb.get(c)
                if isinstance(va, (int, float)) and not isinstance(va, bool):
                    if va != va and vb != vb:
                        continue
                    if vb is None or abs(va - vb) > tol * max(1.0, abs(va)):
                        return f"table {name} column {c}: {va} (fault-free) vs {vb} (with fault)"
                elif va != vb:
                    return f"table {name} column {c}: {va!r} vs {vb!r}"
    return None


def worker(job):
    from harness import run_impl

    seed, kw, target, kind = job[:4]
    layer = job[4] if len(job) > 4 else "fit"
    case = config_case(seed, kw)
    run_impl._imp()
    import cvxpy

    state = {"first_attempts": 0, "raised": False, "retries": []}

    def fault(i, rec, kwargs):
        if kwargs.get("normalize_weights", True) is False:
            state["retries"].append({k: (None if hasattr(v, "shape") else v) for k, v in kwargs.items()})
            return
        k = state["first_attempts"]
        state["first_attempts"] += 1
        state.setdefault("firsts", []).append({k2: (None if hasattr(v, "shape") else v) for k2, v in kwargs.items()})
        if layer == "reference" and target is not None and k == target:
            # no failure: this one fit is simply solved without weight normalisation (what a retried fit amounts to)
            kwargs["normalize_weights"] = False
            state["raised"] = True
            return
        if layer == "multi" and target is not None and k in target:
            # several failing fits in one run: each of them must be retried on its own
            state["raised"] = True
            state["n_raised"] = state.get("n_raised", 0) + 1
            if kind == "SolverError":
                raise cvxpy.error.SolverError("injected by the C20 check (one of several)")
            run_impl.emit_inaccuracy_warning()
            state["warning_not_raised"] = True
        if layer == "fit" and target is not None and k == target:
            state["raised"] = True
            if kind == "SolverError":
                raise cvxpy.error.SolverError("injected by the C20 check")
            # the inaccuracy warning, issued the way the installed cvxpy issues it: an exception only if the library's filters say so
            run_impl.emit_inaccuracy_warning()
            state["warning_not_raised"] = True

    def inner_fault(j, in_retry, tau):
        # a failure in the middle of a fit: raised at the j-th per-quantile solve of the first attempts
        if in_retry:
            return
        state["n_inner"] = j + 1
        if layer == "solve" and target is not None and j == target:
            state["raised"] = True
            if kind == "SolverError":
                raise cvxpy.error.SolverError("injected by the C20 check (per-quantile solve)")
            run_impl.emit_inaccuracy_warning()
            state["warning_not_raised"] = True

    with run_impl.SolverCapture(fault=fault, keep_arrays=False, inner_fault=inner_fault):
        h = aggfam.harvest(case)
    p = case["params"]
    res = {"job": [seed, kw, target, kind, layer], "ok": h["ok"], "exc": h.get("exc"), "n_first": state["first_attempts"], "n_inner": state.get("n_inner", 0), "raised": state["raised"], "n_raised": state.get("n_raised", 0),
           "retries": state["retries"], "warning_not_raised": state.get("warning_not_raised", False), "firsts": state.get("firsts", []), "tables": tables_of(h) if h["ok"] else None,
           "cfg": {"pi": p["pi_method"], "est": p["estimands"], "alphas": p["prediction_intervals"], "features": p["features"],
                   "lambda": p["model_parameters"].get("lambda_", 0), "fe": p["fixed_effects"]}}
    return res


def genuine_inaccurate_job(_):
    """A real regularised fit on which the installed conic solver reports an inaccurate solution (found by search, regenerated here
    from its seed): ConformalElectionModel.fit_model must come back for a second attempt without weight normalisation."""
    import warnings

    import numpy as np
    import pandas as pd

    from harness import run_impl

    run_impl._imp()
    import elexsolver.QuantileRegressionSolver as qmod
    from elexmodel.models.NonparametricElectionModel import NonparametricElectionModel

    rng = np.random.default_rng(0)
    case = None
    for trial in range(175):
        n = rng.integers(8, 40)
        p = rng.integers(1, 4)
        x = np.column_stack([np.ones(n)] + [rng.normal(size=n) * 10.0 ** rng.integers(-3, 6) for _ in range(p)])
        y = rng.normal(size=n) * 10.0 ** rng.integers(-4, 5)
        w = 10.0 ** rng.uniform(-14, 3, size=n)
        lam = 10.0 ** rng.uniform(-8, 6)
        if trial == 174:
            case = (x, y, w, lam)
    x, y, w, lam = case
    out = {"n": int(x.shape[0]), "p": int(x.shape[1] - 1), "lambda_": float(lam)}
    # precondition: solved directly, the solver does report the inaccuracy
    with warnings.catch_warnings(record=True) as rec:
        warnings.simplefilter("always")
        try:
            qmod.QuantileRegressionSolver().fit(x, y, taus=0.5, weights=w, lambda_=lam, fit_intercept=True)
        except Exception as e:  # noqa: BLE001
            out["precondition"] = f"direct solve raised {type(e).__name__}"
            return out
    out["precondition"] = any("inaccurate" in str(r.message) for r in rec)
    if out["precondition"] is not True:
        return out
    calls = []
    orig = qmod.QuantileRegressionSolver.fit

    def spy(slf, *a, **k):
        calls.append(bool(k.get("normalize_weights", True)))
        return orig(slf, *a, **k)

    qmod.QuantileRegressionSolver.fit = spy
    try:
        m = NonparametricElectionModel({"lambda_": lam})
        try:
            m.fit_model(qmod.QuantileRegressionSolver(), pd.DataFrame(x), pd.Series(y), 0.5, pd.Series(w), True)
        except Exception as e:  # noqa: BLE001
            out["exc"] = (type(e).__name__, str(e)[:150])
    finally:
        qmod.QuantileRegressionSolver.fit = orig
    out["attempts"] = calls
    return out


CONFIGS = [
    {"pi_method": "nonparametric", "estimands": ["turnout"], "alphas": [0.7], "features": [], "fixed_effects": {}},
    {"pi_method": "nonparametric", "estimands": ["dem", "turnout"], "alphas": [0.7, 0.9], "features": ["feat_a"], "fixed_effects": {}},
    {"pi_method": "gaussian", "estimands": ["turnout"], "alphas": [0.9], "features": ["feat_a", "feat_b"], "fixed_effects": {}},
    {"pi_method": "gaussian", "estimands": ["dem", "gop", "turnout"], "alphas": [0.7], "features": [], "fixed_effects": {"county_classification": "all"}},
    {"pi_method": "nonparametric", "estimands": ["turnout"], "alphas": [0.6, 0.8, 0.9], "features": ["feat_a"], "fixed_effects": {},
     "model_parameters": {"lambda_": 0.5}},
]


def run(chk):
    ok, rep = chk.proofs()
    chk.assumptions += ["the solver is an oracle: faults are injected from outside by wrapping QuantileRegressionSolver.fit; 'same tables' is checked at 1e-6 relative",
                        "fits of the outlier-detection models do not go through fit_model and are outside the property (outlier models off in these runs)"]
    configs = CONFIGS
    rng = random.Random(chk.seed * 613 + 20)
    seeds = [rng.randint(0, 2**31) for _ in configs]
    base_jobs = [(s, kw, None, None) for s, kw in zip(seeds, configs)]
    bases = core.pmap(worker, base_jobs)
    jobs = []
    for b, s, kw in zip(bases, seeds, configs):
        if not b["ok"]:
            chk.violation(f"fault-free run of configuration {kw} failed: {b['exc']}", {"kind": "c20", "seed": s, "kw": kw, "target": None, "fault": None},
                          {"kind": "base-run-failed"}, no_input=True)
            continue
        for k in range(b["n_first"]):
            for kind in ("SolverError", "UserWarning"):
                jobs.append((s, kw, k, kind, "fit"))
        # the same enumeration one layer down: every per-quantile solve (differs from the above as soon as one fit call solves
        # several quantiles, where a failure can leave coefficients of the earlier quantiles behind)
        for k in range(b["n_inner"]):
            jobs.append((s, kw, k, "SolverError" if k % 2 == 0 else "UserWarning", "solve"))
        if not kw.get("model_parameters", {}).get("lambda_") and b["n_first"] >= 2:
            # more than one failing fit in the same run (first and last; two in a row)
            n_ = b["n_first"]
            for tg, kind in (([0, n_ - 1], "SolverError"), ([n_ // 2 - 1 if n_ > 2 else 0, n_ // 2 if n_ > 2 else 1], "UserWarning"), (list(range(n_)), "SolverError")):
                jobs.append((s, kw, sorted(set(tg)), kind, "multi"))
        if kw.get("model_parameters", {}).get("lambda_"):
            # regularised: the retried fit solves a differently scaled problem (finding F20), so "same tables" is additionally
            # checked against the run in which exactly that fit -- and no other -- is solved without normalisation
            for k in range(b["n_first"]):
                jobs.append((s, kw, k, "none", "reference"))
    outs = core.pmap(worker, jobs)
    base_by = {json.dumps([s, kw], sort_keys=True): b for b, s, kw in zip(bases, seeds, configs)}
    refs = {json.dumps([o["job"][0], o["job"][1], o["job"][2]], sort_keys=True): o for o in outs if o["job"][4] == "reference"}
    outs = [o for o in outs if o["job"][4] != "reference"]
    for o in outs:
        s, kw, k, kind, layer = o["job"]
        b = base_by[json.dumps([s, kw], sort_keys=True)]
        chk.count({"cfg": o["cfg"], "k": k, "kind": kind, "layer": layer}, nontrivial=o["raised"] and len(o["retries"]) >= 1,
                  sample={"configuration": o["cfg"], "fits_in_run": b["n_first"], "fault_at_fit": k, "kind": kind, "completed": o["ok"]})
        replay = {"kind": "c20", "seed": s, "kw": kw, "target": k, "fault": kind, "layer": layer}
        if not o["raised"]:
            chk.violation(f"fit position {k} was never reached in the faulted run", replay, {"kind": "harness"}, no_input=True)
            continue
        if not o["ok"]:
            chk.violation(f"{kind} injected at fit {k} of {o['cfg']}: the run fails with {o['exc'][0]}: {o['exc'][1][:150]}", replay,
                          {"kind": "run-fails", "exc": o["exc"][0]})
            continue
        if layer == "multi":
            if len(o["retries"]) != len(k) or o.get("n_raised") != len(k):
                chk.violation(f"{kind} injected at the fits {k} of one run: {o.get('n_raised')} failures were raised and {len(o['retries'])} retries without weight normalisation "
                              f"were made (one retry per failing fit expected)", replay, {"kind": "retry-count", "multi": True})
                continue
            diff = compare_tables(b["tables"], o["tables"])
            if diff:
                chk.violation(f"{kind} at the fits {k} of {o['cfg']}: {diff}", replay, {"kind": "tables-differ", "regularised": False, "multi": True})
            continue
        if len(o["retries"]) != 1:
            extra = " (the solver's 'Solution may be inaccurate' warning, issued as the installed cvxpy issues it, was not turned into an error)" if o.get("warning_not_raised") else ""
            chk.violation(f"{kind} at fit {k}: expected exactly one retry without weight normalisation, saw {len(o['retries'])}{extra}", replay,
                          {"kind": "retry-count", "warning_ignored": bool(o.get("warning_not_raised"))})
            continue
        if layer == "solve":
            diff = compare_tables(b["tables"], o["tables"])
            if diff:
                chk.violation(f"{kind} at per-quantile solve {k} of {o['cfg']}: {diff}", replay, {"kind": "tables-differ", "regularised": bool(o["cfg"]["lambda"])})
            continue
        first = o["firsts"][k]
        retry = o["retries"][0]
        for key in ("taus", "lambda_", "fit_intercept"):
            d1 = first.get(key, {"taus": 0.5, "lambda_": 0.0, "fit_intercept": True}[key])
            d2 = retry.get(key, {"taus": 0.5, "lambda_": 0.0, "fit_intercept": True}[key])
            if d1 != d2:
                chk.violation(f"{kind} at fit {k}: retry passes {key}={d2!r}, the failed attempt had {d1!r}", replay, {"kind": "retry-args", "arg": key})
        diff = compare_tables(b["tables"], o["tables"])
        if diff:
            chk.violation(f"{kind} at fit {k} of {o['cfg']}: {diff}", replay, {"kind": "tables-differ", "regularised": bool(o["cfg"]["lambda"])})
        ref = refs.get(json.dumps([s, kw, k], sort_keys=True))
        if ref is not None and ref["ok"]:
            diff2 = compare_tables(ref["tables"], o["tables"])
            if diff2:
                chk.violation(f"{kind} at fit {k} of {o['cfg']}: the tables differ from the run in which only fit {k} is solved without weight normalisation: {diff2}",
                              replay, {"kind": "tables-differ-beyond-retry"})
    # a genuinely inaccurate solve (no injection at all)
    g = core.pmap(genuine_inaccurate_job, [0])[0]
    chk.count({"genuine_inaccurate": True, "precondition": str(g.get("precondition"))}, nontrivial=g.get("precondition") is True,
              sample={"stream": "genuinely inaccurate solve", "rows": g.get("n"), "features": g.get("p"), "lambda_": g.get("lambda_"), "solver_reports_inaccuracy": g.get("precondition"),
                      "fit_attempts_normalize_weights": g.get("attempts")})
    if g.get("precondition") is True and g.get("attempts") != [True, False]:
        chk.violation(f"a regularised fit ({g['n']} rows, {g['p']} features, lambda_={g['lambda_']:.5g}) on which the solver reports an inaccurate solution is not retried: "
                      f"fit attempts (normalize_weights) = {g.get('attempts')}, outcome {g.get('exc') or 'accepted silently'}", {"kind": "c20-genuine"},
                      {"kind": "retry-count", "warning_ignored": True})
    if not ok and not [v for v in chk.violations if not v["no_input"]]:
        chk.violation("proof obligations / generated facts of C20 no longer check", {"theorem_file": "coq/Properties/C20.v", "log": rep.get("log_tail", "")[-1500:],
                                                                                   "translator": chk.notes.get("translator_problems")}, {"kind": "proof-broken"}, no_input=True)
    return chk.finish(RULE, extra={"configurations": len(configs), "fault_runs": len(outs)}, exhaustive=True)


def replay(chk, payload):
    r = payload["replay"]
    if r.get("kind") == "c20-genuine":
        g = genuine_inaccurate_job(0)
        print(json.dumps(g, indent=1, default=str))
        return 0 if g.get("attempts") == [True, False] else 1
    o = worker((r["seed"], r["kw"], r["target"], r["fault"], r.get("layer", "fit")))
    print(json.dumps({"ok": o["ok"], "exc": o["exc"], "raised": o["raised"], "retries": o["retries"]}, indent=1, default=str))
    return 0 if o["ok"] else 1
