"""C12 -- Estimates are a deterministic function of the arguments."""
import json
import os
import random
import subprocess
import sys

from harness import core, gen

RULE = ("paired executions of the same final get_estimates call (and national summary) compared bit for bit: twice in one process on one client; on a "
        "fresh client; after 1-3 earlier calls with different arguments and a different estimator (history); with the global numpy / python generators "
        "re-seeded differently before every call; twice with the very same baseline DataFrame object; with the very same live-results DataFrame object that an earlier "
        "call for the other kind of estimand was given; with the baseline read from the local file that an "
        "earlier call with save_output=['data'] wrote; with every documented default of the call left out vs. written out; the national summary after three earlier summaries on the same client; in subprocesses under PYTHONHASHSEED in {0, 1, 4242}; all three estimators, with features and fixed "
        "effects. distinct = (estimator, kind of pairing); non-trivial = both executions completed")

HASHSEEDS = ["0", "1", "4242"]


def sub_run(sc, hashseed, tag):
    d = os.path.join(core.BUILD, "c12")
    os.makedirs(d, exist_ok=True)
    p = os.path.join(d, f"sc_{tag}.json")
    with open(p, "w") as fh:
        json.dump(sc, fh)
    env = dict(os.environ)
    env["PYTHONHASHSEED"] = hashseed
    try:
        out = subprocess.run([sys.executable, "-m", "harness.c12_sub", p], cwd=core.VERIF, env=env, stdout=subprocess.PIPE, stderr=subprocess.PIPE, text=True, timeout=600)
    except subprocess.TimeoutExpired:
        return {"ok": False, "exc": ("Timeout", "")}
    finally:
        if os.path.exists(p):
            os.remove(p)
    for line in out.stdout.splitlines():
        if line.startswith("C12RESULT "):
            return json.loads(line[len("C12RESULT "):])
    return {"ok": False, "exc": ("SubprocessFailed", out.stderr[-300:])}


def worker(job):
    seed, pi = job
    rng = random.Random(seed)
    kw = {}
    if pi != "bootstrap":
        kw["features"] = rng.choice([[], ["feat_a"]])
        kw["fixed_effects"] = rng.choice([{}, {"county_classification": "all"}])
    if pi == "bootstrap":
        kw["office"] = "H" if seed % 5 == 0 else ["S", "P"][seed % 2]      # mostly offices that have a national summary
        rng.random()
        if kw["office"] != "H":
            # enough contests for the summary (a count of contests) to react to a change of the contest-level distributions
            kw["tossup"] = True
            kw["frac_reporting"] = rng.choice([0.4, 0.5, 0.7])
            kw["n_states"] = rng.choice([6, 8, 10])
            kw["n_units"] = kw["n_states"] * rng.randint(14, 20)
    final = gen.gen_case(rng, pi_method=pi, n_unexpected=rng.choice([0, 1]), **kw)
    if pi == "bootstrap" and "postal_code" not in final["params"]["aggregates"]:
        final["params"]["aggregates"].append("postal_code")
    others = [gen.gen_case(random.Random(seed + 100 + i), pi_method=["nonparametric", "gaussian", "bootstrap"][(i + seed) % 3]) for i in range(rng.randint(1, 3))]
    nat = pi == "bootstrap" and final["office"] in ("S", "P")
    scenarios = {
        "plain": {"cases": [final], "nat_sum": nat},
        "twice-same-client": {"cases": [final, final], "nat_sum": nat, "shared_client": True},
        "fresh-client-after-history": {"cases": others + [final], "nat_sum": nat, "shared_client": False},
        "same-client-after-history": {"cases": others + [final], "nat_sum": nat, "shared_client": True},
        "global-rng-perturbed": {"cases": [final], "nat_sum": nat, "perturb_global_rng": True, "rng_salt": 7},
        "global-rng-perturbed-2": {"cases": [final, final], "nat_sum": nat, "perturb_global_rng": True, "rng_salt": 99},
    }
    scenarios["twice-one-baseline-frame"] = {"cases": [final, final], "nat_sum": nat, "shared_client": False, "shared_base_frame": True}
    scenarios["one-live-frame-after-other-estimand"] = {"cases": [final], "nat_sum": nat, "shared_client": False, "shared_feed_frame": True}
    if not final["params"].get("save_output"):
        scenarios["baseline-read-from-local-cache"] = {"cases": [final], "nat_sum": nat, "local_cache": True}
    if nat:
        scenarios["summary-after-summaries"] = {"cases": [final], "nat_sum": True, "nat_sum_history": True}
    alt = None
    if nat:
        # the same election with the other setting of the summary's correlation mode: its own reference, then the same summary after
        # three earlier summaries on that client
        import copy

        alt = []
        for t in range(3):
            final2 = copy.deepcopy(final)
            mp2 = final2["params"]["model_parameters"]
            # independent contests with the hard threshold: the mode in which the bounds come from single bootstrap draws and ties abound
            mp2["national_summary_correlation"] = False
            mp2.pop("agg_model_hard_threshold", None)
            mp2.pop("T", None)
            mp2["seed"] = 100 + t
            alt.append(({"cases": [final2], "nat_sum": True, "nat_unit_weights": True}, {"cases": [final2], "nat_sum": True, "nat_sum_history": True, "nat_unit_weights": True}))
    # the same request with every documented default left out of the call vs. written out (a default is part of the arguments)
    import copy as _copy
    final_d = _copy.deepcopy(final)
    pd_ = final_d["params"]
    pd_.update({"percent_reporting_threshold": 100, "handle_unreporting": "drop", "prediction_intervals": [0.7, 0.9]})
    pd_["aggregates"] = ["postal_code", "district", "unit"] if final_d["office"] in ("H", "Y", "Z") else ["postal_code", "unit"]
    if pi != "bootstrap":
        pd_.update({"features": [], "fixed_effects": {}})
    for k_ in ("turnout_factor_lower", "turnout_factor_upper", "outlier_z_threshold", "fit_margin_outlier_model", "fit_turnout_outlier_model", "robust", "beta", "winsorize"):
        pd_["model_parameters"].pop(k_, None)
    if pi != "bootstrap":
        pd_["model_parameters"].pop("lambda_", None)
        pd_["model_parameters"].pop("seed", None)
    alt = (alt or []) + [({"cases": [final_d], "nat_sum": False, "defaults": "spell"}, {"cases": [final_d], "nat_sum": False, "defaults": "omit"})]
    res = {}
    ref = sub_run(scenarios["plain"], "0", f"{seed}_ref")
    res["ref"] = ref
    out = {"job": list(job), "office": final["office"], "pairs": [], "ref_ok": ref.get("ok"), "ref_exc": ref.get("exc")}
    runs = [("hashseed-1", scenarios["plain"], "1"), ("hashseed-4242", scenarios["plain"], "4242")]
    for name in ("twice-same-client", "fresh-client-after-history", "same-client-after-history", "global-rng-perturbed", "global-rng-perturbed-2", "twice-one-baseline-frame", "one-live-frame-after-other-estimand",
                 "baseline-read-from-local-cache", "summary-after-summaries"):
        if name not in scenarios:
            continue
        runs.append((name, scenarios[name], HASHSEEDS[(seed + len(name)) % 3]))
    for name, sc, hs in runs:
        r = sub_run(sc, hs, f"{seed}_{name}")
        pair = {"name": name, "hashseed": hs, "ok": r.get("ok"), "exc": r.get("exc"), "diff": None}
        if ref.get("ok") and r.get("ok"):
            for t, dg in ref["tables"].items():
                if r["tables"].get(t) != dg:
                    pair["diff"] = f"table {t} differs"
                    break
            if pair["diff"] is None and ref.get("nat_sum") != r.get("nat_sum"):
                pair["diff"] = f"national summary differs ({ref.get('nat_sum') or ref.get('nat_sum_exc')} vs {r.get('nat_sum') or r.get('nat_sum_exc')})"
        elif bool(ref.get("ok")) != bool(r.get("ok")):
            pair["diff"] = f"outcome differs: {ref.get('exc')} vs {r.get('exc')}"
        out["pairs"].append(pair)
    for t, (sa, sb) in enumerate(alt or []):
        ra = sub_run(sa, "0", f"{seed}_altref{t}")
        rb = sub_run(sb, "1", f"{seed}_althist{t}")
        nm_ = "defaults-left-out-vs-written-out" if sa.get("defaults") else f"summary-after-summaries (independent contests, model seed {100 + t})"
        pair = {"name": nm_, "hashseed": "1", "ok": bool(ra.get("ok") and rb.get("ok")), "exc": rb.get("exc"), "diff": None}
        if sa.get("defaults") and bool(ra.get("ok")) != bool(rb.get("ok")):
            pair["diff"] = f"outcome differs: {ra.get('exc')} (defaults written out) vs {rb.get('exc')} (left out)"
        if ra.get("ok") and rb.get("ok"):
            if ra["tables"] != rb["tables"]:
                pair["diff"] = "tables differ"
            elif ra.get("nat_sum") != rb.get("nat_sum"):
                pair["diff"] = f"national summary differs ({ra.get('nat_sum') or ra.get('nat_sum_exc')} vs {rb.get('nat_sum') or rb.get('nat_sum_exc')})"
        out["pairs"].append(pair)
    return out


def baselines_job(seed):
    """Estimandizer.add_estimand_baselines applied once and twice to the same one-unit frame, margin requested"""
    from harness import run_impl
    run_impl._imp()
    import pandas as pd

    from elexmodel.handlers.data.Estimandizer import Estimandizer

    rng = random.Random(seed)
    rows = []
    for _ in range(8):
        dem, gop = rng.randint(0, 5000), rng.randint(0, 5000)
        turnout = dem + gop + rng.choice([0, 0, 1, 17, rng.randint(0, 900)])
        df = pd.DataFrame({"geographic_unit_fips": ["u"], "baseline_dem": [dem], "baseline_gop": [gop], "baseline_turnout": [turnout]})
        df = Estimandizer().add_estimand_baselines(df, {"margin": "margin"}, False)
        w1 = float(df["baseline_weights"].iloc[0])
        df = Estimandizer().add_estimand_baselines(df, {"margin": "margin"}, False)
        w2 = float(df["baseline_weights"].iloc[0])
        rows.append((dem, gop, turnout, w1, w2))
    return rows


def run(chk):
    ok, rep = chk.proofs()
    chk.assumptions += ["thread-level nondeterminism of BLAS / HiGHS is outside the model (single-threaded BLAS is configured for the runs; it would show up as a difference)",
                        "numpy / scipy generator algorithms are oracles: 'seeded' means the generator or random_state is built from the seed setting"]
    rng = random.Random(chk.seed * 1009 + 12)
    n = 6 if chk.tier == "quick" else 60
    jobs = [(rng.randint(0, 2**31), ["nonparametric", "gaussian", "bootstrap"][i % 3]) for i in range(n)]
    outs = core.pmap(worker, jobs, procs=min(core.NPROC, 6))
    n_pairs = 0
    for o in outs:
        seed, pi = o["job"]
        for pr in o["pairs"]:
            both = bool(o["ref_ok"] and pr["ok"])
            n_pairs += 1 if both else 0
            chk.count({"pi": pi, "pairing": pr["name"]}, nontrivial=both, sample={"estimator": pi, "pairing": pr["name"], "PYTHONHASHSEED": pr["hashseed"], "identical": pr["diff"] is None})
            if pr["diff"]:
                chk.violation(f"{pi} estimates are not reproducible ({pr['name']}, PYTHONHASHSEED={pr['hashseed']}): {pr['diff']}", {"kind": "c12", "job": o["job"], "pairing": pr["name"]},
                              {"kind": "nondeterministic", "estimator": pi, "pairing": pr["name"]})
    # the in-place baseline pass (F23): model and implementation on the same one-unit frames, one and two passes
    brow = [r for rows in core.pmap(baselines_job, [rng.randint(0, 2**31) for _ in range(3)]) for r in rows]
    bexpr = ["forallb (fun b : bool => b) " + core.llit([f"check_add_baselines {core.qlit(d)} {core.qlit(g)} {core.qlit(t)} {core.qlit(w1)} {core.qlit(w2)}" for d, g, t, w1, w2 in brow])]
    bres, berrs = core.coq_eval("C12", "From Coq Require Import ZArith QArith List.\nImport ListNotations.\nFrom Elex Require Import Model.Estimandizer.\n", bexpr, shard=1, tag="baselines")
    chk.evaluations += len(brow)
    if not bres or bres[0] != "true":
        chk.violation(f"baseline weights after one / two passes of add_estimand_baselines differ from add_baselines_margin of the model ({bres[:1]})",
                      {"kind": "baselines", "rows": brow[:4], "correspondence": "coq/Model/Estimandizer.v check_add_baselines", "errors": berrs[:1]}, {"kind": "model-diff"}, no_input=True)
    if n_pairs < 10:
        chk.violation(f"only {n_pairs} execution pairs completed", {"kind": "coverage", "excs": [o.get('ref_exc') for o in outs][:4]}, {"kind": "coverage"}, no_input=True)
    if not ok and not [v for v in chk.violations if not v["no_input"]]:
        chk.violation("proof obligations / generated randomness facts of C12 no longer check", {"theorem_file": "coq/Properties/C12.v", "log": rep.get("log_tail", "")[-1500:],
                                                                                              "translator": chk.notes.get("translator_problems")}, {"kind": "proof-broken"}, no_input=True)
    return chk.finish(RULE, extra={"pairs_compared": n_pairs})


def replay(chk, payload):
    o = worker(tuple(payload["replay"]["job"]))
    print(json.dumps({k: o.get(k) for k in ("ref_ok", "ref_exc", "pairs")}, indent=1, default=str))
    return 1 if any(p["diff"] for p in o["pairs"]) else 0
