"""C16 -- Fitting and prediction design matrices are aligned and identifiable."""
import json
import random

from harness import core
from harness.core import llit, qlit, slit

IMPORTS = "From Coq Require Import ZArith QArith List String.\nImport ListNotations.\nFrom Elex Require Import Model.Featurizer.\n"

RULE = ("generated frames (5-40 units over reporting / nonreporting / unexpected / non-modelled categories; 0-3 fixed effects with 'all' or selected "
        "levels, levels seen only among nonreporting or only among non-fitting rows, effects with a single observed level; 0-2 continuous features "
        "incl. baseline_normalized_margin; with and without separate-state models) through Featurizer.prepare_data / filter_to_active_features / "
        "generate_holdout_data exactly as the three estimators call them (positional slices); column lists and every matrix entry are compared inside "
        "Coq with the model (indicators and 1/(k+1) shares exact to 1e-9, centred features 1e-9); the statement (same columns, order, non-constant "
        "fitted dummies, one absorbed level per effect, indicator / equal-share rule, centring) is re-evaluated on the output. distinct = "
        "(effects, selected levels, categories present, separate states); non-trivial = >= 1 fixed effect with >= 2 observed levels and >= 1 unseen level")

# "ward" is a numeric column (an in-memory baseline frame need not hold strings); its levels and the user's selection are integers
LEVELS = {"county_classification": ["urban", "rural", "suburban", "exurb"], "postal_code": ["AA", "BB", "CC"], "county_fips": ["001", "002", "010", "1", "10", "011"],
          "ward": [1, 2, 3, 4]}


def gen_frame(rng):
    fes = rng.sample(list(LEVELS), rng.randint(0, 3))
    fe_param = {}
    for fe in fes:
        if rng.random() < 0.4:
            fe_param[fe] = rng.sample(LEVELS[fe], rng.randint(1, 2))
        else:
            fe_param[fe] = "all"
    as_list = bool(fes) and all(v == "all" for v in fe_param.values()) and rng.random() < 0.5
    feats = rng.choice([[], ["feat_a"], ["baseline_normalized_margin", "feat_a"], ["feat_a", "feat_b"]])
    n = rng.randint(5, 40)
    rows = []
    n_rep = rng.randint(2, max(2, n - 2))
    for i in range(n):
        if i < n_rep:
            rep, cat = 1, "expected"
        elif rng.random() < 0.75:
            rep, cat = 0, "expected"
        else:
            # units outside the model; some of them fully reporting (they are still not fitting rows)
            rep, cat = rng.choice([0, 0, 1]), rng.choice(["unexpected", "non-modeled: blocklisted"])
        r = {"reporting": rep, "unit_category": cat, "geographic_unit_fips": f"u{i}",
             "feat_a": round(rng.uniform(0, 1), 3), "feat_b": round(rng.gauss(0, 1), 3), "baseline_normalized_margin": round(rng.uniform(-0.5, 0.5), 3)}
        for fe in LEVELS:
            pool = LEVELS[fe]
            if rep == 1:
                r[fe] = rng.choice(pool[: rng.choice([1, 2, 3])])
            else:
                r[fe] = rng.choice(pool)
        rows.append(r)
    sep = rng.sample(LEVELS["postal_code"], rng.randint(1, 2)) if (feats and rng.random() < 0.3) else []
    return {"fes": fes, "fe_param": fe_param, "as_list": as_list, "feats": feats, "rows": rows, "n_rep": n_rep, "sep": sep}


def worker(seed):
    import numpy as np
    import pandas as pd

    from harness import run_impl

    run_impl._imp()
    from elexmodel.handlers.data.Featurizer import Featurizer

    rng = random.Random(seed)
    fr = gen_frame(rng)
    df = pd.DataFrame(fr["rows"])
    # the index the callers hand over: the models pass pd.concat([reporting, nonreporting]) whose parts keep their own 0..n-1 labels (so labels
    # repeat); other callers pass a filtered or re-ordered frame (labels neither contiguous nor sorted)
    style = seed % 3
    if style == 1:
        df = pd.concat([df.iloc[: fr["n_rep"]].reset_index(drop=True), df.iloc[fr["n_rep"]:].reset_index(drop=True)], axis=0)
    elif style == 2:
        lab = list(range(3, 3 + 2 * len(df), 2))
        random.Random(seed + 1).shuffle(lab)
        df.index = lab
    fe_arg = fr["fes"] if fr["as_list"] else {k: fr["fe_param"][k] for k in fr["fes"]}
    out = {"seed": seed, "frame": dict({k: fr[k] for k in ("fes", "fe_param", "as_list", "feats", "sep", "n_rep")}, index_style=["unique", "repeated (concat)", "shuffled labels"][seed % 3]),
           "n": len(fr["rows"])}
    try:
        f = Featurizer(list(fr["feats"]), fe_arg, states_for_separate_model=list(fr["sep"]))
        x_all = f.prepare_data(df, center_features=True, scale_features=False, add_intercept=True)
        n_rep = fr["n_rep"]
        fit = f.filter_to_active_features(x_all[:n_rep])
        hold = f.generate_holdout_data(x_all[n_rep:])
        out.update({"ok": True, "complete": list(f.complete_features), "active": list(f.active_features),
                    "prepared": x_all.values.astype(float).tolist(), "fit": fit.values.astype(float).tolist(), "hold": hold.values.astype(float).tolist(),
                    "fit_cols": list(fit.columns), "hold_cols": list(hold.columns), "rows": fr["rows"]})
    except Exception as e:  # noqa: BLE001
        out.update({"ok": False, "exc": (type(e).__name__, str(e)[:200]), "rows": fr["rows"]})
    return out


def caller_job(job):
    """the three call sites' slices: capture the matrices handed to the solver in real runs with fixed effects"""
    import numpy as np

    from harness import aggfam, gen, run_impl

    seed, fk = job
    rng = random.Random(seed)
    fe = [{"county_fips": "all"}, {"county_classification": "all"}, {"postal_code": "all", "county_classification": "all"},
          {"county_classification": ["urban", "rural"]}, {"county_classification": ["urban"], "postal_code": "all"}][fk % 5]
    case = gen.gen_case(rng, pi_method=rng.choice(["nonparametric", "gaussian"]), fixed_effects=fe, outlier=False, alphas=[0.8], estimands=["turnout"])
    # what the model hands to its Featurizer must be the request's selection (levels listed by the user stay listed, the rest is pooled)
    run_impl._imp()
    from elexmodel.handlers.data.Featurizer import Featurizer as F_
    seen = []
    orig_init = F_.__init__

    def init(slf, features, fixed_effects, *a, **k):
        orig_init(slf, features, fixed_effects, *a, **k)
        seen.append({"features": list(slf.features), "params": {k_: list(v_) for k_, v_ in slf.fixed_effect_params.items()}})

    F_.__init__ = init
    try:
        with run_impl.SolverCapture() as cap:
            h = aggfam.harvest(case)
    finally:
        F_.__init__ = orig_init
    out = {"seed": seed, "fk": fk, "ok": h["ok"], "exc": h.get("exc"), "fe": fe, "bad": [], "featurizer_args": []}
    want_params = {k_: (["all"] if v_ == "all" else list(v_)) for k_, v_ in fe.items()}
    for sn in seen:
        if sn["params"] != want_params or sn["features"] != list(case["params"]["features"]):
            out["featurizer_args"].append({"got": sn, "want": {"features": list(case["params"]["features"]), "params": want_params}})
            break
    if not h["ok"]:
        return out
    fits = [r for r in cap.records if r["op"] == "fit"]
    for i, f in enumerate(fits):
        x = f["x"]
        for j in range(1, x.shape[1]):
            col = x[:, j]
            if set(np.unique(col)) <= {0.0, 1.0} and len(np.unique(col)) < 2:
                out["bad"].append({"fit": "median" if i % 3 == 0 else "interval", "fit_index": i, "column": j, "value": float(col[0]), "rows": int(x.shape[0])})
                break
    return out


def frow(fr, r):
    fit = r["reporting"] == 1 and r["unit_category"] == "expected"
    lv = llit([slit(str(r[fe])) for fe in fr["fes"]])
    ft = llit([qlit(r[f]) for f in fr["feats"]])
    return (f"{{| f_fit := {core.blit(fit)}; f_rep := {core.blit(r['reporting'] == 1)}; f_state := {slit(r['postal_code'])}; f_levels := {lv}; f_feats := {ft} |}}")


def encode(o):
    fr = o["frame"]
    fes = llit([f"({slit(fe)}, {'None' if fr['fe_param'][fe] == 'all' else '(Some ' + llit([slit(str(x)) for x in fr['fe_param'][fe]]) + ')'})" for fe in fr["fes"]])
    p = f"{{| p_fes := {fes}; p_feats := {llit([slit(x) for x in fr['feats']])}; p_sep := {llit([slit(x) for x in fr['sep']])}; p_center := true |}}"
    rows = o["rows"]
    rl = llit([frow(fr, r) for r in rows])
    n_rep = fr["n_rep"]
    mat = lambda m: llit([llit([qlit(x) for x in row]) for row in m])  # noqa: E731
    return (f"let p := {p} in let rows := {rl} in check_featurizer p rows {llit([slit(x) for x in o['complete']])} {llit([slit(x) for x in o['active']])} "
            f"{mat(o['prepared'])} (firstn {n_rep} rows) (skipn {n_rep} rows) {mat(o['fit'])} {mat(o['hold'])}")


def statement(o):
    """C16 evaluated directly on the implementation's matrices"""
    fails = []
    fr = o["frame"]
    if o["fit_cols"] != o["hold_cols"] or o["fit_cols"] != o["active"]:
        fails.append({"what": f"fitting columns {o['fit_cols']} differ from prediction columns {o['hold_cols']}", "kind": "columns"})
        return fails
    cols = o["active"]
    if cols[0] != "intercept":
        fails.append({"what": f"first column is {cols[0]}, not the intercept", "kind": "order"})
    bnm = [i for i, c in enumerate(cols) if c.startswith("baseline_normalized_margin")]
    if bnm and bnm != list(range(1, 1 + len(bnm))):
        fails.append({"what": f"baseline margin terms are not directly after the intercept: {cols}", "kind": "order"})
    rows = o["rows"]
    n_rep = fr["n_rep"]
    fitting = [(r, v) for r, v in zip(rows[:n_rep], o["fit"]) if r["reporting"] == 1 and r["unit_category"] == "expected"]
    for fe in fr["fes"]:
        sel = fr["fe_param"][fe]
        lvl = lambda r: str(r[fe]) if sel == "all" or r[fe] in sel else "other"  # noqa: E731
        fe_cols = [i for i, c in enumerate(cols) if c.startswith(fe + "_")]
        names = [cols[i][len(fe) + 1:] for i in fe_cols]
        observed = sorted({lvl(r) for r, _ in fitting})
        for i, nm in zip(fe_cols, names):
            vals = {v[i] for _, v in fitting}
            if len(vals) < 2:
                fails.append({"what": f"fitted dummy column {cols[i]} is constant ({vals}) on the fitting rows", "kind": "constant-column"})
        if fitting and len(observed) - len(names) != 1:
            fails.append({"what": f"effect {fe}: {len(observed)} observed levels {observed} but {len(names)} fitted columns {names} (exactly one level must be absorbed)", "kind": "absorbed"})
        k = len(names)
        for r, v in zip(rows[n_rep:], o["hold"]):
            lv = lvl(r)
            got = [v[i] for i in fe_cols]
            if lv in observed:
                want = [1.0 if nm == lv else 0.0 for nm in names]
            else:
                want = [1.0 / (k + 1)] * k
            if any(abs(a - b) > 1e-12 for a, b in zip(got, want)):
                fails.append({"what": f"effect {fe}: prediction row with level {lv!r} ({'seen' if lv in observed else 'unseen'} in fitting) has {got}, expected {want}", "kind": "holdout-row"})
                break
    # per-state feature copies: only for listed states that have a reporting unit
    for st in fr.get("sep", []):
        has_rep = any(r["postal_code"] == st and r["reporting"] == 1 for r in rows)
        for fname in fr["feats"]:
            present = f"{fname}_{st}" in o["complete"]
            if present and not has_rep:
                fails.append({"what": f"per-state copy {fname}_{st} was created although state {st} has no reporting unit (states_for_separate_model={fr['sep']})", "kind": "state-copy"})
            elif has_rep and not present:
                fails.append({"what": f"state {st} has reporting units and is listed for a separate model, but there is no column {fname}_{st}", "kind": "state-copy"})
    # centring over all rows
    pc = o["complete"]
    for fname in fr["feats"]:
        j = pc.index(fname)
        m = sum(row[j] for row in o["prepared"]) / len(o["prepared"])
        if abs(m) > 1e-9:
            fails.append({"what": f"feature {fname} has mean {m} over all units after centring", "kind": "centring"})
    return fails


def run(chk):
    ok, rep = chk.proofs()
    chk.assumptions += ["fixed-effect names are prefix-free (the code groups dummy columns with startswith(<effect>)); the four effect names of the repository's configs are",
                        "the interval fit's training-prefix slicing (finding F12: an active level may have no row in the training prefix) is a caller-level issue outside the "
                        "Featurizer API checked here"]
    rng = random.Random(chk.seed * 127 + 16)
    n = 150 if chk.tier == "quick" else 3000
    seeds = [rng.randint(0, 2**31) for _ in range(n)]
    outs = core.pmap(worker, seeds, chunksize=8)
    exprs, idx = [], []
    for o in outs:
        fr = o["frame"]
        cats = sorted({r["unit_category"] for r in o["rows"]})
        nt = False
        if o["ok"]:
            s = statement(o)
            o["s"] = s
            for fe in fr["fes"]:
                n_fe = len([c for c in o["active"] if c.startswith(fe + "_")])
                n_all = len([c for c in o["complete"] if c.startswith(fe + "_")])
                if n_fe >= 1 and n_all > n_fe:
                    nt = True
            exprs.append(encode(o))
            idx.append(o)
        chk.count({"fes": fr["fes"], "sel": {k: (v if v == "all" else len(v)) for k, v in fr["fe_param"].items()}, "feats": fr["feats"], "sep": bool(fr["sep"]), "cats": cats,
                   "ok": o["ok"]}, nontrivial=nt,
                  sample={"fixed_effects": fr["fe_param"], "features": fr["feats"], "separate_states": fr["sep"], "units": o["n"], "active_columns": o.get("active")})
        if not o["ok"]:
            # a fixed effect with no observed level at all (no fitting rows) cannot happen here: n_rep >= 2
            chk.violation(f"Featurizer failed on a generated frame: {o['exc']}", {"kind": "c16", "seed": o["seed"]}, {"kind": "raises", "exc": o["exc"][0]})
    res, errs = core.coq_eval("C16", IMPORTS, exprs, shard=12)
    for o, v in zip(idx, res):
        replay = {"kind": "c16", "seed": o["seed"]}
        for f in o["s"]:
            chk.violation(f["what"], replay, {"kind": f["kind"]})
        if v != "true" and not o["s"]:
            chk.violation("design matrices / column lists differ from the Featurizer model although the C16 predicate holds on them",
                          dict(replay, correspondence="coq/Model/Featurizer.v check_featurizer", coq=v), {"kind": "model-diff"}, no_input=True)
    # caller level: the matrices actually handed to the solver
    cj = core.pmap(caller_job, [(rng.randint(0, 2**31), [0, 3, 1, 4, 2, 3][k % 6]) for k in range(12 if chk.tier == "quick" else 120)])
    for o in cj:
        for fa in o.get("featurizer_args", []):
            chk.violation(f"a run with fixed_effects={o['fe']} builds its Featurizer with {fa['got']} (the request says {fa['want']}): the levels the user selected are not "
                          f"what is expanded / pooled", {"kind": "caller", "seed": o["seed"], "fk": o.get("fk")}, {"kind": "caller-featurizer-args"})
        chk.count({"caller_fe": sorted(o["fe"]), "ok": o["ok"]}, nontrivial=o["ok"], sample={"caller_run_fixed_effects": o["fe"], "constant_fitted_columns": o["bad"][:2]})
        for b in o["bad"]:
            chk.violation(f"{b['fit']} fit #{b['fit_index']} of a run with fixed effects {sorted(o['fe'])}: fitted dummy column {b['column']} is constant ({b['value']}) on its "
                          f"{b['rows']} fitting rows", {"kind": "caller", "seed": o["seed"], "fk": o.get("fk")}, {"kind": "caller-constant-column", "fit": b["fit"]})
    if not ok and not [v for v in chk.violations if not v["no_input"]]:
        chk.violation("proof obligations of C16 no longer check", {"theorem_file": "coq/Properties/C16.v", "log": rep.get("log_tail", "")[-1500:]}, {"kind": "proof-broken"}, no_input=True)
    return chk.finish(RULE)


def replay(chk, payload):
    if payload["replay"].get("kind") == "caller":
        o = caller_job((payload["replay"]["seed"], payload["replay"].get("fk", 0)))
        print(json.dumps({k: o.get(k) for k in ("ok", "exc", "fe", "bad", "featurizer_args")}, indent=1, default=str))
        return 1 if (o["bad"] or o["featurizer_args"]) else 0
    o = worker(payload["replay"]["seed"])
    print(json.dumps({k: o.get(k) for k in ("ok", "exc", "frame", "complete", "active")}, indent=1, default=str))
    return 0
