"""C05 -- With no covariates the model is uniform swing by the weighted median."""
import json
import random

from harness import aggfam, core, gen
from harness.core import llit, qlit, zlit

IMPORTS = "From Coq Require Import ZArith QArith List.\nImport ListNotations.\nFrom Elex Require Import Base.Loss Model.Conformal Model.Compare.\n"

RULE = ("get_estimates with features=[] and fixed_effects={} (nonparametric and gaussian, 1-3 vote-count estimands, all unit categories present, "
        "plus hand-built reporting sets whose weighted median is NOT unique, reporting sets whose weights span five orders of magnitude, and a second poll on a baseline frame the caller re-used and restated); the weighted median m of (counted - baseline)/baseline over the modelled "
        "reporting units (weights = baseline + 1) is computed inside Coq from the raw input; the captured median-regression coefficient must equal m and "
        "every nonreporting unit's prediction must equal rhe(max((1+m)*baseline, partial count)) (tie guard 1e-6); with a non-unique median the "
        "prediction must lie between the closed forms of the extreme weighted medians. distinct = run fingerprint; non-trivial = >= 5 reporting and "
        ">= 1 nonreporting unit with a unique weighted median")

BASECOL = {"dem": "baseline_dem", "gop": "baseline_gop", "turnout": "baseline_turnout"}
RESCOL = {"dem": "results_dem", "gop": "results_gop", "turnout": "results_turnout"}


def job_case(job):
    seed, kind = job
    rng = random.Random(seed)
    if kind == "nonunique":
        # two blocks of equal total weight with different relative changes: cumulative weight exactly 1/2
        base, feed = [], []
        n = rng.choice([4, 6, 8, 10]) + 6
        for i in range(n):
            b = {"postal_code": "AA", "geographic_unit_fips": f"{100 + i}", "county_fips": "001", "county_classification": "urban",
                 "baseline_dem": 40, "baseline_gop": 50, "baseline_turnout": 99, "feat_a": 0.0, "feat_b": 0.0}
            base.append(b)
        rep = n - 3
        for i, b in enumerate(base):
            if i < rep:
                t = 110 if i < rep // 2 else 90
                if rep % 2 == 1 and i == rep - 1:
                    t = 100
                feed.append({"postal_code": "AA", "geographic_unit_fips": b["geographic_unit_fips"], "results_dem": 40, "results_gop": 50, "results_turnout": t, "percent_expected_vote": 100})
            else:
                feed.append({"postal_code": "AA", "geographic_unit_fips": b["geographic_unit_fips"], "results_dem": 10, "results_gop": 10, "results_turnout": 30 + 80 * (i % 2), "percent_expected_vote": 40})
        case = {"office": "S", "unit_type": "county", "states": ["AA"], "baseline": base, "feed": feed,
                "params": {"estimands": ["turnout"], "prediction_intervals": [0.5], "percent_reporting_threshold": 100, "pi_method": "nonparametric",
                           "aggregates": ["postal_code", "unit"], "features": [], "fixed_effects": {}, "handle_unreporting": "drop",
                           "model_parameters": {"fit_turnout_outlier_model": False, "fit_margin_outlier_model": False}}}
        return case
    pi = rng.choice(["nonparametric", "gaussian"])
    kw = {}
    if kind == "scales":
        # weights spanning five orders of magnitude: two giants of nearly equal weight with different changes, many tiny units whose
        # change lies beyond both. The weighted median is the first giant's change by a margin (delta) that is large against the tiny
        # units' true total weight and small against what they would weigh after any clipping / flooring / low-precision rescaling
        n = rng.randint(20, 60)
        W = rng.randint(10**5, 5 * 10**6)
        w = rng.randint(50, 500)
        s_true, s_floor = n * (w + 1), n * (W // 1000)
        delta = int((s_true * s_floor) ** 0.5) if s_floor > 4 * s_true else 2 * s_true
        a, b, c = sorted(rng.sample([-0.2, -0.1, -0.05, 0.05, 0.1, 0.2, 0.3], 3))
        if rng.random() < 0.5:
            a, b, c = -a, -b, -c      # tiny units below both giants instead of above
        base, feed = [], []

        def add(i, turnout, change, pev=100):
            uid = f"{100 + i}"
            base.append({"postal_code": "AA", "geographic_unit_fips": uid, "county_fips": "001", "county_classification": "urban",
                         "baseline_dem": turnout // 2, "baseline_gop": turnout - turnout // 2 - 1, "baseline_turnout": turnout, "feat_a": 0.0, "feat_b": 0.0})
            res = int(round((turnout + 1) * (1 + change) * pev / 100.0))
            feed.append({"postal_code": "AA", "geographic_unit_fips": uid, "results_dem": res // 2, "results_gop": res - res // 2, "results_turnout": res,
                         "percent_expected_vote": pev})
        add(0, W, a)
        add(1, W - delta, b)
        for i in range(n):
            add(2 + i, w + rng.randint(0, 3), c + rng.uniform(0, 0.02) * (1 if c > 0 else -1))
        for i in range(5):
            add(2 + n + i, rng.choice([w, W // 10, W]), 0.0, pev=rng.choice([0, 30, 60]))
        return {"office": "S", "unit_type": "county", "states": ["AA"], "baseline": base, "feed": feed,
                "params": {"estimands": ["turnout"], "prediction_intervals": [0.7], "percent_reporting_threshold": 100, "pi_method": pi,
                           "aggregates": ["postal_code", "unit"], "features": [], "fixed_effects": {}, "handle_unreporting": "drop",
                           "model_parameters": {"fit_turnout_outlier_model": False, "fit_margin_outlier_model": False}}}
    if kind == "regularised":
        # a regularisation constant must not touch the intercept: the swing factor stays the weighted median
        kw["model_parameters"] = {"lambda_": rng.choice([0.5, 1.0, 10.0])}
    if kind == "pointer":
        # the configuration points an estimand at another baseline column (baseline_pointer: dem -> dem_alt, e.g. the presidential result of the
        # same year): previous result, weights, residuals and the scaled baseline all come from that column
        case = gen.gen_case(rng, pi_method=pi, features=[], fixed_effects={}, outlier=False, estimands=["dem", "turnout"], **kw)
        for b in case["baseline"]:
            b["baseline_dem_alt"] = int(b["baseline_dem"] * rng.uniform(0.5, 1.6)) + rng.randint(0, 40)
        case["baseline_pointer"] = {"dem": "dem_alt", "gop": "gop", "turnout": "turnout"}
        return case
    return gen.gen_case(rng, pi_method=pi, features=[], fixed_effects={}, outlier=False, **kw)


def worker(job):
    from harness import run_impl

    case = job_case(job)
    frame = None
    if job[1] == "second_poll":
        # a caller that keeps ONE baseline frame across polls: first poll on the frame, then some baselines are restated in that very
        # frame (and in the case), then the poll that is checked
        rng2 = random.Random(job[0] + 1)
        frame, _ = run_impl.frames(case)
        run_impl.run_case(case, base_frame=frame)
        ids = [b["geographic_unit_fips"] for b in case["baseline"] if b["baseline_turnout"] > 0]
        byid = {b["geographic_unit_fips"]: b for b in case["baseline"]}
        for uid in rng2.sample(ids, min(8, len(ids))):
            f = rng2.choice([0.6, 1.4, 1.7])
            for c in ("baseline_dem", "baseline_gop", "baseline_turnout"):
                byid[uid][c] = int(byid[uid][c] * f)
                frame.loc[frame["geographic_unit_fips"] == uid, c] = byid[uid][c]
    with run_impl.SolverCapture() as cap:
        h = aggfam.harvest(case, base_frame=frame)
    p = case["params"]
    out = {"job": list(job), "ok": h["ok"], "exc": h.get("exc"), "fp": aggfam.fingerprint(case, h), "exprs": [], "labels": [], "s": [], "nontrivial": False}
    if not h["ok"]:
        return out
    fits = [r for r in cap.records if r["op"] == "fit"]
    # any run with a regularisation constant goes through the iterative conic solver (also when the generator happened to draw one)
    regularised = job[1] == "regularised" or bool(p.get("model_parameters", {}).get("lambda_"))
    A = len(p["prediction_intervals"])
    BASECOL = dict(globals()["BASECOL"])
    for e_, ptr_ in (case.get("baseline_pointer") or {}).items():
        BASECOL[e_] = f"baseline_{ptr_}"
    base = {b["geographic_unit_fips"]: b for b in case["baseline"]}
    feed = {}
    for f in case["feed"]:
        feed.setdefault(f["geographic_unit_fips"], f)
    for k, e in enumerate(p["estimands"]):
        fi = k * (1 + 2 * A)
        if fi >= len(fits) or fits[fi]["p"] != 1:
            out["s"].append({"what": f"median fit of {e} not found or not intercept-only (columns: {fits[fi]['p'] if fi < len(fits) else None})", "kind": "capture-shape"})
            continue
        coef = float(fits[fi]["coefficients"].flatten()[0])
        obs = []
        for uid in h["rep_ids"]:
            b, f = base[uid], feed[uid]
            last = b[BASECOL[e]] + 1
            obs.append((last, f[RESCOL[e]], last))
        units = []
        byid = {r["geographic_unit_fips"]: r for r in h["unit"][e]}
        for uid in h["nonrep_ids"]:
            b = base[uid]
            r = byid[uid]
            pv = aggfam.whole(r[f"pred_{e}"])
            if pv is None:
                out["s"].append({"what": f"prediction of {uid} is not whole", "kind": "non-whole"})
                continue
            units.append((b[BASECOL[e]] + 1, aggfam.whole(r[f"results_{e}"]), pv))
        # python twin of the closed form (search oracle)
        from fractions import Fraction as Fr

        vals = [(Fr(last), Fr(res - last, last)) for last, res, _ in obs]
        W = sum(w for w, _ in vals)
        strict = [v for _, v in vals if 2 * sum(w for w, x in vals if x < v) < W and 2 * sum(w for w, x in vals if x > v) < W]
        if strict:
            m = strict[0]
            out["nontrivial"] = out["nontrivial"] or (len(obs) >= 5 and len(units) >= 1)
            for last, res, pv in units:
                exact = max((1 + m) * last, Fr(res))
                near_tie = abs((exact - Fr(1, 2)) - round(exact - Fr(1, 2))) < Fr(1, 10**6)
                slack = Fr(1) if regularised else (Fr(1, 10**6) if near_tie else 0)
                if abs(Fr(pv) - exact) > Fr(1, 2) + slack:
                    out["s"].append({"what": f"{e}: unit with baseline+1={last}, partial count {res} predicted {pv}, uniform swing by the weighted median {float(m)} gives {float(exact)}",
                                     "kind": "not-uniform-swing"})
                    break
        lit = llit([f"({qlit(w)}, {qlit(Fr(res - last, last))})" for last, res, w in obs])
        us = llit([f"({zlit(a)}, {zlit(b_)}, {zlit(c)})" for a, b_, c in units])
        fn = "check_swing_approx" if regularised else "check_swing"
        out["exprs"].append(f"{fn} {lit} {qlit(coef)} {us}")
        out["labels"].append(f"{e}")
        out["unique"] = bool(strict)
    out["sample"] = {"seed": job[0], "kind": job[1], "estimator": p["pi_method"], "estimands": p["estimands"], "reporting": len(h["rep_ids"]), "nonreporting": len(h["nonrep_ids"]),
                     "unique_median": out.get("unique")}
    return out


def run(chk):
    ok, rep = chk.proofs()
    chk.assumptions += ["the quantile-regression solver is an oracle: the theorem assumes it returns a minimiser of the weighted absolute loss; this is checked on every run "
                        "through the captured coefficient (1e-9)"]
    rng = random.Random(chk.seed * 503 + 5)
    n = 24 if chk.tier == "quick" else 400
    kinds = {5: "nonunique", 2: "regularised", 3: "scales", 4: "second_poll", 1: "pointer"}
    jobs = [(rng.randint(0, 2**31), kinds.get(i % 6, "random")) for i in range(n)]
    outs = core.pmap(worker, jobs)
    exprs, idx = [], []
    n_ok = 0
    for j, o in enumerate(outs):
        chk.count(dict(o["fp"], kind=o["job"][1]), nontrivial=o["nontrivial"], sample=o.get("sample"))
        n_ok += 1 if o["ok"] else 0
        for f in o["s"]:
            chk.violation(f["what"], {"kind": "c05", "job": o["job"]}, {"kind": f["kind"]}, no_input=(f["kind"] == "capture-shape"))
        for k, e in enumerate(o["exprs"]):
            exprs.append(e)
            idx.append((j, k))
    res, errs = core.coq_eval("C05", IMPORTS, exprs, shard=8)
    for (j, k), v in zip(idx, res):
        o = outs[j]
        if v != "true" and not o["s"]:
            chk.violation(f"estimand {o['labels'][k]}: predictions / coefficient differ from the uniform-swing model ({v}) although the Python twin of the closed form agrees",
                          {"kind": "c05", "job": o["job"], "correspondence": "coq/Model/Conformal.v check_swing"}, {"kind": "model-diff"}, no_input=True)
    if n_ok < max(2, n // 4):
        chk.violation(f"only {n_ok} of {n} runs completed", {"kind": "coverage"}, {"kind": "coverage"}, no_input=True)
    if not ok and not [v for v in chk.violations if not v["no_input"]]:
        chk.violation("proof obligations of C05 no longer check", {"theorem_file": "coq/Properties/C05.v", "log": rep.get("log_tail", "")[-1500:]}, {"kind": "proof-broken"}, no_input=True)
    return chk.finish(RULE, extra={"runs_completed": n_ok})


def replay(chk, payload):
    o = worker(tuple(payload["replay"]["job"]))
    print(json.dumps({k: o.get(k) for k in ("ok", "exc", "s", "sample")}, indent=1, default=str))
    return 1 if o.get("s") else 0
