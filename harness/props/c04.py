"""C04 -- Nonparametric intervals are conformally calibrated."""
import json
import random

from harness import aggfam, core, gen
from harness.core import llit, qlit, zlit

IMPORTS = "From Coq Require Import ZArith QArith List.\nImport ListNotations.\nFrom Elex Require Import Base.Loss Model.Conformal Model.Compare.\n"

RULE = ("(c) NonparametricElectionModel called directly on unit frames with shuffled / gapped row labels: every interval must equal the one obtained with labels 0..n-1; "
        "(a) NonparametricElectionModel._compute_population_correction called directly on generated calibration sets (2-60 units; ties, negative scores, "
        "one dominant weight, equal weights, levels near 0 and near 1): the returned correction must be the model's, exactly (it is one of the input "
        "scores); (b) nonparametric get_estimates runs (robust on / off, outlier models off) with the solver's predictions, the correction and the "
        "quantile captured: conformity scores of the returned calibration frame, the correction (weighted, robust) and the final unit bounds are "
        "compared inside Coq; the statement (weighted share of calibration units inside their widened interval exceeds alpha(1+1/n), minimality) is "
        "re-evaluated on the calibration frame. Sets where a cumulative share is within 1e-9 of the level are not compared (counted). distinct = "
        "(size, kind, level) / run fingerprint; non-trivial = >= 3 calibration units")

BASECOL = {"dem": "baseline_dem", "gop": "baseline_gop", "turnout": "baseline_turnout"}


def direct_job(job):
    import numpy as np
    import pandas as pd

    from harness import run_impl

    run_impl._imp()
    from elexmodel.models.NonparametricElectionModel import NonparametricElectionModel

    seed, n, kind, alpha = job
    rng = random.Random(seed)
    if kind == "ties":
        scores = [rng.choice([-0.25, -0.125, 0.0, 0.125, 0.5]) for _ in range(n)]
    elif kind == "negative":
        scores = [-abs(rng.gauss(0.1, 0.05)) for _ in range(n)]
    else:
        scores = [rng.gauss(0.0, 0.1) for _ in range(n)]
    if kind == "dominant":
        weights = [rng.randint(1, 50) for _ in range(n)]
        weights[rng.randrange(n)] = 100000
    elif kind == "equal":
        weights = [101] * n
    else:
        weights = [rng.randint(1, 5000) for _ in range(n)]
    q = alpha * (1 + 1 / n)
    if kind == "exact_tie":
        # dyadic shares: a cumulative share equals the level exactly (binary64 is exact here), "exceeds" must be strict
        weights = [64] * n
        scores = [rng.choice([-0.5, -0.25, 0.0, 0.25, 0.5, 0.75, 1.0, 1.5]) for _ in range(n)]
        q = rng.randint(1, n - 1) / n
    m = NonparametricElectionModel({})
    df = pd.DataFrame({"last_election_results_turnout": weights})
    out = {"job": list(job), "scores": scores, "weights": weights, "q": q}
    try:
        c = m._compute_population_correction(df, pd.Series(scores), q, "turnout")
        out["c"] = float(c)
    except Exception as e:  # noqa: BLE001
        out["exc"] = (type(e).__name__, str(e)[:200])
    return out


def statement_direct(o):
    """the C04 statement on (scores, weights, q, c)"""
    if "exc" in o or o.get("c") != o.get("c"):
        if o["q"] < 1:
            return f"no correction although the level {o['q']} is below 1: {o.get('exc') or 'NaN'}"
        return None
    from fractions import Fraction as Fr

    W = sum(Fr(w) for w in o["weights"])
    c = o["c"]
    q = Fr(o["q"])
    share = sum(Fr(w) for s, w in zip(o["scores"], o["weights"]) if s <= c) / W
    # "exceeds" is strict: an exact tie is a failure; within 1e-9 of the level binary64 cumsum may fall on either side
    if share == q or share < q - Fr(1, 10**9):
        return f"weighted share {float(share)} of calibration units inside their widened interval does not exceed the level {o['q']} (correction {c})"
    smaller = [s for s in o["scores"] if s < c]
    if smaller:
        s2 = max(smaller)
        sh2 = sum(Fr(w) for s, w in zip(o["scores"], o["weights"]) if s <= s2) / W
        if sh2 > q + Fr(1, 10**9):
            return f"correction {c} is not minimal: {s2} already covers share {float(sh2)} > {o['q']}"
    return None


def run_job(job):
    from harness import run_impl

    seed, kw = job
    rng = random.Random(seed)
    case = gen.gen_case(rng, pi_method="nonparametric", outlier=False, **kw)
    run_impl._imp()
    import numpy as np

    from elexmodel.models.NonparametricElectionModel import NonparametricElectionModel as NP

    caps = []
    orig = NP._compute_population_correction

    def wrapped(slf, cd, scores, q, estimand):
        c = orig(slf, cd, scores, q, estimand)
        caps.append({"estimand": estimand, "q": float(q), "scores": [float(x) for x in scores], "weights": [float(x) for x in cd[f"last_election_results_{estimand}"]],
                     "ids": [str(x) for x in cd["geographic_unit_fips"]] if "geographic_unit_fips" in cd.columns else None,
                     "lb": [float(x) for x in cd["lower_bounds"]], "ub": [float(x) for x in cd["upper_bounds"]],
                     "resid": [float(x) for x in cd[f"residuals_{estimand}"]], "c": float(c), "robust": bool(slf.robust)})
        return c

    NP._compute_population_correction = wrapped
    try:
        with run_impl.SolverCapture() as cap:
            h = aggfam.harvest(case)
    finally:
        NP._compute_population_correction = orig
    p = case["params"]
    out = {"job": list(job), "ok": h["ok"], "exc": h.get("exc"), "fp": aggfam.fingerprint(case, h), "exprs": [], "labels": [], "s": [], "robust": p["model_parameters"].get("robust", False)}
    if not h["ok"]:
        return out
    alphas = p["prediction_intervals"]
    preds = [r for r in cap.records if r["op"] == "predict"]
    base = {b["geographic_unit_fips"]: b for b in case["baseline"]}
    A = len(alphas)
    out["ncal"] = []
    for k, e in enumerate(p["estimands"]):
        byid = {r["geographic_unit_fips"]: r for r in h["unit"][e]}
        for ai, a in enumerate(alphas):
            ci = k * A + ai
            if ci >= len(caps):
                out["s"].append({"what": "capture sequence changed", "kind": "capture-shape"})
                continue
            cp = caps[ci]
            out["ncal"].append(len(cp["scores"]))
            # held-out: the rows the lower / upper regressions are fitted on and the calibration rows partition the reporting units
            fits = [r for r in cap.records if r["op"] == "fit"]
            fi = k * (1 + 2 * A) + 1 + 2 * ai
            if fi + 1 < len(fits):
                for which, rec in (("lower", fits[fi]), ("upper", fits[fi + 1])):
                    if rec["n"] + len(cp["scores"]) != len(h["rep_ids"]):
                        out["s"].append({"what": f"{e}@{a}: the {which} regression is fitted on {rec['n']} rows and {len(cp['scores'])} units calibrate, but there are only "
                                                 f"{len(h['rep_ids'])} reporting units: calibration units are not held out", "kind": "not-held-out"})
                        break
            # design rows belong to the same units as the targets: the median fit (all reporting units, in frame order) pairs every
            # residual with its unit's covariates; each row of a bounds fit must carry the covariates of the unit whose residual and
            # weight it carries, up to the per-column shift / scale of the featuriser
            nf = len(p["features"])
            mi = k * (1 + 2 * A)
            if nf and fi + 1 < len(fits) and mi < len(fits) and fits[mi].get("x") is not None and fits[mi]["p"] >= 1 + nf:
                xm, ym, wm = fits[mi]["x"], fits[mi]["y"], fits[mi]["weights"]
                index = {}
                for i in range(len(ym)):
                    index.setdefault((float(ym[i]), float(wm[i]) if wm is not None else 0.0), []).append(i)
                for which, rec in (("lower", fits[fi]), ("upper", fits[fi + 1])):
                    if rec.get("x") is None or rec["p"] < 1 + nf or out["s"]:
                        continue
                    pairs = []
                    for j in range(len(rec["y"])):
                        cand = index.get((float(rec["y"][j]), float(rec["weights"][j]) if rec["weights"] is not None else 0.0), [])
                        if len(cand) == 1:
                            pairs.append((cand[0], j))
                    for c in range(1, 1 + nf):
                        pts = [(float(xm[i, c]), float(rec["x"][j, c])) for i, j in pairs]
                        ref = next(((u, v) for u, v in pts if abs(u - pts[0][0]) > 1e-9), None) if pts else None
                        if ref is None:
                            continue
                        slope = (ref[1] - pts[0][1]) / (ref[0] - pts[0][0])
                        icpt = pts[0][1] - slope * pts[0][0]
                        bad = [(u, v) for u, v in pts if abs(v - (slope * u + icpt)) > 1e-7 * max(1.0, abs(v), abs(slope * u))]
                        if bad:
                            out["s"].append({"what": f"{e}@{a}: the {which} regression pairs the residuals of {len(bad)} of {len(pts)} training units with the covariates "
                                                     f"({p['features'][c - 1]}) of other units (design rows and targets are not the same units)", "kind": "misaligned-design"})
                            break
            base_idx = k * (1 + 4 * A) + 1 + 4 * ai
            if base_idx + 3 >= len(preds):
                out["s"].append({"what": "solver call sequence changed", "kind": "capture-shape"})
                continue
            conf_lo, conf_hi = preds[base_idx]["out"].flatten(), preds[base_idx + 1]["out"].flatten()
            non_lo, non_hi = preds[base_idx + 2]["out"].flatten(), preds[base_idx + 3]["out"].flatten()
            # the calibration residuals are the units' own relative changes for THIS estimand: (counted - (baseline + 1)) / (baseline + 1)
            if cp.get("ids") and e in BASECOL:
                feed_by = {}
                for f in case["feed"]:
                    feed_by.setdefault(f["geographic_unit_fips"], f)
                for uid, rs, w in zip(cp["ids"], cp["resid"], cp["weights"]):
                    b, f = base.get(uid), feed_by.get(uid)
                    if b is None or f is None or f.get(f"results_{e}") is None:
                        continue
                    last = b[BASECOL[e]] + 1
                    want_r = (f[f"results_{e}"] - last) / last
                    if abs(w - last) > 1e-9 * max(1, last) or abs(rs - want_r) > 1e-9 * max(1.0, abs(want_r)):
                        out["s"].append({"what": f"{e}@{a}: calibration unit {uid} enters with residual {rs} and weight {w}; its own relative change for {e} is {want_r} "
                                                 f"and its baseline + 1 is {last}", "kind": "residual-def"})
                        break
            # statement on the calibration frame
            W = sum(cp["weights"])
            corr = cp["c"]
            if p["model_parameters"].get("robust"):
                corr = max(cp["c"], float(np.quantile(cp["scores"], cp["q"])))
            inside = sum(w for lb, ub, w in zip(cp["lb"], cp["ub"], cp["weights"]) if max(lb, ub) <= corr) / W
            if not inside > cp["q"] - 1e-12:
                out["s"].append({"what": f"{e}@{a}: weighted share {inside} of calibration units inside their widened interval does not exceed alpha(1+1/n) = {cp['q']}",
                                 "kind": "share"})
            sd = statement_direct({"scores": cp["scores"], "weights": cp["weights"], "q": cp["q"], "c": cp["c"]})
            if sd:
                out["s"].append({"what": f"{e}@{a}: {sd}", "kind": "pop-correction"})
            want_q = a * (1 + 1 / len(cp["scores"]))
            if abs(cp["q"] - want_q) > 1e-12:
                out["s"].append({"what": f"{e}@{a}: quantile level {cp['q']} is not alpha(1+1/n_cal) = {want_q}", "kind": "level"})
            # Coq: scores from captured predictions, correction, final bounds
            checks = []
            sw = llit([f"({qlit(w)}, {qlit(s)})" for w, s in zip(cp["weights"], cp["scores"])])
            sc_items = []
            if len(conf_lo) == len(cp["resid"]):
                for lo_p, hi_p, r, s in zip(conf_lo, conf_hi, cp["resid"], cp["scores"]):
                    sc_items.append(f"close9 (score {qlit(float(lo_p))} {qlit(float(hi_p))} {qlit(r)}) {qlit(s)}")
                checks.append(f"all_true {llit(sc_items)}")
            else:
                checks.append("false")
            checks.append(f"check_pop_correction sw {qlit(cp['q'])} {qlit(cp['c'])}")
            checks.append(f"check_correction {core.blit(bool(p['model_parameters'].get('robust')))} sw {qlit(cp['q'])} {qlit(corr)}")
            items = []
            if len(non_lo) == len(h["nonrep_ids"]):
                for uid, rl, rh in zip(h["nonrep_ids"], non_lo, non_hi):
                    b = base[uid]
                    r = byid[uid]
                    lo_v, hi_v = aggfam.whole(r[f"lower_{a}_{e}"]), aggfam.whole(r[f"upper_{a}_{e}"])
                    if lo_v is None or hi_v is None:
                        out["s"].append({"what": f"unit {uid} bound not whole", "kind": "non-whole"})
                        continue
                    items.append(f"check_np_bounds {qlit(float(rl))} {qlit(float(rh))} {qlit(corr)} {zlit(b[BASECOL[e]] + 1)} {zlit(aggfam.whole(r[f'results_{e}']))} {zlit(lo_v)} {zlit(hi_v)}")
                checks.append(f"all_true {llit(items)}")
                # the correction that was actually applied, read back from the reported bounds of the outstanding units whose floor does not
                # bind (each bound pins it to +-0.5 vote): it must be the calibrated one -- a smaller one leaves the calibration share at or
                # below the level, a larger one is not the smallest score that exceeds it
                c_lo_end, c_hi_end = -float("inf"), float("inf")
                for uid, rl, rh in zip(h["nonrep_ids"], non_lo, non_hi):
                    r = byid[uid]
                    last = b_last = base[uid][BASECOL[e]] + 1
                    lo_v, hi_v, res_v = aggfam.whole(r[f"lower_{a}_{e}"]), aggfam.whole(r[f"upper_{a}_{e}"]), aggfam.whole(r[f"results_{e}"])
                    if lo_v is None or hi_v is None or res_v is None or b_last <= 0:
                        continue
                    if lo_v > res_v:
                        c_lo_end = max(c_lo_end, float(rl) - (lo_v + 0.5 - last) / last)
                        c_hi_end = min(c_hi_end, float(rl) - (lo_v - 0.5 - last) / last)
                    if hi_v > res_v:
                        c_lo_end = max(c_lo_end, (hi_v - 0.5 - last) / last - float(rh))
                        c_hi_end = min(c_hi_end, (hi_v + 0.5 - last) / last - float(rh))
                tol_c = 1e-9 * max(1.0, abs(corr))
                if c_lo_end > c_hi_end + tol_c and c_hi_end != float("inf") and not out["s"]:
                    out["s"].append({"what": f"{e}@{a}: no single correction explains the reported bounds of the outstanding units (the bounds of some unit need a correction "
                                             f">= {c_lo_end}, those of another one <= {c_hi_end}); the calibrated correction of this estimand and level is {corr}",
                                     "kind": "applied-correction"})
                if c_lo_end <= c_hi_end and (corr < c_lo_end - tol_c or corr > c_hi_end + tol_c) and not out["s"]:
                    c_app = c_hi_end if corr > c_hi_end else c_lo_end
                    share_app = sum(w for lb, ub, w in zip(cp["lb"], cp["ub"], cp["weights"]) if max(lb, ub) <= c_app) / W
                    out["s"].append({"what": f"{e}@{a}: the reported bounds of the outstanding units were widened by a correction in [{c_lo_end}, {c_hi_end}], the calibrated "
                                             f"correction of this estimand and level is {corr}; with the applied one the weighted share of calibration units inside their "
                                             f"widened interval is {share_app} (level alpha(1+1/n) = {cp['q']})", "kind": "applied-correction"})
            out["exprs"].append(f"let sw := {sw} in {llit(checks)}")
            out["labels"].append([f"{e}@{a}|scores", f"{e}@{a}|weighted-correction", f"{e}@{a}|correction", f"{e}@{a}|unit-bounds"])
    out["sample"] = {"seed": seed, "estimands": p["estimands"], "levels": alphas, "robust": bool(p["model_parameters"].get("robust")), "calibration_sizes": out["ncal"]}
    return out


def index_job(seed):
    """the model called directly (as the repository's own tests do) on frames whose row labels are not 0..n-1: every unit's interval must be
    the one it gets with canonical labels (its OWN bounds, widened and un-normalised with its OWN baseline)"""
    from harness import run_impl

    run_impl._imp()
    import numpy as np

    from elexmodel.models.NonparametricElectionModel import NonparametricElectionModel as NP

    rng = random.Random(seed)
    case = gen.gen_case(rng, pi_method="nonparametric", n_unexpected=0, outlier=False)
    p = case["params"]
    try:
        rep, non, unx = run_impl.get_units(case)
    except Exception as e:  # noqa: BLE001
        return {"seed": seed, "ok": False, "exc": repr(e)[:150]}
    settings = {"election_id": gen.ELECTION_ID, "office": case["office"], "geographic_unit_type": case["unit_type"], "district_election": case["office"] in ("H", "Y", "Z"),
                "features": p["features"], "fixed_effects": p["fixed_effects"], "save_conformalization": False}
    settings.update(p.get("model_parameters", {}))

    def one(rep_, non_):
        m = NP(settings)
        out = {}
        for e in p["estimands"]:
            preds, _ = m.get_unit_predictions(rep_, non_, e, unexpected_units=unx)
            non_ = non_.copy()
            non_[f"pred_{e}"] = np.asarray(preds).flatten()
            for a in p["prediction_intervals"]:
                pi_ = m.get_unit_prediction_intervals(rep_, non_, a, e)
                out[f"{e}@{a}"] = (np.asarray(pi_.lower, dtype=float).flatten(), np.asarray(pi_.upper, dtype=float).flatten())
        return out

    try:
        A = one(rep.copy(), non.copy())
    except Exception as e:  # noqa: BLE001
        return {"seed": seed, "ok": False, "exc": repr(e)[:150]}
    r2 = random.Random(seed + 1)
    rb, nb = rep.copy(), non.copy()
    lab = list(range(1000, 1000 + 3 * len(rb), 3))
    r2.shuffle(lab)
    rb.index = lab
    lab = list(range(len(nb)))
    r2.shuffle(lab)
    nb.index = lab
    res = {"seed": seed, "ok": True, "diff": None, "n_nonreporting": len(non), "estimands": p["estimands"], "levels": p["prediction_intervals"]}
    try:
        B = one(rb, nb)
    except Exception as e:  # noqa: BLE001
        res["diff"] = "the relabelled frames make the model raise " + repr(e)[:150]
        return res
    ids = list(non["geographic_unit_fips"])
    for k in A:
        for j, name in ((0, "lower"), (1, "upper")):
            if A[k][j].shape != B[k][j].shape:
                res["diff"] = f"{name} bound of {k}: {len(B[k][j])} values for {len(A[k][j])} units"
                return res
            bad = [i for i in range(len(ids)) if not (A[k][j][i] == B[k][j][i] or (A[k][j][i] != A[k][j][i] and B[k][j][i] != B[k][j][i]))]
            if bad:
                i = bad[0]
                res["diff"] = (f"{name} bound of {k} for unit {ids[i]} is {B[k][j][i]} when the nonreporting frame carries shuffled row labels and {A[k][j][i]} with labels "
                               f"0..n-1 ({len(bad)} of {len(ids)} units differ)")
                return res
    return res


def run(chk):
    ok, rep = chk.proofs()
    chk.assumptions += ["lower / upper quantile-regression fits are oracle inputs (captured predictions)",
                        "the probabilistic clause is proved as a counting theorem (C04_exchangeable_coverage) conditional on exchangeability and equal baseline size; "
                        "exchangeability of real elections is an assumption of the property, not checked",
                        "np.quantile (robust branch) compared at 1e-9 relative"]
    rng = random.Random(chk.seed * 211 + 4)
    # (a) direct
    jobs = []
    kinds = ["ties", "negative", "normal", "dominant", "equal"]
    for n in ([2, 3, 5, 9, 20, 60] if chk.tier == "quick" else [2, 3, 4, 5, 7, 9, 13, 20, 33, 60, 200]):
        for kind in kinds:
            for alpha in (0.5, 0.7, 0.9, 0.95):
                if alpha * (1 + 1 / n) < 1:
                    jobs.append((rng.randint(0, 2**31), n, kind, alpha))
    for n in (4, 8, 16):
        for _ in range(4):
            jobs.append((rng.randint(0, 2**31), n, "exact_tie", 0.5))
    outs = core.pmap(direct_job, jobs, chunksize=8)
    exprs = []
    for o in outs:
        sw = llit([f"({qlit(w)}, {qlit(s)})" for w, s in zip(o["weights"], o["scores"])])
        exprs.append(f"check_pop_correction {sw} {qlit(o['q'])} {qlit(o['c'])}" if "c" in o and o["c"] == o["c"] else "false")
    res, errs = core.coq_eval("C04", IMPORTS, exprs, shard=60, tag="dir")
    for o, v in zip(outs, res):
        seed, n, kind, alpha = o["job"]
        chk.count({"n": n, "kind": kind, "alpha": alpha}, nontrivial=n >= 3,
                  sample={"scores": o["scores"], "weights": o["weights"], "level": o["q"], "correction": o.get("c")} if n == 5 and kind == "ties" else None)
        replay = {"kind": "direct", "job": o["job"]}
        f = statement_direct(o)
        if f:
            chk.violation(f"calibration set of {n} units ({kind}), alpha {alpha}: {f}", replay, {"kind": "pop-correction"})
        elif v != "true":
            chk.violation(f"correction {o.get('c')} differs from pop_correction on a {kind} calibration set of {n} units although the statement holds",
                          dict(replay, correspondence="coq/Model/Conformal.v check_pop_correction"), {"kind": "model-diff"}, no_input=True)
    # (b) runs
    n = 16 if chk.tier == "quick" else 300
    rjobs = []
    for i in range(n):
        kw = {"model_parameters": {"robust": True}} if i % 2 else {}
        rjobs.append((rng.randint(0, 2**31), kw))
    # few reporting units and a wide design (more columns than training rows)
    for i in range(3 if chk.tier == "quick" else 30):
        rjobs.append((rng.randint(0, 2**31), {"n_units": 16 + 2 * i, "n_states": 1, "frac_reporting": 0.6, "features": ["feat_a", "feat_b"],
                                             "fixed_effects": {"county_classification": "all"}, "alphas": [0.7], "estimands": ["turnout"], "special": False, "blocklist": False}))
    routs = core.pmap(run_job, rjobs)
    exprs, idx = [], []
    n_ok = 0
    for j, o in enumerate(routs):
        chk.count(dict(o["fp"], robust=o["robust"]), nontrivial=o["ok"] and min(o.get("ncal") or [0]) >= 3, sample=o.get("sample"))
        n_ok += 1 if o["ok"] else 0
        for f in o["s"]:
            chk.violation(f["what"], {"kind": "run", "job": o["job"]}, {"kind": f["kind"]})
        for k, e in enumerate(o["exprs"]):
            exprs.append(e)
            idx.append((j, k))
    res, errs = core.coq_eval("C04", IMPORTS, exprs, shard=4, tag="run")
    for (j, k), v in zip(idx, res):
        o = routs[j]
        if o["s"]:
            continue
        if v is None:
            chk.violation("correspondence case did not evaluate", {"kind": "run", "job": o["job"], "errors": errs[:1]}, {"kind": "coq-eval"}, no_input=True)
            continue
        bad = [lab for lab, b in zip(o["labels"][k], aggfam.parse_bool_list(v)) if b != "true"]
        if bad:
            chk.violation(f"nonparametric run differs from the conformal model at {bad} although the statement holds on the calibration frame",
                          {"kind": "run", "job": o["job"], "correspondence": "coq/Model/Conformal.v " + str(bad)}, {"kind": "model-diff"}, no_input=True)
    if n_ok < max(2, n // 4):
        chk.violation(f"only {n_ok} of {n} nonparametric runs completed", {"kind": "coverage"}, {"kind": "coverage"}, no_input=True)
    # (c) model-level calls with non-canonical row labels
    ij = core.pmap(index_job, [rng.randint(0, 2**31) for _ in range(8 if chk.tier == "quick" else 80)])
    for o in ij:
        chk.count({"index_labels": True, "ok": o["ok"], "est": o.get("estimands"), "levels": o.get("levels")}, nontrivial=bool(o["ok"] and o.get("n_nonreporting")),
                  sample={"stream": "row labels", "estimands": o.get("estimands"), "levels": o.get("levels"), "nonreporting": o.get("n_nonreporting"), "identical": o.get("diff") is None})
        if o["ok"] and o.get("diff"):
            chk.violation(o["diff"], {"kind": "index", "seed": o["seed"]}, {"kind": "row-labels"})
    if not ok and not [v for v in chk.violations if not v["no_input"]]:
        chk.violation("proof obligations of C04 no longer check", {"theorem_file": "coq/Properties/C04.v", "log": rep.get("log_tail", "")[-1500:],
                                                                   "translator": chk.notes.get("translator_problems")}, {"kind": "proof-broken"}, no_input=True)
    return chk.finish(RULE, extra={"direct_sets": len(outs), "runs_completed": n_ok})


def replay(chk, payload):
    r = payload["replay"]
    if r["kind"] == "index":
        o = index_job(r["seed"])
        print(json.dumps(o, indent=1, default=str))
        return 1 if o.get("diff") else 0
    if r["kind"] == "direct":
        print(json.dumps(direct_job(tuple(r["job"])), indent=1))
    else:
        o = run_job((r["job"][0], r["job"][1]))
        print(json.dumps({k: o.get(k) for k in ("ok", "exc", "s", "sample")}, indent=1, default=str))
    return 0
