"""C15 -- Gaussian intervals use a group's own calibration if big enough, else its parent."""
import json
import math
import random

from harness import aggfam, core, gen
from harness.core import llit, qlit, slit, zlit

IMPORTS = "From Coq Require Import ZArith QArith List String.\nImport ListNotations.\nFrom Elex Require Import Base.Frame Base.Loss Model.GaussAssign Model.WMedian.\n"

RULE = ("gaussian get_estimates runs over group structures (1-3 states, 2-5 counties per state, optional districts = 3 aggregate levels; 14-260 units so "
        "that groups hold 0, fewer than 10, or >= 10 calibration units, total calibration below and above 10; groups present only among nonreporting "
        "units; levels 0.7/0.9); per aggregate call the calibration frame, the nonreporting groups and the matched model rows are captured; the level "
        "whose calibration statistics (weighted-median centres, variance inflation, seeded bootstrapped scale -- recomputed independently of the "
        "repository's math_utils, centres and inflation also inside Coq) equal the matched row's is compared inside Coq with assign / rule; each group with outstanding units must have exactly one row "
        "with finite statistics, and the reported bounds must equal the formula on that row. distinct = (office, aggregate list, threshold, "
        "levels used); non-trivial = an aggregate call in which at least two different levels are used")



def twin_wmedian(x, w):
    """math_utils.weighted_median re-stated on exact rationals; returns the set of acceptable values (more than one only when a
    cumulative weight is within 1e-9 of one half, where binary64 may fall on either side)"""
    from fractions import Fraction as F
    pairs = sorted(((F(float(a)), F(float(b))) for a, b in zip(x, w)), key=lambda t: t[0])
    T = sum(b for _, b in pairs)
    out = set()
    for mode in ("exact", "lt", "eq", "gt"):
        prev, acc, res = None, F(0), None
        for a, b in pairs:
            c = acc + b
            d = 2 * c - T
            k = (d > 0) - (d < 0)
            if mode != "exact" and abs(d) <= F(1, 10**9) * T:
                k = {"lt": -1, "eq": 0, "gt": 1}[mode]
            if k > 0:
                res = (prev[0] + a) / 2 if (prev is not None and prev[1] == 0) else a
                break
            prev, acc = (a, k), c
        if res is not None:
            out.add(float(res))
    return out


def twin_inflate(w):
    from fractions import Fraction as F
    ws = [F(float(a)) for a in w]
    return float(sum(a * a for a in ws) / (sum(ws) ** 2))


def twin_boot_sigma(data, conf, winsorize, seed):
    """math_utils.boot_sigma re-stated: upper end of scipy's basic bootstrap interval of the (winsorized) sample standard deviation"""
    import numpy as np
    from scipy.stats import bootstrap
    from scipy.stats.mstats import winsorize as wz

    def std(x, axis):
        return np.std(x, ddof=1, axis=-1)

    def wstd(x, axis):
        return np.std(wz(x, limits=(0.05, 0.05), axis=-1).data, ddof=1, axis=-1)

    return bootstrap(data.reshape(1, -1), wstd if winsorize else std, confidence_level=conf, method="basic", n_resamples=10000,
                     random_state=seed).confidence_interval.high


BASECOL = {"dem": "baseline_dem", "gop": "baseline_gop", "turnout": "baseline_turnout"}


def worker(job):
    from harness import run_impl

    seed, kw = job
    rng = random.Random(seed)
    case = gen.gen_case(rng, pi_method="gaussian", outlier=False, estimands=["turnout"], features=[], fixed_effects={}, **kw)
    if seed % 2 == 0:
        case["params"]["model_parameters"]["winsorize"] = True       # the size rule must not depend on how the scale is estimated
    run_impl._imp()
    import numpy as np
    from scipy import stats

    from elexmodel.models.GaussianElectionModel import GaussianElectionModel as G
    from elexmodel.utils import math_utils

    caps = []
    orig = G.get_aggregate_prediction_intervals

    def wrapped(slf, ru, nu, uu, aggregate, alpha, upi, estimand, **k):
        out = orig(slf, ru, nu, uu, aggregate, alpha, upi, estimand, **k)
        if nu.shape[0] > 0:
            cd = upi.conformalization
            caps.append({"aggregate": list(aggregate), "alpha": alpha, "estimand": estimand,
                         "conf": cd[list(aggregate) + [f"last_election_results_{estimand}", "lower_bounds", "upper_bounds"]].to_dict("records"),
                         "nu": nu[list(aggregate) + [f"last_election_results_{estimand}", f"results_{estimand}"]].to_dict("records"),
                         "mb": slf.modeled_bounds_agg.to_dict("records"), "seed": slf.seed,
                         "lower": [float(x) for x in out[0]], "upper": [float(x) for x in out[1]]})
        return out

    G.get_aggregate_prediction_intervals = wrapped
    try:
        h = aggfam.harvest(case)
    finally:
        G.get_aggregate_prediction_intervals = orig
    p = case["params"]
    res = {"job": list(job), "ok": h["ok"], "exc": h.get("exc"), "exprs": [], "labels": [], "s": [], "fp": [], "nontrivial": False, "office": case["office"]}
    if not h["ok"]:
        return res
    for cp in caps:
        agg = cp["aggregate"]
        k = len(agg)
        e = cp["estimand"]
        wcol = f"last_election_results_{e}"
        conf = cp["conf"]
        nu_groups = []
        for r in cp["nu"]:
            g = [r[c] for c in agg]
            if g not in nu_groups:
                nu_groups.append(g)
        mb = cp["mb"]
        rows_by_group = {}
        for m in mb:
            rows_by_group.setdefault(tuple(m[c] for c in agg), []).append(m)
        T = min(10, len(conf))
        twin_cache, coq_sets = {}, set()
        used_levels = set()
        checks = []
        check_labels = []
        conf_lit = llit([f"({llit([slit(r[c]) for c in agg])}, {i}%nat)" for i, r in enumerate(conf)])
        nu_lit = llit([llit([slit(x) for x in g]) for g in nu_groups])
        q = (3 + cp["alpha"]) / 4
        for g in nu_groups:
            rows = rows_by_group.get(tuple(g), [])
            if len(rows) != 1:
                res["s"].append({"what": f"aggregate {agg}: group {g} with outstanding units has {len(rows)} matched model rows (exactly one expected)", "kind": "not-exactly-one"})
                continue
            m = rows[0]
            stats_row = [m["mu_lower_bound"], m["mu_upper_bound"], m["sigma_lower_bound"], m["sigma_upper_bound"], m["var_inflate"]]
            if any((x is None) or (isinstance(x, float) and not math.isfinite(x)) for x in stats_row):
                res["s"].append({"what": f"aggregate {agg}: group {g} is matched with a model row of non-finite statistics {stats_row}", "kind": "non-finite"})
                continue
            levels = []
            stat_by_level = {}
            mp_ = p.get("model_parameters", {})
            close = lambda a, b: abs(a - b) <= 1e-10 * max(1.0, abs(b))  # noqa: E731
            for j in range(k, -1, -1):
                sub = [r for r in conf if [r[c] for c in agg[:j]] == g[:j]]
                if not sub:
                    continue
                key_ = tuple(i for i, r in enumerate(conf) if [r[c] for c in agg[:j]] == g[:j])
                if key_ not in twin_cache:
                    w = np.array([r[wcol] for r in sub], dtype=float)
                    lb = np.array([r["lower_bounds"] for r in sub], dtype=float)
                    ub = np.array([r["upper_bounds"] for r in sub], dtype=float)
                    # independent re-statements of math_utils (not the repository's functions): exact weighted median / inflation,
                    # scipy's seeded basic bootstrap for the scale
                    twin_cache[key_] = {"vi": twin_inflate(w), "mul": twin_wmedian(lb, w), "muu": twin_wmedian(ub, w), "sgl": None, "sub": sub}
                tw = twin_cache[key_]
                ok_stats = {"variance inflation": close(tw["vi"], m["var_inflate"]),
                            "lower centre (weighted median)": any(close(v, m["mu_lower_bound"]) for v in tw["mul"]),
                            "upper centre (weighted median)": any(close(v, m["mu_upper_bound"]) for v in tw["muu"])}
                if all(ok_stats.values()) and len(sub) >= 2:
                    if tw["sgl"] is None:
                        lb = np.array([r["lower_bounds"] for r in sub], dtype=float)
                        tw["sgl"] = float(twin_boot_sigma(lb, q, mp_.get("winsorize", False), cp["seed"]))
                    ok_stats["lower scale (beta x seeded basic-bootstrap upper end of the sample standard deviation)"] = close(mp_.get("beta", 1) * tw["sgl"], m["sigma_lower_bound"])
                stat_by_level[j] = (ok_stats, tw, key_)
                if all(ok_stats.values()):
                    levels.append(j)
            # python twin of the rule
            want = 0
            for j in range(k, 0, -1):
                if len([r for r in conf if [r[c] for c in agg[:j]] == g[:j]]) >= T:
                    want = j
                    break
            used_levels.add(want)
            if want not in levels:
                own = len([r for r in conf if [r[c] for c in agg] == g])
                wrong = [n for n, v in stat_by_level.get(want, ({}, None, None))[0].items() if not v]
                res["s"].append({"what": f"aggregate {agg}, group {g} ({own} own calibration units, threshold {T}): the interval uses the calibration statistics of level(s) "
                                         f"{levels or 'none of its own ancestors'}, the rule says level {want} (0 = all units, {k} = the group itself); statistics of the model row "
                                         f"that differ from those of the rule's calibration set: {wrong}", "kind": "wrong-calibration-set"})
            elif stat_by_level[want][2] not in coq_sets and len(coq_sets) < 6:
                # the same statistics inside Coq (Model/WMedian.v) on the exact values of the rule's calibration set
                _, tw, key_ = stat_by_level[want]
                coq_sets.add(key_)
                sub = tw["sub"]
                wl = [qlit(r[wcol]) for r in sub]
                checks.append(f"check_inflate {llit(wl)} {qlit(m['var_inflate'])}")
                check_labels.append(f"{agg}|{g}|inflation")
                for side, col in (("lower", "lower_bounds"), ("upper", "upper_bounds")):
                    obs = llit([f"({a}, {qlit(r[col])})" for a, r in zip(wl, sub)])
                    checks.append(f"check_wmedian {obs} {qlit(m[f'mu_{side}_bound'])}")
                    check_labels.append(f"{agg}|{g}|{side}-centre")
            checks.append(f"check_assign {k}%nat conf nu {llit([slit(x) for x in g])} {llit([f'{j}%nat' for j in levels])}")
            check_labels.append(f"{agg}|{g}")
        # reported bounds equal the formula on the matched row:
        #   bound = round( max(sum of baselines + summed unit bound -/+ normal quantile(row statistics), counted votes of the outstanding units)
        #                  + counted votes of everything else in the group )
        aggname = next((a for a in p["aggregates"] if a != "unit" and aggfam.aggregate_list(case["office"], a) == agg), None)
        tbl = h["agg"].get(f"{e}|{aggname}") if aggname else None
        if tbl is not None:
            trow = {tuple(str(r[c]) for c in agg): r for r in tbl["rows"]}
            for g in nu_groups:
                rows = rows_by_group.get(tuple(g), [])
                tr = trow.get(tuple(str(x) for x in g))
                if len(rows) != 1 or tr is None:
                    continue
                m = rows[0]
                vn = sum(r[f"results_{e}"] for r in cp["nu"] if [r[c] for c in agg] == g)
                wsum, wss = m["nonreporting_weight_sum"], m["nonreporting_weight_ssum"]
                scale = math.sqrt(wss + m["var_inflate"] * wsum ** 2)
                for side, sign in (("lower", -1), ("upper", 1)):
                    mu, sg = m[f"mu_{side}_bound"], m[f"sigma_{side}_bound"]
                    ppf = float(stats.norm.ppf(q=q, loc=wsum * mu, scale=sg * scale))
                    raw = wsum + m[f"nonreporting_aggregate_{side}_bound"] + sign * ppf
                    want = max(raw, vn) + (tr[f"results_{e}"] - vn)
                    got = tr[f"{side}_{cp['alpha']}_{e}"]
                    if math.isfinite(ppf) and math.isfinite(got) and float(got).is_integer():
                        # the same two steps inside Coq, on the exact values of the captured numbers (norm.ppf's value is the oracle)
                        checks.append(f"check_reported_bound {core.blit(side == 'upper')} {qlit(m[f'nonreporting_aggregate_{side}_bound'])} {qlit(wsum)} {qlit(ppf)} "
                                      f"{qlit(vn)} {qlit(tr[f'results_{e}'] - vn)} {zlit(int(got))}")
                        check_labels.append(f"{agg}|{g}|{side}-bound")
                    if not math.isfinite(want) or abs(got - want) > 0.5 + 1e-6 * max(1.0, abs(want)):
                        res["s"].append({"what": f"aggregate {agg}, group {g}, level {cp['alpha']}: reported {side} bound {got} but the formula on the group's own model row, "
                                                 f"floored at the {vn} votes already counted in its outstanding units, gives {want}", "kind": "formula"})
                        break
        if checks:
            res["exprs"].append(f"let conf := {conf_lit} in let nu := {nu_lit} in {llit(checks)}")
            res["labels"].append(check_labels)
        res["fp"].append({"office": case["office"], "agg": agg, "T": T, "levels": sorted(used_levels)})
        if len(used_levels) >= 2:
            res["nontrivial"] = True
        # finite whole bounds
        for v in cp["lower"] + cp["upper"]:
            if not math.isfinite(v):
                res["s"].append({"what": f"aggregate {agg}: non-finite reported bound", "kind": "non-finite"})
                break
    res["sample"] = {"seed": seed, "kw": kw, "office": case["office"], "aggregate_calls": [(f["agg"], f["T"], f["levels"]) for f in res["fp"]][:4]}
    return res


def run(chk):
    ok, rep = chk.proofs()
    chk.assumptions += ["_fit statistics, norm.ppf and scipy's bootstrap are oracles; the calibration set used by the implementation is identified through its statistics "
                        "recomputed with independent re-statements of math_utils (exact weighted median and inflation, scipy's seeded basic bootstrap; 1e-10 relative) and, for up to six sets per aggregate call, inside Coq (check_wmedian / check_inflate); indistinguishable candidate levels are all accepted"]
    rng = random.Random(chk.seed * 907 + 15)
    jobs = []
    sizes = [14, 24, 60, 120, 200, 260] if chk.tier == "quick" else [14, 18, 24, 40, 60, 90, 120, 160, 200, 260] * 4
    for i, n in enumerate(sizes):
        for office in ("S", "H"):
            kw = {"n_units": n, "office": office, "n_states": 1 + (i % 3), "frac_reporting": [0.7, 0.9, 0.5][i % 3], "alphas": [0.7, 0.9][: 1 + i % 2]}
            if office == "H":
                kw["aggregates"] = ["postal_code", "district", "county_fips", "unit"]
            else:
                kw["aggregates"] = ["postal_code", "county_fips", "county_classification", "unit"]
            jobs.append((rng.randint(0, 2**31), kw))
    outs = core.pmap(worker, jobs)
    exprs, idx = [], []
    n_ok = 0
    for j, o in enumerate(outs):
        n_ok += 1 if o["ok"] else 0
        chk.count({"office": o["office"], "calls": o["fp"]}, nontrivial=o["nontrivial"], sample=o.get("sample"))
        for f in o["s"]:
            chk.violation(f["what"], {"kind": "c15", "job": o["job"]}, {"kind": f["kind"]})
        for k, e in enumerate(o["exprs"]):
            exprs.append(e)
            idx.append((j, k))
    res, errs = core.coq_eval("C15", IMPORTS, exprs, shard=6)
    for (j, k), v in zip(idx, res):
        o = outs[j]
        if o["s"]:
            continue
        if v is None or any(b != "true" for b in aggfam.parse_bool_list(v)):
            chk.violation(f"calibration-set assignment differs from assign/rule of the model ({v}) although the Python twin of the rule agrees",
                          {"kind": "c15", "job": o["job"], "correspondence": "coq/Model/GaussAssign.v check_assign"}, {"kind": "model-diff"}, no_input=True)
    if n_ok < max(2, len(outs) // 3):
        chk.violation(f"only {n_ok} of {len(outs)} gaussian runs completed", {"kind": "coverage", "excs": [o['exc'] for o in outs if not o['ok']][:4]}, {"kind": "coverage"}, no_input=True)
    if not ok and not [v for v in chk.violations if not v["no_input"]]:
        chk.violation("proof obligations of C15 no longer check", {"theorem_file": "coq/Properties/C15.v", "log": rep.get("log_tail", "")[-1500:]}, {"kind": "proof-broken"}, no_input=True)
    return chk.finish(RULE, extra={"runs_completed": n_ok, "aggregate_calls_checked": len(exprs)})


def replay(chk, payload):
    o = worker((payload["replay"]["job"][0], payload["replay"]["job"][1]))
    print(json.dumps({k: o.get(k) for k in ("ok", "exc", "s", "sample")}, indent=1, default=str))
    return 1 if o.get("s") else 0
