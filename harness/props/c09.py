"""C09 -- Which units feed the model follows the documented eligibility rules exactly."""
import json
import math
import random

from harness import aggfam, core, gen
from harness.core import llit, qlit, slit, zlit

IMPORTS = "From Coq Require Import ZArith QArith List String.\nImport ListNotations.\nFrom Elex Require Import Model.Units Model.Compare Model.Estimandizer.\n"

RULE = ("(a) CombinedDataHandler.get_units on generated elections (boundary-heavy feeds: turnout factor exactly on / next to each limit, expected vote "
        "exactly at / one below the threshold, zero baselines, unit and state blocklists, feed rows with a missing results value, both unreporting policies, outlier models on with the flags "
        "captured); the three returned frames are compared row by row, inside Coq, with the procedural model AND with the decision table; "
        "(a') every second election also through ModelClient.get_estimates (rarely used limits included: 0, 0.25, 3, 5), unit table categories against the same rules; "
        "(a'') every fifth election as the second poll on a feed frame the caller keeps and updates in place; (b) the single-unit decision table enumerated completely: unit-blocklisted x state-blocklisted x zero baseline x turnout factor "
        "{<lo,=lo,inside,=hi,>hi} x expected vote {<thr,=thr,>thr} x turnout-flag x margin-flag (480 probe units + units outside the baseline) embedded "
        "in one election with a stubbed outlier model, both policies; (c) derived columns (margin, weights, normalised margin, turnout factor) "
        "recomputed and required finite. distinct = fingerprint (office, unit type, policy, threshold, estimands, set of categories); non-trivial = "
        ">=4 distinct categories in the run")

CAT = {"expected": "Expected", "unexpected": "Unexpected", "non-modeled: blocklisted": "Blocklisted", "non-modeled: zero baseline": "ZeroBaseline",
       "non-modeled: strange turnout factor": "StrangeTF", "non-modeled: strange turnout factor modeled": "StrangeTFModeled",
       "non-modeled: strange margin change modeled": "StrangeMarginModeled"}


def weights_of(row, margin, prefix):
    vals = [row[f"{prefix}_dem"], row[f"{prefix}_gop"]] if margin else [row[f"{prefix}_turnout"]]
    return sum(0 if (v is None or v != v) else v for v in vals)


NEEDS = {"dem": ["results_dem"], "gop": ["results_gop"], "turnout": ["results_turnout"], "margin": ["results_dem", "results_gop"]}


def has_nan(f, estimands):
    """the feed row lacks a value in a results column one of the requested estimands is made of"""
    return any(f.get(c) is None or f.get(c) != f.get(c) for e in estimands for c in NEEDS[e])


def run_get_units(case, stub_flags=None, feed_frame=None):
    """returns (frames, flags) with flags = {'turnout_factor': [ids], 'results_normalized_margin': [ids]}"""
    from harness import run_impl

    run_impl._imp()
    from elexmodel.handlers.data.CombinedData import CombinedDataHandler as C

    flags = {"turnout_factor": [], "results_normalized_margin": []}
    orig = C._fit_outlier_detection_model

    def wrapped(slf, reporting_units, response_variable, z):
        if stub_flags is not None:
            out = reporting_units[reporting_units["geographic_unit_fips"].isin(stub_flags[response_variable])].copy()
        else:
            out = orig(slf, reporting_units, response_variable, z)
        flags[response_variable] = list(out["geographic_unit_fips"])
        return out

    C._fit_outlier_detection_model = wrapped
    try:
        frames = run_impl.get_units(case, feed_frame=feed_frame)
    finally:
        C._fit_outlier_detection_model = orig
    return frames, flags


def run_via_client(case):
    """the same decision observed through ModelClient.get_estimates (the parameters travel through the client's own defaults and
    lookups): returns (harvest, flags)"""
    from harness import run_impl

    run_impl._imp()
    from elexmodel.handlers.data.CombinedData import CombinedDataHandler as C

    flags = {"turnout_factor": [], "results_normalized_margin": [], "_fitted": {}}
    orig = C._fit_outlier_detection_model

    def wrapped(slf, reporting_units, response_variable, z):
        out = orig(slf, reporting_units, response_variable, z)
        flags[response_variable] = list(out["geographic_unit_fips"])
        flags["_fitted"][response_variable] = {"candidates": int(reporting_units.shape[0]), "z": float(z)}
        return out

    C._fit_outlier_detection_model = wrapped
    try:
        h = aggfam.harvest(case)
    finally:
        C._fit_outlier_detection_model = orig
    return h, flags


def py_decision(case, flags):
    """The decision table in Python (search oracle): id -> (category, reporting)"""
    p = case["params"]
    mp = p.get("model_parameters", {})
    margin = "margin" in p["estimands"]
    thr = p["percent_reporting_threshold"]
    lo, hi = mp.get("turnout_factor_lower", 0.5), mp.get("turnout_factor_upper", 2.0)
    ubl, sbl = set(mp.get("unit_blocklist", [])), set(mp.get("postal_code_blocklist", []))
    feed = {}
    for f in case["feed"]:
        feed.setdefault((f["postal_code"], f["geographic_unit_fips"]), f)
    out = {}
    base_ids = set()
    for b in case["baseline"]:
        f = feed.get((b["postal_code"], b["geographic_unit_fips"]))
        uid = b["geographic_unit_fips"]
        if f is None or has_nan(f, p["estimands"]):
            if p.get("handle_unreporting", "drop") == "drop":
                continue
            rw, pev = 0, 0
        else:
            rw, pev = weights_of(f, margin, "results"), f["percent_expected_vote"]
        base_ids.add(uid)
        w = weights_of(b, margin, "baseline")
        tf = 0 if w == 0 else rw / w
        rep = pev >= thr
        if uid in ubl or b["postal_code"] in sbl:
            out[uid] = ("non-modeled: blocklisted", 0)
        elif w == 0:
            out[uid] = ("non-modeled: zero baseline", 0)
        elif rep and (tf <= lo or tf >= hi):
            out[uid] = ("non-modeled: strange turnout factor", 0)
        elif rep and uid in flags["turnout_factor"]:
            out[uid] = ("non-modeled: strange turnout factor modeled", 0)
        elif rep and margin and uid in flags["results_normalized_margin"]:
            out[uid] = ("non-modeled: strange margin change modeled", 0)
        else:
            out[uid] = ("expected", 1 if rep else 0)
    for f in case["feed"]:
        if f["geographic_unit_fips"] not in base_ids and f["geographic_unit_fips"] not in out:
            out[f["geographic_unit_fips"]] = ("unexpected", 0)
    return out


def encode(case, frames, flags):
    p = case["params"]
    mp = p.get("model_parameters", {})
    margin = "margin" in p["estimands"]
    # the limits as the binary64 comparison sees them: the implementation compares the ROUNDED quotient results / baseline with the limit
    # (inclusive), the model the exact quotient; a unit whose rounded quotient equals a limit is on the limit, so the limit handed to the
    # model is moved onto the exact quotient of such a unit (rounding is monotone, so no other unit's decision changes)
    from fractions import Fraction
    lo_f, hi_f = float(mp.get("turnout_factor_lower", 0.5)), float(mp.get("turnout_factor_upper", 2.0))
    lo_q, hi_q = Fraction(lo_f), Fraction(hi_f)
    feed_by = {}
    for f in case["feed"]:
        feed_by.setdefault((f["postal_code"], f["geographic_unit_fips"]), f)
    for b in case["baseline"]:
        f = feed_by.get((b["postal_code"], b["geographic_unit_fips"]))
        w = weights_of(b, margin, "baseline")
        if f is None or not w or has_nan(f, p["estimands"]):
            continue
        rw = weights_of(f, margin, "results")
        tf_f, tf_q = float(rw) / float(w), Fraction(rw) / Fraction(w)
        if tf_f == lo_f:
            lo_q = max(lo_q, tf_q)
        if tf_f == hi_f:
            hi_q = min(hi_q, tf_q)
    params = (f"{{| p_thr := {qlit(p['percent_reporting_threshold'])}; p_lo := {qlit(lo_q)}; "
              f"p_hi := {qlit(hi_q)}; p_unit_bl := {llit([slit(x) for x in mp.get('unit_blocklist', [])])}; "
              f"p_postal_bl := {llit([slit(x) for x in mp.get('postal_code_blocklist', [])])}; "
              f"p_zero_policy := {core.blit(p.get('handle_unreporting', 'drop') == 'zero')}; p_margin := {core.blit(margin)} |}}")
    base = llit([f"{{| b_id := {slit(b['geographic_unit_fips'])}; b_postal := {slit(b['postal_code'])}; b_w := {qlit(weights_of(b, margin, 'baseline'))} |}}"
                 for b in case["baseline"]])
    feed = llit([f"{{| f_id := {slit(f['geographic_unit_fips'])}; f_postal := {slit(f['postal_code'])}; f_rw := {qlit(weights_of(f, margin, 'results'))}; "
                 f"f_pev := {qlit(f['percent_expected_vote'])}; f_nan := {core.blit(has_nan(f, p['estimands']))} |}}" for f in case["feed"]])
    impl = []
    for fr, rep in zip(frames, (True, False, False)):
        for _, r in fr.iterrows():
            impl.append(f"({slit(r['geographic_unit_fips'])}, {CAT.get(r['unit_category'], 'Unexpected')}, {core.blit(int(r['reporting']) == 1)})")
    ft = llit([slit(x) for x in flags["turnout_factor"]])
    fm = llit([slit(x) for x in flags["results_normalized_margin"]])
    # derived quantities of every modelled unit, recomputed inside Coq from the unit's own counts (exact values of the floats)
    derived = []
    for fr in frames[:2]:
        for _, r in fr.iterrows():
            vals = [r["results_weights"], r["baseline_weights"], r["turnout_factor"]]
            if any(v != v for v in vals):
                derived.append("false")
                continue
            derived.append(f"check_turnout_factor {qlit(float(vals[0]))} {qlit(float(vals[1]))} {qlit(float(vals[2]))}")
            if margin and "results_dem" in fr.columns:
                mv = [r["results_dem"], r["results_gop"], r["results_weights"], r["results_margin"], r["results_normalized_margin"]]
                derived.append("false" if any(v != v for v in mv) else "check_margin_columns " + " ".join(qlit(float(v)) for v in mv))
            for e in p["estimands"]:
                if e == "margin" or fr is not frames[0] or f"residuals_{e}" not in fr.columns:
                    continue
                rv = [r[f"results_{e}"], r[f"baseline_{e}"], r[f"last_election_results_{e}"], r[f"residuals_{e}"]]
                derived.append("false" if any(v != v for v in rv) else "check_residual " + " ".join(qlit(float(v)) for v in rv))
    return (f"let p := {params} in let base := {base} in let feed := {feed} in "
            f"[check_get_units p {ft} {fm} base feed {llit(impl)}; check_decision_table p {ft} {fm} base feed; forallb (fun b : bool => b) {llit(derived)}]")


def s_oracle(case, frames, flags):
    fails = []
    want = py_decision(case, flags)
    got = {}
    for fr in frames:
        for _, r in fr.iterrows():
            uid = r["geographic_unit_fips"]
            if uid in got:
                fails.append({"what": f"unit {uid} is returned twice", "kind": "unit-twice"})
            got[uid] = (r["unit_category"], int(r["reporting"]))
    for uid, w in want.items():
        if got.get(uid) != w:
            fails.append({"what": f"unit {uid}: returned {got.get(uid)} but the eligibility rules say {w}", "kind": "category", "want": w[0]})
            if len(fails) > 4:
                break
    extra = set(got) - set(want)
    if extra:
        fails.append({"what": f"units {sorted(extra)[:3]} returned although no rule produces them", "kind": "extra-unit"})
    # derived columns
    margin = "margin" in case["params"]["estimands"]
    for fr in frames[:2]:
        for _, r in fr.iterrows():
            tfv = r["turnout_factor"]
            w, rw = r["baseline_weights"], r["results_weights"]
            exp = 0.0 if w == 0 else rw / w
            if not (math.isfinite(tfv) and abs(tfv - exp) <= 1e-12 * max(1, abs(exp))):
                fails.append({"what": f"unit {r['geographic_unit_fips']}: turnout_factor {tfv} but results_weights/baseline_weights = {exp}", "kind": "derived"})
                break
            if margin and "results_dem" in fr.columns:
                d, g = r["results_dem"], r["results_gop"]
                nm = 0.0 if d + g == 0 else (d - g) / (d + g)
                if r["results_margin"] != d - g or r["results_weights"] != d + g or not math.isfinite(r["results_normalized_margin"]) \
                        or abs(r["results_normalized_margin"] - nm) > 1e-12:
                    fails.append({"what": f"unit {r['geographic_unit_fips']}: derived margin columns inconsistent ({r['results_margin']}, {r['results_weights']}, {r['results_normalized_margin']})",
                                  "kind": "derived"})
                    break
    return fails


def worker(job):
    seed, kw = job
    rng = random.Random(seed)
    if kw.get("probe"):
        case, stub = probe_case(kw["policy"])
    else:
        case = gen.gen_case(rng, **kw)
        stub = None
    p = case["params"]
    fp = {"office": case["office"], "ut": case["unit_type"], "unrep": p.get("handle_unreporting"), "thr": p["percent_reporting_threshold"],
          "est": p["estimands"], "probe": bool(kw.get("probe"))}
    res = {"seed": seed, "kw": kw, "fp": fp, "nontrivial": False, "ok": False, "exc": None, "exprs": [], "labels": [], "problems": [], "s": [],
           "imports": IMPORTS, "regen": False}
    feed_frame = None
    if kw.get("feed_reuse") and not kw.get("probe"):
        # a caller that keeps ONE feed frame: first poll, then the raw counts of some units are updated in that very frame
        # (partially counted -> fully counted), then the poll that is checked
        from harness import run_impl

        rng2 = random.Random(seed + 7)
        feed_frame = run_impl.frames(case)[1]
        try:
            run_impl.get_units(case, feed_frame=feed_frame)
        except Exception:  # noqa: BLE001
            pass
        base_by = {b["geographic_unit_fips"]: b for b in case["baseline"]}
        cand = [f for f in case["feed"] if f["geographic_unit_fips"] in base_by and f["percent_expected_vote"] < 100 and f.get("results_turnout") is not None
                and base_by[f["geographic_unit_fips"]]["baseline_turnout"] > 0]
        for f in rng2.sample(cand, min(5, len(cand))):
            new = gen.live_row(rng2, base_by[f["geographic_unit_fips"]], 100)
            for c in ("results_dem", "results_gop", "results_turnout", "percent_expected_vote"):
                f[c] = new[c]
                feed_frame.loc[(feed_frame["geographic_unit_fips"] == f["geographic_unit_fips"]) & (feed_frame["postal_code"] == f["postal_code"]), c] = new[c]
    if kw.get("prepared_feed") and not kw.get("probe") and feed_frame is None and p["estimands"] == ["margin"]:
        # a feed that already carries the derived margin columns and no raw party counts (what the command line tool's mock live data
        # handler hands over): two-party weights, margin, normalised margin, total turnout
        import numpy as np

        from harness import run_impl

        ff = run_impl.frames(case)[1]
        if len(ff):
            ff["results_weights"] = ff["results_dem"] + ff["results_gop"]
            ff["results_margin"] = ff["results_dem"] - ff["results_gop"]
            with np.errstate(all="ignore"):
                ff["results_normalized_margin"] = np.nan_to_num((ff["results_margin"] / ff["results_weights"]).astype(float), nan=0, posinf=0, neginf=0)
            feed_frame = ff.drop(columns=["results_dem", "results_gop"])
            fp["prepared_feed"] = True
    try:
        frames, flags = run_get_units(case, stub, feed_frame=feed_frame)
    except Exception as e:  # noqa: BLE001
        res["exc"] = (type(e).__name__, str(e)[:300])
        return res
    res["ok"] = True
    cats = set()
    for fr in frames:
        cats |= set(fr["unit_category"])
    fp["cats"] = sorted(cats)
    res["nontrivial"] = len(cats) >= 4
    res["s"] = s_oracle(case, frames, flags)
    res["exprs"].append(encode(case, frames, flags))
    res["labels"].append(["get_units-vs-procedural-model", "procedural-vs-decision-table", "derived-columns"])
    if kw.get("via_client") and not kw.get("probe"):
        h, flags2 = run_via_client(case)
        fp["client"] = bool(h["ok"])
        if h["ok"]:
            # which outlier models ran, against the switches of this request (each model has its own switch; the margin model needs the margin)
            mp_ = p.get("model_parameters", {})
            fitted = flags2.pop("_fitted", {})
            sw = {"turnout_factor": mp_.get("fit_turnout_outlier_model", True),
                  "results_normalized_margin": mp_.get("fit_margin_outlier_model", True) and "margin" in p["estimands"]}
            n_cand = max([v["candidates"] for v in fitted.values()] or [0])
            for var, on in sw.items():
                if var in fitted and not on:
                    res["s"].append({"what": f"through ModelClient.get_estimates (model_parameters {mp_}): the outlier model for {var} was fitted although it is switched off "
                                             f"({len(flags2[var])} units flagged)", "kind": "outlier-switch"})
                elif on and var not in fitted and n_cand > 20:
                    res["s"].append({"what": f"through ModelClient.get_estimates (model_parameters {mp_}): the outlier model for {var} is switched on and {n_cand} units "
                                             f"qualify, but it was not fitted", "kind": "outlier-switch"})
                elif on and var in fitted and abs(fitted[var]["z"] - float(mp_.get("outlier_z_threshold", 2.0))) > 1e-12:
                    res["s"].append({"what": f"outlier model for {var} fitted with threshold {fitted[var]['z']}, the request says {mp_.get('outlier_z_threshold', 2.0)}", "kind": "outlier-switch"})
            want = py_decision(case, flags2)
            e0 = p["estimands"][0]
            got = {}
            for r in h["unit"][e0]:
                got.setdefault(r["geographic_unit_fips"], (r["unit_category"], int(r["reporting"])))
            bad = [(u, got.get(u), w) for u, w in want.items() if got.get(u) != w]
            if bad:
                u, g, w = bad[0]
                res["s"].append({"what": f"through ModelClient.get_estimates (model_parameters {p.get('model_parameters')}): unit {u} is {g} in the unit table but the "
                                         f"eligibility rules with the configured limits say {w} ({len(bad)} units differ)", "kind": "category-client"})
        elif h["exc"][0] not in ("ModelNotEnoughSubunitsException",):
            res["s"].append({"what": f"get_estimates failed: {h['exc'][0]}: {h['exc'][1][:120]}", "kind": "client-run-fails", "exc": h["exc"][0]})
    res["sample"] = {"seed": seed, "probe": bool(kw.get("probe")), "office": case["office"], "policy": p.get("handle_unreporting"),
                     "threshold": p["percent_reporting_threshold"], "units": len(case["baseline"]), "categories": sorted(cats),
                     "flagged": {k: len(v) for k, v in flags.items()}}
    return res


def probe_case(policy):
    """one election containing the complete single-unit decision table"""
    base, feed = [], []
    stub = {"turnout_factor": [], "results_normalized_margin": []}
    thr = 90
    k = 0
    # background: 30 ordinary reporting units in state AA so that the outlier models are invoked
    for i in range(30):
        uid = f"bg{i:03d}"
        base.append({"postal_code": "AA", "geographic_unit_fips": uid, "county_fips": "001", "county_classification": "urban",
                     "baseline_dem": 60, "baseline_gop": 40, "baseline_turnout": 105, "feat_a": 0.1, "feat_b": 0.2})
        feed.append({"postal_code": "AA", "geographic_unit_fips": uid, "results_dem": 55 + i % 7, "results_gop": 45 - i % 5, "results_turnout": 104, "percent_expected_vote": 100})
    tfs = {"lt_lo": 40, "eq_lo": 50, "inside": 100, "eq_hi": 200, "gt_hi": 250}
    pevs = {"lt": thr - 1, "eq": thr, "gt": 100}
    ubl = []
    for ublk in (0, 1):
        for sblk in (0, 1):
            for zero in (0, 1):
                for tfn, rw in tfs.items():
                    for pn, pev in pevs.items():
                        for ft in (0, 1):
                            for fm in (0, 1):
                                uid = f"p{k:04d}"
                                k += 1
                                st = "BL" if sblk else "AA"
                                bd, bg = (0, 0) if zero else (60, 40)
                                base.append({"postal_code": st, "geographic_unit_fips": uid, "county_fips": "002", "county_classification": "rural",
                                             "baseline_dem": bd, "baseline_gop": bg, "baseline_turnout": bd + bg, "feat_a": 0.3, "feat_b": 0.1})
                                feed.append({"postal_code": st, "geographic_unit_fips": uid, "results_dem": rw // 2, "results_gop": rw - rw // 2,
                                             "results_turnout": rw, "percent_expected_vote": pev})
                                if ublk:
                                    ubl.append(uid)
                                if ft:
                                    stub["turnout_factor"].append(uid)
                                if fm:
                                    stub["results_normalized_margin"].append(uid)
    # units outside the baseline, and baseline units missing from the feed
    for i, pev in enumerate((0, 50, 100)):
        feed.append({"postal_code": "AA", "geographic_unit_fips": f"new{i}", "results_dem": 5, "results_gop": 6, "results_turnout": 12, "percent_expected_vote": pev})
    for i in range(3):
        base.append({"postal_code": "AA", "geographic_unit_fips": f"miss{i}", "county_fips": "003", "county_classification": "rural",
                     "baseline_dem": 10, "baseline_gop": 10, "baseline_turnout": 21, "feat_a": 0.3, "feat_b": 0.1})
    ubl.append("miss1")
    case = {"office": "S", "unit_type": "county", "states": ["AA", "BL"], "baseline": base, "feed": feed,
            "params": {"estimands": ["margin"], "prediction_intervals": [0.7], "percent_reporting_threshold": thr, "pi_method": "nonparametric",
                       "aggregates": ["postal_code", "unit"], "features": [], "fixed_effects": {}, "handle_unreporting": policy,
                       "model_parameters": {"unit_blocklist": ubl, "postal_code_blocklist": ["BL"]}}}
    return case, stub


def jobs_for(chk):
    n = 40 if chk.tier == "quick" else 800
    rng = random.Random(chk.seed * 49979687 + 9)
    jobs = [(0, {"probe": True, "policy": "drop"}), (1, {"probe": True, "policy": "zero"})]
    for i in range(n):
        pi = ["nonparametric", "bootstrap", "gaussian"][i % 3]
        kw = {"pi_method": pi, "avoid_boot_nan_key": i % 2 == 0, "nan_rows": i % 2 == 1, "via_client": i % 2 == 0, "feed_reuse": i % 5 == 3, "prepared_feed": i % 3 == 1}
        if i % 4 == 0:
            kw["threshold"] = rng.choice([0, 1, 50, 99, 100])
        if i % 6 == 0:
            # configured limits that are falsy / far from the defaults, observed through the client
            kw["model_parameters"] = rng.choice([{"turnout_factor_lower": 0, "turnout_factor_upper": 5}, {"turnout_factor_lower": 0.0, "turnout_factor_upper": 2.0},
                                                 {"turnout_factor_lower": 0.7, "turnout_factor_upper": 1.3}])
        jobs.append((rng.randint(0, 2**31), kw))
    # the two outlier-model switches, one on and one off (both ways), and a non-default threshold, through the client, with enough units to fit
    for i in range(6 if chk.tier == "quick" else 60):
        pi = ["bootstrap", "nonparametric", "bootstrap"][i % 3]
        mp = [{"fit_turnout_outlier_model": False}, {"fit_margin_outlier_model": False}, {"outlier_z_threshold": 1.5},
              {"fit_turnout_outlier_model": False, "fit_margin_outlier_model": True}, {"fit_margin_outlier_model": False, "fit_turnout_outlier_model": True},
              {"outlier_z_threshold": 3.0, "fit_margin_outlier_model": False}][i % 6]
        jobs.append((rng.randint(0, 2**31), {"pi_method": pi, "via_client": True, "n_units": 90, "frac_reporting": 0.7, "threshold": 100, "model_parameters": dict(mp),
                                             "avoid_boot_nan_key": True, "nan_rows": False, "feed_reuse": False, "prepared_feed": False}))
    return jobs


def classify(f, case):
    return {"kind": f.get("kind")}


def run(chk):
    return aggfam.run_family(chk, worker, jobs_for(chk), RULE, classify, min_ok_frac=0.5, shard=4,
                             extra_assumptions=["outlier-model flags are oracle inputs: captured from the real outlier models, or chosen by a stub in the exhaustive decision table",
                                                "turnout factor compared as an exact rational of the binary64 inputs (limits and probes are exactly representable)"])


def replay(chk, payload):
    r = payload["replay"]
    o = worker((r["seed"], r["kw"]))
    print(json.dumps({"ok": o["ok"], "exc": o["exc"], "s": o["s"]}, indent=1, default=str))
    return 1 if o["s"] else 0
