"""C02 -- Every aggregate equals the sum of its units; levels agree with each other."""
import json
import random

from harness import aggfam, core, gen
from harness.core import llit, qlit, slit, zlit

RULE = ("synthetic elections as for C01 (prefix district ids '1'/'10', groups present only among unexpected / nonreporting units); per estimand "
        "and aggregate level the returned frame is compared inside Coq with the model's table computed from the implementation's own unit "
        "table: nonparametric = key column, counted votes, reporting, prediction and every interval column; gaussian = the same without "
        "intervals; bootstrap = key column (contest order), predicted turnout and turnout-weighted margin (1e-9 / 1e-6 relative). "
        "distinct = structural fingerprint; non-trivial = completed run with >=1 nonreporting and >=1 unexpected / non-modelled unit")

BOOT_IMPORTS = aggfam.IMPORTS.replace("Model.AggCheck.", "Model.AggCheck Model.BootAgg.")


def s_oracle(case, h):
    fails = []
    p = case["params"]
    keys_of = aggfam.unit_keys_py(case)
    pi = p["pi_method"]
    for e in p["estimands"]:
        recs = h["unit"][e]
        for agg in [a for a in p["aggregates"] if a != "unit"]:
            cols = aggfam.aggregate_list(case["office"], agg)
            tbl = h["agg"][f"{e}|{agg}"]
            sums = {}
            unx_groups = set()
            for r in recs:
                if r["unit_category"] != "expected":
                    k = keys_of(r["geographic_unit_fips"], r["postal_code"])
                    unx_groups.add(tuple(k[c] for c in cols))
            colnames = [f"pred_{e}"] + ([c for a in p["prediction_intervals"] for c in (f"lower_{a}_{e}", f"upper_{a}_{e}")] if pi == "nonparametric" else [])
            if e == "margin":
                colnames = ["pred_margin", "pred_turnout"]
            for r in recs:
                k = keys_of(r["geographic_unit_fips"], r["postal_code"])
                expected = r["unit_category"] == "expected"
                if "county_classification" in cols and not expected:
                    continue
                key = tuple(k[c] for c in cols)
                if any(x is None for x in key):
                    continue
                acc = sums.setdefault(key, [0.0] * len(colnames))
                for i, c in enumerate(colnames):
                    acc[i] += float(r[c])
            got = {tuple(rec[c] for c in cols): rec for rec in tbl["rows"]}
            if set(got) != set(sums):
                fails.append({"what": f"{agg} table for {e}: groups {sorted(set(got) ^ set(sums))[:3]} differ from the unit table's", "kind": "group-set", "agg": agg})
                continue
            for key, acc in sums.items():
                rec = got[key]
                if e == "margin":
                    pt = float(rec["pred_turnout"])
                    pm = float(rec["pred_margin"])
                    if abs(pt - acc[1]) > 1e-6 * max(1, abs(acc[1])):
                        fails.append({"what": f"{agg} group {key}: pred_turnout {pt} but its units sum to {acc[1]}", "kind": "boot-turnout", "agg": agg,
                                      "cls": "county_classification" in cols, "unx_in_group": key in unx_groups})
                        break
                    if abs(pm * pt - acc[0]) > 1e-5 * max(1, abs(acc[0])):
                        fails.append({"what": f"{agg} group {key}: pred_margin*pred_turnout {pm * pt} but its units' margins sum to {acc[0]}", "kind": "boot-margin", "agg": agg})
                        break
                else:
                    bad = [c for i, c in enumerate(colnames) if abs(float(rec[c]) - acc[i]) > 0.5]
                    if bad:
                        fails.append({"what": f"{agg} group {key}: {bad[0]}={rec[bad[0]]} but its units sum to {acc[colnames.index(bad[0])]}", "kind": "sum", "agg": agg})
                        break
            if e != "margin" and pi in ("gaussian", "nonparametric"):
                # interval columns sit on the row of the group they were computed for: every group has finite bounds, and a group none of whose
                # units is outstanding carries its counted votes in all three columns (a shifted or shortened interval vector breaks both)
                outstanding = set()
                for r in recs:
                    if r["unit_category"] == "expected" and int(r["reporting"]) == 0:
                        k = keys_of(r["geographic_unit_fips"], r["postal_code"])
                        outstanding.add(tuple(k[c] for c in cols))
                for rec in tbl["rows"]:
                    key = tuple(rec[c] for c in cols)
                    for a in p["prediction_intervals"]:
                        lo, hi = rec.get(f"lower_{a}_{e}"), rec.get(f"upper_{a}_{e}")
                        if lo is None or hi is None or lo != lo or hi != hi:
                            fails.append({"what": f"{agg} group {key}: no interval at level {a} (lower {lo}, upper {hi})", "kind": "interval-missing", "agg": agg})
                            break
                        if key not in outstanding and not (lo == hi == rec[f"results_{e}"] == rec[f"pred_{e}"]):
                            fails.append({"what": f"{agg} group {key} has no outstanding unit, counted votes {rec[f'results_{e}']}, but its level-{a} interval is [{lo}, {hi}] "
                                                  f"around {rec[f'pred_{e}']} (interval of another row)", "kind": "interval-row-misaligned", "agg": agg})
                            break
                    else:
                        continue
                    break
            if e == "margin":
                for rec in tbl["rows"]:
                    for a in p["prediction_intervals"]:
                        lo, hi, pm = rec[f"lower_{a}_margin"], rec[f"upper_{a}_margin"], rec["pred_margin"]
                        if not (lo <= pm <= hi):
                            fails.append({"what": f"{agg} group {[rec[c] for c in cols]}: interval [{lo}, {hi}] at level {a} does not contain its prediction {pm} (row misaligned)",
                                          "kind": "boot-row-misaligned", "agg": agg, "cls": "county_classification" in cols,
                                          "unx_in_group": tuple(rec[c] for c in cols) in unx_groups})
                            break
        # levels agree: every requested pair (coarse, fine) of non-classification levels
    return fails


def worker(job):
    seed, kw = job
    rng = random.Random(seed)
    case = gen.gen_case(rng, **kw)
    h = aggfam.harvest(case)
    res = {"seed": seed, "kw": kw, "fp": aggfam.fingerprint(case, h), "nontrivial": aggfam.nontrivial(case, h), "ok": h["ok"], "exc": h.get("exc"),
           "exprs": [], "labels": [], "problems": [], "s": [], "imports": BOOT_IMPORTS}
    if not h["ok"]:
        return res
    p = case["params"]
    pi = p["pi_method"]
    res["s"] = s_oracle(case, h)
    for d_ in aggfam.final_vs_estimates(case, h)[:1]:
        res["s"].append({"what": d_, "kind": "final-table-differs"})
    alphas = p["prediction_intervals"]
    for e in p["estimands"]:
        recs = h["unit"][e]
        probs = []
        checks, labels = [], []
        if e == "margin":
            base = {b["geographic_unit_fips"]: b for b in case["baseline"]}
            aggs = p["aggregates"]
            rows = []
            for rec in recs:
                uid = rec["geographic_unit_fips"]
                if uid in base:
                    b = base[uid]
                    keys = f"[Some {slit(rec['postal_code'])}; {core.olit(b.get('district'), slit)}; Some {slit(b['county_classification'])}; Some {slit(b['county_fips'])}]"
                else:
                    keys = (f"unexpected_keys {core.blit('district' in case['unit_type'])} {core.blit('county_fips' in aggs)} {core.blit('district' in aggs)} "
                            f"{slit(rec['postal_code'])} {slit(uid)}")
                try:
                    rows.append(f"{{| b_fr := {aggfam.frame_of(rec)}; b_keys := {keys}; b_resm := {qlit(rec['results_margin'])}; "
                                f"b_predm := {qlit(rec['pred_margin'])}; b_predt := {qlit(rec['pred_turnout'])} |}}")
                except (ValueError, TypeError):
                    probs.append({"unit": uid, "value": "non-finite"})
            for agg in [a for a in aggs if a != "unit"]:
                cols = aggfam.aggregate_list(case["office"], agg)
                if "county_classification" in cols:
                    continue  # units outside the model are excluded at classification level: C01's attribution rule, checked by the S oracle
                tbl = h["agg"][f"{e}|{agg}"]
                items = []
                for rec in tbl["rows"]:
                    try:
                        items.append(f"({llit([slit(rec[c]) for c in cols])}, ({qlit(rec['pred_margin'])}, {qlit(rec['pred_turnout'])}))")
                    except (ValueError, TypeError):
                        probs.append({"group": [rec[c] for c in cols], "value": "non-finite"})
                checks.append(f"check_boot_agg {aggfam.aggr_lit(cols)} rows {llit(items)}")
                labels.append(f"{e}|{agg}")
            res["exprs"].append(f"let rows := {llit(rows)} in {llit(checks)}")
        else:
            use_alphas = alphas if pi == "nonparametric" else []
            rows = aggfam.encode_rows(case, recs, e, use_alphas, probs)
            for agg in [a for a in p["aggregates"] if a != "unit"]:
                cols = aggfam.aggregate_list(case["office"], agg)
                t = aggfam.encode_table(h["agg"][f"{e}|{agg}"], cols, e, use_alphas, probs)
                if t is None:
                    continue
                if pi == "nonparametric":
                    checks.append(f"check_np_table {aggfam.aggr_lit(cols)} {len(alphas)}%nat rows {t}")
                else:
                    checks.append(f"check_core_table {aggfam.aggr_lit(cols)} rows {t}")
                labels.append(f"{e}|{agg}")
            res["exprs"].append(f"let rows := {llit(rows)} in {llit(checks)}")
        res["labels"].append(labels)
        res["problems"] += probs
    res["sample"] = {"seed": seed, "estimator": pi, "office": case["office"], "unit_type": case["unit_type"], "aggregates": p["aggregates"],
                     "estimands": p["estimands"], "levels": alphas, "units": len(case["baseline"])}
    return res


def jobs_for(chk):
    n = 42 if chk.tier == "quick" else 900
    rng = random.Random(chk.seed * 104729 + 2)
    jobs = []
    for i in range(n):
        pi = ["nonparametric", "gaussian", "bootstrap"][i % 3]
        jobs.append((rng.randint(0, 2**31), {"pi_method": pi}))
    # boundary family: bootstrap, district office, three-level keys with prefix district ids (the F2 shape)
    for i in range(4 if chk.tier == "quick" else 40):
        jobs.append((rng.randint(0, 2**31), {"pi_method": "bootstrap", "office": "H", "n_states": 1,
                                             "aggregates": ["postal_code", "district", "county_fips", "unit"]}))
    # boundary family: groups of a sub-state table without any reporting unit (a county where nothing has reached the threshold; county
    # units, where every outstanding county is such a group), for the estimators that add counted votes to modelled bounds
    for i in range(6 if chk.tier == "quick" else 60):
        pi = ["gaussian", "nonparametric", "gaussian"][i % 3]
        kw = {"pi_method": pi, "office": ["S", "P"][i % 2], "aggregates": ["postal_code", "county_classification", "county_fips", "unit"], "n_unexpected": i % 2}
        if i % 2:
            kw.update({"unit_type": "county", "frac_reporting": 0.6})
        else:
            kw.update({"unit_type": "precinct", "dark_group": True})
        jobs.append((rng.randint(0, 2**31), kw))
    # boundary family: a statewide office whose baseline carries a district column and whose request includes the district table (plain unit ids:
    # an unexpected unit's district is derived from its id like everybody else's)
    for i in range(3 if chk.tier == "quick" else 30):
        jobs.append((rng.randint(0, 2**31), {"pi_method": ["nonparametric", "gaussian", "nonparametric"][i % 3], "office": "P", "unit_type": ["precinct", "county"][i % 2],
                                             "extra_district": True, "aggregates": ["postal_code", "district", "county_fips", "unit"], "n_unexpected": 1 + i % 2}))
    return jobs


def classify(f, case):
    tags = {"kind": f.get("kind")}
    if f.get("kind") in ("boot-turnout", "boot-row-misaligned"):
        tags["cls"] = f.get("cls")
        tags["unx_in_group"] = f.get("unx_in_group")
    return tags


def run(chk):
    return aggfam.run_family(chk, worker, jobs_for(chk), RULE, classify,
                             extra_assumptions=["unit-level numbers are taken from the implementation's own unit table (their correctness is C03-C06's business)",
                                                "bootstrap sums are compared with relative tolerance 1e-9 (turnout) / 1e-6 (margin): BLAS summation order is not modelled"])


def replay(chk, payload):
    r = payload["replay"]
    o = worker((r["seed"], r["kw"]))
    print(json.dumps({"ok": o["ok"], "exc": o["exc"], "s": o["s"], "problems": o["problems"]}, indent=1, default=str))
    return 1 if (o["s"] or o["problems"]) else 0
