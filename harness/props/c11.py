"""C11 -- An unexpected unit only adds its own votes."""
import copy
import json
import random

from harness import aggfam, core, gen
from harness.core import llit, qlit, slit, zlit

RULE = ("pairs of get_estimates runs on one synthetic election, without and with one extra feed row that is not in the baseline (known / new county, "
        "known / new district, known / unknown state, 0/50/100 percent expected vote, ids with and without the documented '_' structure); every "
        "aggregate list, all three estimators. Inside Coq (nonparametric, gaussian): check_delta = the second table equals the first plus the model's "
        "delta, new group only for the unit's own key, reporting unchanged. Python statement oracle: unit table gains exactly one 'unexpected' row, every "
        "other number identical (bit-for-bit for the bootstrap), and the run with the extra row never fails when the run without it succeeds. "
        "distinct = fingerprint of (estimator, office, unit type, aggregates, kind of extra unit); non-trivial = both runs completed")

MAL = "malformed"


def extra_row(rng, case, spec):
    base = case["baseline"]
    district = case["office"] in ("H", "Y", "Z")
    st = case["states"][0] if spec["state"] == "known" else "ZZ"
    # a "known" county / district is one of the unit's own state (a county id of another state would be a new group of this state)
    counties = sorted({b["county_fips"] for b in base if b["postal_code"] == st}) or sorted({b["county_fips"] for b in base})
    dists = sorted({b["district"] for b in base if b.get("district") and b["postal_code"] == st}) or sorted({b["district"] for b in base if b.get("district")})
    c = rng.choice(counties) if spec["county"] == "known" else "977"
    d = (rng.choice(dists) if spec["district"] == "known" else "70") if district else None
    if spec.get("id") == MAL:
        uid = "51999"  # no '_' although the unit type has districts / precincts
    else:
        uid = gen.unit_id(case["unit_type"], d, c, "xq")
        if spec.get("id") == "split" and case["unit_type"].startswith("precinct"):
            uid = uid + "_A"
        used = {b["geographic_unit_fips"] for b in base}
        if uid in used:
            c = "977"
            uid = gen.unit_id(case["unit_type"], d, c, "xq")
    dem, gop = rng.randint(0, 500), rng.randint(0, 500)
    return {"postal_code": st, "geographic_unit_fips": uid, "results_dem": dem, "results_gop": gop,
            "results_turnout": dem + gop + rng.randint(0, 30), "percent_expected_vote": spec["pev"]}


def num_cols(e, alphas, boot):
    cols = [f"pred_{e}", f"results_{e}"] + [c for a in alphas for c in (f"lower_{a}_{e}", f"upper_{a}_{e}")]
    return cols


def s_oracle(case, x, h0, h1):
    fails = []
    p = case["params"]
    boot = p["pi_method"] == "bootstrap"
    aggs = p["aggregates"]
    has_d = "district" in case["unit_type"]
    comps = x["geographic_unit_fips"].split("_")
    xkey = {"postal_code": x["postal_code"], "district": comps[0] if "district" in aggs else None, "county_classification": None,
            "county_fips": (comps[1 if has_d else 0] if len(comps) > (1 if has_d else 0) else None) if "county_fips" in aggs else None}
    for e in p["estimands"]:
        resx = {"dem": x["results_dem"], "gop": x["results_gop"], "turnout": x["results_turnout"], "margin": x["results_dem"] - x["results_gop"]}[e]
        wx = x["results_dem"] + x["results_gop"]
        u0 = {r["geographic_unit_fips"]: r for r in h0["unit"][e]}
        u1 = {r["geographic_unit_fips"]: r for r in h1["unit"][e]}
        if set(u1) != set(u0) | {x["geographic_unit_fips"]}:
            fails.append({"what": f"unit table ids changed by more than the extra unit: {sorted(set(u1) ^ set(u0))[:4]}", "kind": "unit-set"})
            continue
        rx = u1[x["geographic_unit_fips"]]
        cols = num_cols(e, p["prediction_intervals"], boot)
        if rx["unit_category"] != "unexpected" or any(rx[c] != resx for c in cols):
            fails.append({"what": f"extra unit row is {rx} but should be 'unexpected' with every column = {resx}", "kind": "unit-row"})
        for uid, r0 in u0.items():
            r1 = u1[uid]
            diff = [c for c in r0 if not (r0[c] == r1[c] or (r0[c] != r0[c] and r1[c] != r1[c]))]
            if diff:
                fails.append({"what": f"unit {uid} changed in {diff[:3]}: {r0[diff[0]]} -> {r1[diff[0]]}", "kind": "others-changed", "level": "unit"})
                break
        for agg in [a for a in aggs if a != "unit"]:
            colsk = aggfam.aggregate_list(case["office"], agg)
            gx = tuple(xkey[c] for c in colsk)
            attributable = "county_classification" not in colsk and all(v is not None for v in gx)
            if "county_classification" not in colsk and not attributable and resx != 0:
                fails.append({"what": f"{agg} table: the extra unit has no value for {[c for c, v in zip(colsk, gx) if v is None]} and its {resx} votes are in no group",
                              "kind": "votes-lost-nan-key", "missing_col": ",".join(c for c, v in zip(colsk, gx) if v is None)})
            t0 = {tuple(r[c] for c in colsk): r for r in h0["agg"][f"{e}|{agg}"]["rows"]}
            t1 = {tuple(r[c] for c in colsk): r for r in h1["agg"][f"{e}|{agg}"]["rows"]}
            extra = set(t1) - set(t0)
            if set(t0) - set(t1) or (extra - ({gx} if attributable else set())):
                fails.append({"what": f"{agg} table: group set changed beyond the unit's own group: {sorted(set(t1) ^ set(t0))[:3]}", "kind": "group-set"})
                continue
            for g, r1 in t1.items():
                mine = attributable and g == gx
                r0 = t0.get(g)
                if boot:
                    if not mine:
                        diff = [c for c in r1 if r0[c] != r1[c] and not (r0[c] != r0[c] and r1[c] != r1[c])
                                and not (isinstance(r0[c], float) and abs(r0[c] - r1[c]) <= 1e-9 * max(1.0, abs(r0[c])))]
                        if diff:
                            fails.append({"what": f"{agg} group {g} does not contain the extra unit but {diff[0]} changed {r0[diff[0]]} -> {r1[diff[0]]}",
                                          "kind": "others-changed", "level": agg})
                            break
                    else:
                        n0 = (r0["pred_margin"] * r0["pred_turnout"], r0["results_margin"] * r0["pred_turnout"], r0["pred_turnout"]) if r0 else (0.0, 0.0, 0.0)
                        n1 = (r1["pred_margin"] * r1["pred_turnout"], r1["results_margin"] * r1["pred_turnout"], r1["pred_turnout"])
                        want = (n0[0] + resx, n0[1] + resx, n0[2] + wx)
                        if any(abs(a - b) > 1e-6 * max(1.0, abs(b)) for a, b in zip(n1, want)):
                            fails.append({"what": f"{agg} group {g}: numerators/denominator {n1} but expected {want}", "kind": "own-group", "level": agg})
                            break
                        # both bounds move with the prediction: they are quantiles of draws that contain the unit's known margin and votes
                        for a_ in p["prediction_intervals"]:
                            lo1, hi1, pm1 = r1[f"lower_{a_}_margin"], r1[f"upper_{a_}_margin"], r1["pred_margin"]
                            if r0 is not None:
                                settled = abs((r0[f"upper_{a_}_margin"] - r0[f"lower_{a_}_margin"]) - 0.002) < 1e-9
                            else:
                                settled = True      # a new group holds nothing but the unit's own known votes
                            called = abs(abs(pm1) - 0.005) < 1e-12
                            if settled and not called and (abs(lo1 - (pm1 - 0.001)) > 1e-9 or abs(hi1 - (pm1 + 0.001)) > 1e-9):
                                fails.append({"what": f"{agg} group {g} has no outstanding vote: bounds at level {a_} are [{lo1}, {hi1}] but the prediction with the "
                                                      f"extra unit is {pm1} (expected {pm1 - 0.001}, {pm1 + 0.001})", "kind": "own-group-bounds", "level": agg})
                                break
                            if not called and not (lo1 <= pm1 <= hi1):
                                fails.append({"what": f"{agg} group {g}: bounds at level {a_} [{lo1}, {hi1}] do not contain the prediction {pm1} after adding the unit",
                                              "kind": "own-group-bounds", "level": agg})
                                break
                else:
                    d = resx if mine else 0
                    for c in cols:
                        v0 = r0[c] if r0 else 0
                        if r1[c] != v0 + d:
                            fails.append({"what": f"{agg} group {g}: {c} {v0} -> {r1[c]}, expected +{d}", "kind": "own-group" if mine else "others-changed", "level": agg})
                            break
                    if (r1["reporting"] != (r0["reporting"] if r0 else 0)):
                        fails.append({"what": f"{agg} group {g}: reporting count changed", "kind": "reporting-changed", "level": agg})
    return fails


def worker(job):
    seed, kw, spec = job
    rng = random.Random(seed)
    case = gen.gen_case(rng, n_unexpected=0, **kw)
    if spec.get("shape") and case["office"] in ("H", "Y", "Z"):
        # boundary shapes of the contest structure: a district with exactly ten expected units / a state with a single district
        dists = sorted({b["district"] for b in case["baseline"]})
        d0 = dists[0]
        if spec["shape"] == "ten":
            keep, n = [], 0
            for b in case["baseline"]:
                if b["district"] == d0:
                    n += 1
                    if n > 10:
                        continue
                keep.append(b)
            if n >= 10:
                case["baseline"] = keep
        else:
            for b in case["baseline"]:
                if b["district"] != d0:
                    b["geographic_unit_fips"] = d0 + "_" + b["geographic_unit_fips"].split("_", 1)[1] + "r"
                    b["district"] = d0
        ids = {b["geographic_unit_fips"] for b in case["baseline"]}
        case["feed"] = [f for f in case["feed"] if f["geographic_unit_fips"] in ids]
        have = {f["geographic_unit_fips"] for f in case["feed"]}
        for b in case["baseline"]:
            if b["geographic_unit_fips"] not in have:
                case["feed"].append(gen.live_row(rng, b, rng.choice([100, 100, 60])))
        bl = case["params"]["model_parameters"].get("unit_blocklist")
        if bl:
            case["params"]["model_parameters"]["unit_blocklist"] = [u for u in bl if u in ids and not u.startswith(d0 + "_")]
        x = extra_row(rng, case, dict(spec, district="known" if spec["shape"] == "ten" else "new"))
        if spec["shape"] == "ten":
            x["geographic_unit_fips"] = d0 + "_" + x["geographic_unit_fips"].split("_", 1)[1]
    else:
        x = extra_row(rng, case, spec)
    if spec.get("settle") and case["unit_type"] == "precinct":
        # the extra unit lands in a county in which every expected unit has reported (nothing outstanding in the group: its bounds are known exactly),
        # and it is large and lopsided, so that counting it once, twice or not at all gives visibly different group numbers
        c_x = x["geographic_unit_fips"].split("_")[0]
        st_x = x["postal_code"]
        mp_ = case["params"]["model_parameters"]
        ids_c = {b["geographic_unit_fips"] for b in case["baseline"] if b["county_fips"] == c_x and b["postal_code"] == st_x}
        case["feed"] = [f for f in case["feed"] if f["geographic_unit_fips"] not in ids_c]
        for b in case["baseline"]:
            if b["geographic_unit_fips"] in ids_c and b["baseline_turnout"] > 0:
                case["feed"].append(gen.live_row(rng, b, 100))
        if mp_.get("unit_blocklist"):
            mp_["unit_blocklist"] = [u for u in mp_["unit_blocklist"] if u not in ids_c]
        big = 2000 + rng.randint(0, 3000)
        lean = rng.choice([0.03, 0.97])
        x["results_dem"], x["results_gop"] = int(big * lean), big - int(big * lean)
        x["results_turnout"] = big + rng.randint(0, 40)
    case1 = copy.deepcopy(case)
    case1["feed"].append(x)
    h0 = aggfam.harvest(case)
    p = case["params"]
    if p["pi_method"] == "bootstrap":
        from harness import boot

        with boot.ContestCapture() as ccap:
            h1 = aggfam.harvest(case1)
    else:
        ccap = None
        h1 = aggfam.harvest(case1)
    fp = aggfam.fingerprint(case, h0)
    fp["x"] = spec
    fp["ok1"] = h1["ok"]
    res = {"seed": seed, "kw": kw, "spec": spec, "fp": fp, "nontrivial": h0["ok"] and h1["ok"], "ok": h0["ok"], "exc": h0.get("exc"),
           "exprs": [], "labels": [], "problems": [], "s": [], "regen": False}
    aggs = p["aggregates"]
    has_d = "district" in case["unit_type"]
    comps = x["geographic_unit_fips"].split("_")
    lists = [aggfam.aggregate_list(case["office"], a) for a in aggs if a != "unit"]
    nan_key = any(("county_classification" in l) or ("district" in l and "district" not in aggs) or ("county_fips" in l and "county_fips" not in aggs) for l in lists)
    ctx = {"estimator": p["pi_method"], "new_state": spec["state"] != "known", "malformed_id": spec.get("id") == MAL, "nan_key": nan_key}
    res["ctx"] = ctx
    if not h0["ok"]:
        return res
    if not h1["ok"]:
        if h1["exc"][0] == "ModelNotEnoughSubunitsException":
            res["s"].append(dict(ctx, what="extra unexpected unit changed the outcome of the minimum-units gate", kind="run-fails", exc=h1["exc"][0]))
        else:
            res["s"].append(dict(ctx, what=f"run with the extra unexpected unit {x['geographic_unit_fips']} ({spec}) fails: {h1['exc'][0]}: {h1['exc'][1][:100]}",
                                 kind="run-fails", exc=h1["exc"][0]))
        return res
    res["s"] = [dict(ctx, **f) for f in s_oracle(case, x, h0, h1)]
    if p["pi_method"] != "bootstrap":
        alphas = p["prediction_intervals"]
        flags = f"{core.blit(has_d)} {core.blit('county_fips' in aggs)} {core.blit('district' in aggs)}"
        for e in p["estimands"]:
            resx = {"dem": x["results_dem"], "gop": x["results_gop"], "turnout": x["results_turnout"]}[e]
            xr = f"mk_row {flags} {slit(x['geographic_unit_fips'])} {slit(x['postal_code'])} FUnx None 0 {zlit(resx)} {zlit(resx)} []"
            checks, labels = [], []
            for agg in [a for a in aggs if a != "unit"]:
                cols = aggfam.aggregate_list(case["office"], agg)
                t0 = aggfam.encode_table(h0["agg"][f"{e}|{agg}"], cols, e, alphas, res["problems"])
                t1 = aggfam.encode_table(h1["agg"][f"{e}|{agg}"], cols, e, alphas, res["problems"])
                if t0 is None or t1 is None:
                    continue
                checks.append(f"check_delta {aggfam.aggr_lit(cols)} x {len(alphas)}%nat {t0} {t1}")
                labels.append(f"{e}|{agg}")
            res["exprs"].append(f"let x := {xr} in {llit(checks)}")
            res["labels"].append(labels)
    if ccap is not None:
        # contest structure of the bootstrap (district offices): the implementation's contest-effect columns against the model
        # evaluated, inside Coq, with the frames the translator found in the source
        for c in ccap.calls:
            if not c["district_election"] or c["e"] is None or c["names"] is None:
                continue
            if any(v != v or v in ("nan", "None") for pair in c["e"] + c["u"] for v in pair):
                continue
            impl = [n.split("_", 1) for n in c["names"] if n not in c["states"]]
            if any(len(x) != 2 for x in impl):
                res["s"].append(dict(ctx, what=f"contest-effect column names {c['names']} are not <state>_<district>", kind="contest-names"))
                continue
            cl = lambda l: llit([f"({slit(a)}, {slit(b)})" for a, b in l])  # noqa: E731
            q = "Elex.Model.ContestEffects"
            g = "Elex.Gen.Contests"
            res["exprs"].append(f"[{q}.check_selected {g}.multi_frame {g}.valid_frame {g}.count_frame {g}.contest_threshold {cl(c['e'])} {cl(c['u'])} {cl(impl)}]")
            res["labels"].append(["contest-structure"])
    res["imports"] = aggfam.IMPORTS + "From Elex Require Model.ContestEffects Gen.Contests.\n"
    res["sample"] = {"seed": seed, "estimator": p["pi_method"], "office": case["office"], "unit_type": case["unit_type"], "aggregates": aggs,
                     "extra_unit": x, "spec": spec}
    return res


def jobs_for(chk):
    n = 36 if chk.tier == "quick" else 600
    rng = random.Random(chk.seed * 32452843 + 11)
    jobs = []
    for i in range(n):
        pi = ["nonparametric", "gaussian", "bootstrap"][i % 3]
        spec = {"state": "known", "county": rng.choice(["known", "new"]), "district": rng.choice(["known", "new"]), "pev": rng.choice([0, 50, 100])}
        if i % 4 == 1:
            spec["id"] = "split"
        kw = {"pi_method": pi, "avoid_boot_nan_key": False}
        if i % 4 == 1:
            kw["unit_type"] = "precinct" if i % 8 == 1 else "precinct-district"
            kw["office"] = "S" if i % 8 == 1 else "H"
            kw["aggregates"] = ["postal_code", "county_fips", "unit"] + (["district"] if i % 8 != 1 else [])
        jobs.append((rng.randint(0, 2**31), kw, spec))
    # boundary families (each is a known-finding shape on the unchanged tree)
    fam = [
        ({"pi_method": "bootstrap", "avoid_boot_nan_key": False, "aggregates": ["postal_code", "county_classification", "unit"], "office": "S"},
         {"state": "known", "county": "known", "district": "known", "pev": 100}),
        ({"pi_method": "bootstrap", "avoid_boot_nan_key": False, "aggregates": ["postal_code", "unit"], "office": "S"},
         {"state": "unknown", "county": "new", "district": "new", "pev": 100}),
        ({"pi_method": "nonparametric", "aggregates": ["postal_code", "county_fips", "unit"], "office": "S"},
         {"state": "unknown", "county": "new", "district": "new", "pev": 50}),
        ({"pi_method": "nonparametric", "aggregates": ["postal_code", "county_fips", "district", "unit"], "office": "H", "unit_type": "precinct-district"},
         {"state": "known", "county": "known", "district": "known", "pev": 100, "id": MAL}),
        ({"pi_method": "gaussian", "aggregates": ["postal_code", "county_fips", "unit"], "office": "H"},
         {"state": "known", "county": "new", "district": "new", "pev": 100}),
    ]
    reps = 1 if chk.tier == "quick" else 6
    for r_ in range(reps):
        # bootstrap, sub-state table, the extra unit in a county without outstanding vote (exact bounds) -- and the same with outstanding vote
        for settle in (True, True, False):
            jobs.append((rng.randint(0, 2**31), {"pi_method": "bootstrap", "avoid_boot_nan_key": False, "office": "S", "unit_type": "precinct", "threshold": 100,
                                                 "aggregates": ["postal_code", "county_fips", "unit"], "handle_unreporting": "drop"},
                         {"state": "known", "county": "known", "district": "known", "pev": 100, "settle": settle}))
        for kw, spec in fam:
            jobs.append((rng.randint(0, 2**31), kw, spec))
        for shape in ("ten", "atlarge"):
            for ut in ("precinct-district", "county-district"):
                jobs.append((rng.randint(0, 2**31), {"pi_method": "bootstrap", "avoid_boot_nan_key": False, "office": "H", "unit_type": ut, "n_states": 1,
                                                     "aggregates": ["postal_code", "district", "unit"], "handle_unreporting": "drop"},
                             {"state": "known", "county": "known", "district": "known", "pev": 100, "shape": shape}))
    return jobs


def classify(f, case):
    tags = {k: f.get(k) for k in ("kind", "estimator", "new_state", "malformed_id", "nan_key", "exc", "missing_col") if k in f}
    return tags


def run(chk):
    jobs = jobs_for(chk)
    # run_family stores seed/kw; keep spec in kw for replays
    jobs2 = [(s, dict(kw, _spec=spec)) for s, kw, spec in jobs]
    return aggfam.run_family(chk, worker2, jobs2, RULE, classify, min_ok_frac=0.2,
                             extra_assumptions=["both runs of a pair use the same seed settings; for the bootstrap 'unchanged' means equal within 1e-9 relative (BLAS summation order changes with the matrix shape and is outside the model)"])


def worker2(job):
    seed, kw = job
    kw = dict(kw)
    spec = kw.pop("_spec")
    o = worker((seed, kw, spec))
    o["kw"] = dict(kw, _spec=spec)
    return o


def replay(chk, payload):
    r = payload["replay"]
    o = worker2((r["seed"], r["kw"]))
    print(json.dumps({"ok": o["ok"], "exc": o["exc"], "s": o["s"], "problems": o["problems"]}, indent=1, default=str))
    return 1 if (o["s"] or o["problems"]) else 0
