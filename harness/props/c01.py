"""C01 -- Counted votes are conserved and every unit is reported exactly once."""
import json
import random

from harness import aggfam, core, gen
from harness.core import llit, qlit, slit, zlit

RULE = ("synthetic elections (1-3 states, counties, classifications, optional districts with prefix ids, 30-90 baseline units; feed with fully / "
        "partially / not reporting units, units missing from the feed, unexpected units in known and new counties / districts, zero-baseline, "
        "blocklisted, turnout-factor-limit units; thresholds {100,99,50,1}; both unreporting policies; random aggregate lists; all three "
        "estimators) run through get_estimates; per estimand the unit table ids and every aggregate table (key column, counted votes, "
        "reporting count) are compared inside Coq with the tables the model computes from the unit rows; distinct = distinct structural "
        "fingerprint (estimator, office, unit type, aggregates, estimands, levels, threshold, policy, set of unit categories, size); "
        "non-trivial = run completed with >=1 nonreporting and >=1 unexpected / non-modelled unit")


def s_oracle(case, h):
    """The statement of C01 evaluated directly on the implementation output. returns list of failure dicts."""
    fails = []
    p = case["params"]
    keys_of = aggfam.unit_keys_py(case)
    feed = {}
    for r in case["feed"]:
        feed.setdefault(r["geographic_unit_fips"], r)
    exp = aggfam.expected_ids(case)
    for e in p["estimands"]:
        recs = h["unit"][e]
        ids = [r["geographic_unit_fips"] for r in recs]
        if len(ids) != len(set(ids)):
            fails.append({"what": f"unit table for {e} lists a unit twice", "kind": "unit-dup"})
        if set(ids) != set(exp):
            fails.append({"what": f"unit table for {e}: missing {sorted(set(exp) - set(ids))[:3]} extra {sorted(set(ids) - set(exp))[:3]}", "kind": "unit-set"})
        col = {"dem": "results_dem", "gop": "results_gop", "turnout": "results_turnout"}.get(e)
        for r in recs:
            f = feed.get(r["geographic_unit_fips"])
            if f is None:
                want = 0
            elif e == "margin":
                want = f["results_dem"] - f["results_gop"]
            else:
                want = f[col]
            if aggfam.whole(r[f"results_{e}"]) != want:
                fails.append({"what": f"unit {r['geographic_unit_fips']} results_{e}={r[f'results_{e}']} but the feed says {want}", "kind": "unit-results"})
                break
        for agg in [a for a in p["aggregates"] if a != "unit"]:
            cols = aggfam.aggregate_list(case["office"], agg)
            tbl = h["agg"][f"{e}|{agg}"]
            want = {}
            wantrep = {}
            want2p, outstanding = {}, set()
            lost = []
            for r in recs:
                k = keys_of(r["geographic_unit_fips"], r["postal_code"])
                expected = r["unit_category"] == "expected"
                if "county_classification" in cols and not expected:
                    continue
                key = tuple(k[c] for c in cols)
                if any(x is None for x in key):
                    if aggfam.whole(r[f"results_{e}"]):
                        lost.append(r["geographic_unit_fips"])
                    continue
                want[key] = want.get(key, 0) + aggfam.whole(r[f"results_{e}"])
                wantrep[key] = wantrep.get(key, 0) + (1 if expected and int(r["reporting"]) == 1 else 0)
                f_ = feed.get(r["geographic_unit_fips"])
                if e == "margin":
                    two = 0 if f_ is None else (f_.get("results_dem") or 0) + (f_.get("results_gop") or 0)
                    want2p[key] = want2p.get(key, 0) + two
                    if expected and int(r["reporting"]) == 0:
                        outstanding.add(key)
            got = {}
            got2p = {}
            for rec in tbl["rows"]:
                key = tuple(rec[c] for c in cols)
                if key in got:
                    fails.append({"what": f"{agg} table for {e}: group {key} twice", "kind": "group-dup", "agg": agg})
                val = rec[f"results_{e}"]
                if e == "margin":
                    val = val * rec["pred_turnout"]
                got[key] = (val, rec["reporting"])
                got2p[key] = rec.get("pred_turnout")
            if lost:
                fails.append({"what": f"{agg} table for {e}: votes of {lost[:3]} are in no group (key column missing)", "kind": "votes-lost-nan-key",
                              "agg": agg, "unexpected_only": all(u not in {b['geographic_unit_fips'] for b in case['baseline']} for u in lost),
                              "missing_col": [c for c in cols if c not in p["aggregates"] and c != "postal_code"]})
            if set(got) != set(want):
                fails.append({"what": f"{agg} table for {e}: groups differ: missing {sorted(set(want) - set(got))[:3]} extra {sorted(set(got) - set(want))[:3]}",
                              "kind": "group-set", "agg": agg})
                continue
            if e == "margin":
                # the divisor is the two-party turnout: in a group without outstanding units it is exactly the dem + gop votes counted there
                for key in want:
                    if key in outstanding or got2p.get(key) is None:
                        continue
                    if abs(got2p[key] - want2p[key]) > 1e-6 * max(1, abs(want2p[key])):
                        fails.append({"what": f"{agg} table for margin: group {key} has no outstanding unit, its two-party turnout is {got2p[key]} but the feed counts "
                                              f"{want2p[key]} dem + gop votes there (counted margin {want[key]} is divided by the wrong turnout)", "kind": "two-party-turnout", "agg": agg})
                        break
            for key in want:
                v, rep = got[key]
                if abs(v - want[key]) > 1e-6 * max(1, abs(want[key])) or int(rep) != wantrep[key]:
                    fails.append({"what": f"{agg} table for {e}: group {key} counted {v} / reporting {rep}, units say {want[key]} / {wantrep[key]}",
                                  "kind": "group-sum", "agg": agg})
                    break
    return fails


def worker(job):
    seed, kw = job
    rng = random.Random(seed)
    case = gen.gen_case(rng, **kw)
    h = aggfam.harvest(case)
    res = {"seed": seed, "kw": kw, "fp": aggfam.fingerprint(case, h), "nontrivial": aggfam.nontrivial(case, h), "ok": h["ok"], "exc": h.get("exc"),
           "exprs": [], "labels": [], "problems": [], "s": []}
    if not h["ok"]:
        return res
    p = case["params"]
    res["s"] = s_oracle(case, h)
    exp = llit([slit(x) for x in aggfam.expected_ids(case)])
    for e in p["estimands"]:
        recs = h["unit"][e]
        probs = []
        rows = aggfam.encode_rows(case, recs, e, [], probs, core_only=True)
        checks = [f"same_ids {exp} {llit([slit(r['geographic_unit_fips']) for r in recs])}"]
        labels = [f"{e}|unit-ids"]
        for agg in [a for a in p["aggregates"] if a != "unit"]:
            cols = aggfam.aggregate_list(case["office"], agg)
            tbl = h["agg"][f"{e}|{agg}"]
            if e == "margin":
                items = []
                for rec in tbl["rows"]:
                    try:
                        items.append(f"({llit([slit(rec[c]) for c in cols])}, ({qlit(rec['results_margin'])}, {zlit(int(rec['reporting']))}, {qlit(rec['pred_turnout'])}))")
                    except (ValueError, TypeError):
                        probs.append({"group": [rec[c] for c in cols], "value": "non-finite"})
                checks.append(f"check_boot_core {aggfam.aggr_lit(cols)} rows {llit(items)}")
            else:
                items = []
                for rec in tbl["rows"]:
                    w = [aggfam.whole(rec[f"results_{e}"]), aggfam.whole(rec["reporting"])]
                    if None in w:
                        probs.append({"group": [rec[c] for c in cols], "values": [str(rec[f'results_{e}']), str(rec['reporting'])]})
                        continue
                    items.append(f"mk_arow {llit([slit(rec[c]) for c in cols])} {zlit(w[0])} {zlit(w[1])} {zlit(w[0])} []")
                # compare key column, counted votes and reporting count (pred is C02's business: set equal to model's by construction below)
                checks.append(f"list_eqb (fun x y => key_eqb (akey x) (akey y) && Z.eqb (ares x) (ares y) && Z.eqb (arepn x) (arepn y)) "
                              f"(np_table {aggfam.aggr_lit(cols)} 0 rows) {llit(items)}")
            labels.append(f"{e}|{agg}")
        res["exprs"].append(f"let rows := {llit(rows)} in {llit(checks)}")
        res["labels"].append(labels)
        res["problems"] += probs
    res["sample"] = {"seed": seed, "estimator": p["pi_method"], "office": case["office"], "unit_type": case["unit_type"], "aggregates": p["aggregates"],
                     "estimands": p["estimands"], "units": len(case["baseline"]), "feed_rows": len(case["feed"])}
    return res


def presence_job(job):
    """feed rows without results (NaN) for baseline units: every unit of the feed is in the unit table exactly once, and the votes that did
    arrive are all counted (nonparametric / gaussian; the units with missing results contribute nothing)"""
    seed, pi = job
    rng = random.Random(seed)
    case = gen.gen_case(rng, pi_method=pi, nan_rows=True, n_unexpected=1, office=rng.choice(["S", "P"]), aggregates=["postal_code", "county_fips", "unit"], special=False, blocklist=False, outlier=False)
    h = aggfam.harvest(case)
    p = case["params"]
    res = {"job": list(job), "ok": h["ok"], "exc": h.get("exc"), "s": [], "policy": p["handle_unreporting"], "nan_units": [f["geographic_unit_fips"] for f in case["feed"] if f["results_turnout"] is None]}
    if not h["ok"]:
        return res
    exp = aggfam.expected_ids(case)
    for e in p["estimands"]:
        ids = [r["geographic_unit_fips"] for r in h["unit"][e]]
        if len(ids) != len(set(ids)):
            res["s"].append({"what": f"unit table for {e} lists a unit twice", "kind": "unit-dup"})
        if set(ids) != set(exp):
            res["s"].append({"what": f"unit table for {e} ({p['handle_unreporting']} policy, feed units without results: {res['nan_units']}): missing "
                                     f"{sorted(set(exp) - set(ids))[:3]} extra {sorted(set(ids) - set(exp))[:3]}", "kind": "unit-set"})
        col = f"results_{e}"
        total_feed = sum(f[col] for f in case["feed"] if f.get(col) is not None)
        st = h["agg"].get(f"{e}|postal_code")
        if st is not None:
            got = sum(r[col] for r in st["rows"] if r[col] == r[col])
            if abs(got - total_feed) > 1e-6 * max(1, abs(total_feed)):
                res["s"].append({"what": f"state table for {e}: {got} counted votes, the feed holds {total_feed}", "kind": "group-sum"})
    return res


def jobs_for(chk):
    n = 45 if chk.tier == "quick" else 900
    rng = random.Random(chk.seed * 7919 + 1)
    jobs = []
    for i in range(n):
        pi = ["nonparametric", "gaussian", "bootstrap"][i % 3]
        jobs.append((rng.randint(0, 2**31), {"pi_method": pi}))
    # boundary family: district office whose aggregate request omits "district" while unexpected units are present (finding F10)
    for i in range(2 if chk.tier == "quick" else 12):
        jobs.append((rng.randint(0, 2**31), {"pi_method": ["nonparametric", "gaussian"][i % 2], "office": "H", "n_unexpected": 2,
                                             "aggregates": ["postal_code", "county_fips", "unit"]}))
    return jobs


def classify_known(f, case):
    """tags of a failing case (for known-findings matching)"""
    tags = {"kind": f.get("kind")}
    if f.get("kind") == "votes-lost-nan-key":
        tags["unexpected_only"] = f.get("unexpected_only")
        tags["missing_col"] = ",".join(f.get("missing_col", []))
        tags["district_office"] = aggfam.is_district_office(case["office"])
    return tags


def run(chk):
    ok, rep = chk.proofs()
    chk.assumptions += ["outlier-model flags and unit categories are taken from the implementation's unit table here (C09 decides the categories)",
                        "pandas groupby / merge / sort semantics as modelled in coq/Base/Frame.v"]
    jobs = jobs_for(chk)
    outs = core.pmap(worker, jobs)
    exprs = []
    idx = []
    n_ok = 0
    for j, o in enumerate(outs):
        chk.count(o["fp"], nontrivial=o["nontrivial"], sample=o.get("sample"))
        if o["ok"]:
            n_ok += 1
        for k, e in enumerate(o["exprs"]):
            exprs.append(e)
            idx.append((j, k))
    res, errs = core.coq_eval("C01", aggfam.IMPORTS, exprs, shard=6, timeout=900)
    mismatch = {}
    for (j, k), r in zip(idx, res):
        o = outs[j]
        labels = o["labels"][k]
        if r is None:
            mismatch.setdefault(j, []).append(("coq-eval-failed", errs[:1]))
            continue
        vals = r.strip("[]").split(";")
        vals = [v.strip() for v in vals]
        for lab, v in zip(labels, vals):
            if v != "true":
                mismatch.setdefault(j, []).append((lab, v))
    for j, o in enumerate(outs):
        seed, kw = o["seed"], o["kw"]
        replay = {"kind": "gen_case", "seed": seed, "kw": kw}
        case = None
        for f in o["s"]:
            if case is None:
                case = gen.gen_case(random.Random(seed), **kw)
            chk.violation(f["what"], replay, classify_known(f, case))
        for pr in o["problems"]:
            chk.violation(f"non-finite or fractional vote count in a returned table: {json.dumps(pr)[:200]}", replay, {"kind": "non-whole"})
        if j in mismatch and not o["s"]:
            chk.violation(f"implementation tables differ from the model's ({mismatch[j][:3]}) but the C01 predicate holds on this output",
                          dict(replay, correspondence="coq/Model/AggCheck.v check on " + str(mismatch[j][:3])), {"kind": "model-diff"}, no_input=True)
    # feed rows without results
    prng = random.Random(chk.seed * 7919 + 1)
    pjobs = [(prng.randint(0, 2**31), ["nonparametric", "gaussian"][i % 2]) for i in range(6 if chk.tier == "quick" else 60)]
    for o in core.pmap(presence_job, pjobs):
        chk.count({"presence": True, "pi": o["job"][1], "policy": o.get("policy"), "ok": o["ok"]}, nontrivial=bool(o["ok"] and o.get("nan_units")),
                  sample={"stream": "feed rows without results", "estimator": o["job"][1], "policy": o.get("policy"), "units_without_results": o.get("nan_units"), "completed": o["ok"]})
        for f in o["s"]:
            chk.violation(f["what"], {"kind": "presence", "job": o["job"]}, {"kind": f["kind"], "nan_rows": True})
    if n_ok < max(3, len(outs) // 4):
        chk.violation(f"only {n_ok} of {len(outs)} generated runs completed; C01 cannot be evaluated", {"kind": "coverage", "excs": [o['exc'] for o in outs if not o['ok']][:5]},
                      {"kind": "coverage"}, no_input=True)
    if not ok and not [v for v in chk.violations if not v["no_input"]]:
        chk.violation("proof obligations of C01 no longer check", {"theorem_file": "coq/Properties/C01.v", "log": rep.get("log_tail", "")[-1500:]}, {"kind": "proof-broken"}, no_input=True)
    return chk.finish(RULE, extra={"runs_completed": n_ok, "runs_raised": len(outs) - n_ok,
                                   "raised_kinds": sorted({(o["exc"] or ["?"])[0] for o in outs if not o["ok"]})})


def replay_presence(payload):
    o = presence_job(tuple(payload["replay"]["job"]))
    print(json.dumps({k: o.get(k) for k in ("ok", "exc", "s", "nan_units", "policy")}, indent=1, default=str))
    return 1 if o["s"] else 0


def replay(chk, payload):
    if payload["replay"].get("kind") == "presence":
        return replay_presence(payload)
    r = payload["replay"]
    o = worker((r["seed"], r["kw"]))
    print(json.dumps({"ok": o["ok"], "exc": o["exc"], "s": o["s"], "problems": o["problems"]}, indent=1, default=str))
    return 1 if (o["s"] or o["problems"]) else 0
