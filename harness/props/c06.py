"""C06 -- Bootstrap intervals are ordered, nested by level, and margins stay in [-1, 1]."""
import json
import random

from harness import aggfam, boot, core, gen
from harness.core import llit, qlit, zlit

IMPORTS = "From Coq Require Import ZArith QArith List.\nImport ListNotations.\nFrom Elex Require Import Model.Ranks Model.Compare Model.NonrepBounds.\n"

RULE = ("(i) _get_quantiles on the grid of levels k/1000 x numbers of draws B (quick: 30 values of B in [2, 2000]; thorough: every B in [2, 2000]): "
        "implementation ranks compared inside Coq with the exact-rational model and with the validity predicate 0 <= lower rank <= upper rank <= B; "
        "(ii) random and adversarial draw matrices (all signs, ties, constant rows, B in {2,3,10,37,500}) injected into a BootstrapElectionModel: unit "
        "bounds compared with rhe(pred - quantile_lin(sorted draws)) and checked ordered / nested for every pair of levels, aggregate bounds checked to "
        "straddle the prediction and to be nested; (iii) get_estimates runs (districts, fixed effects, several regularisation constants): unit lower <= "
        "upper, nesting at unit and aggregate level, lower < prediction < upper, margin in [-1,1], turnout >= 0; the clipping bounds of every nonreporting unit "
        "(_generate_nonreporting_bounds) compared inside Coq with y_bounds / z_bounds, and every bootstrap draw and point prediction of the run checked to lie inside them. distinct = grid level / (B, matrix "
        "kind) / API fingerprint; non-trivial = B >= 3 or a completed API run with >= 1 nonreporting unit")


def grid_job(B):
    m = boot.model(B)
    out = []
    for k in range(1, 1000):
        a = k / 1000
        lq, uq = m._get_quantiles(a)
        out.append((a, float(lq), float(uq)))
    return B, out


def inject_job(job):
    import numpy as np

    seed, B, kind = job
    rng = np.random.default_rng(seed)
    n = 6
    if kind == "normal":
        diff = rng.normal(scale=50.0, size=(n, B))
    elif kind == "ties":
        diff = rng.integers(-3, 4, size=(n, B)).astype(float)
    elif kind == "constant":
        diff = np.tile(rng.integers(-5, 6, size=(n, 1)).astype(float), (1, B))
    elif kind == "halfint":
        diff = rng.integers(-9, 10, size=(n, B)).astype(float) / 2.0
    else:
        diff = rng.normal(scale=1e6, size=(n, B)) * (rng.random(size=(n, B)) < 0.3)
    preds = rng.integers(-500, 500, size=n).astype(float) / (2.0 if kind == "halfint" else 1.0)
    m = boot.model(B)
    names = [f"s{i}" for i in range(n)]
    rep, non, unx = boot.one_unit_per_contest(names, preds)
    boot.inject(m, diff, preds)
    alphas = [0.5, 0.7, 0.9, 0.95, 0.99]
    res = {"job": list(job), "diff": diff.tolist(), "preds": preds.tolist(), "unit": {}, "agg": {}}
    m.get_aggregate_predictions(rep, non, unx, ["postal_code"], "margin")
    for a in alphas:
        lo, hi = m.get_unit_prediction_intervals(rep, non, a, "margin")
        res["unit"][a] = (np.asarray(lo).flatten().tolist(), np.asarray(hi).flatten().tolist())
        lo2, hi2 = m.get_aggregate_prediction_intervals(rep, non, unx, ["postal_code"], a, None, "margin")
        res["agg"][a] = (np.asarray(lo2).flatten().tolist(), np.asarray(hi2).flatten().tolist())
    return res


def presidential_files(rng, case):
    """the three files of the presidential race that correct_from_presidential reads (baseline, results so far, unit predictions), as csv text;
    the presidential numbers sit near the race's own, with a few units pushed to the edge of what is feasible"""
    import pandas as pd

    feed = {f["geographic_unit_fips"]: f for f in case["feed"]}
    brows, rrows, prows = [], [], []
    for b in case["baseline"]:
        uid = b["geographic_unit_fips"]
        two = max(1, b["baseline_dem"] + b["baseline_gop"])
        shift = rng.uniform(-0.08, 0.08)
        d = int(round(min(two, max(0, b["baseline_dem"] + shift * two))))
        brows.append({"postal_code": b["postal_code"], "geographic_unit_fips": uid, "baseline_dem": d, "baseline_gop": two - d})
        f = feed.get(uid)
        if f is None:
            continue
        tot = max(0, f["results_dem"] + f["results_gop"])
        nm_now = ((f["results_dem"] - f["results_gop"]) / tot) if tot else 0.0
        off = rng.choice([0.0, -0.03, 0.04, -0.4, 0.5])
        p_nm = min(1.0, max(-1.0, nm_now - off))
        p_dem = int(round(tot * (1 + p_nm) / 2))
        final = max(tot, int(round(two * rng.uniform(0.8, 1.3))))
        pred_nm = rng.choice([p_nm, min(1.0, p_nm + 0.05), max(-1.0, p_nm - 0.05), 0.99, -0.99, 1.0])
        rrows.append({"postal_code": b["postal_code"], "geographic_unit_fips": uid, "results_dem": p_dem, "results_gop": tot - p_dem, "results_weights": tot})
        prows.append({"postal_code": b["postal_code"], "geographic_unit_fips": uid, "pred_margin": int(round(final * pred_nm)), "pred_turnout": final,
                      "results_margin": 2 * p_dem - tot, "reporting": int(f["percent_expected_vote"] >= 100)})
    return {"data/P/data_county.csv": pd.DataFrame(brows).to_csv(index=False), "results/P/county/current.csv": pd.DataFrame(rrows).to_csv(index=False),
            "predictions/P/county/unit_data/current.csv": pd.DataFrame(prows).to_csv(index=False)}


class ClipCapture:
    """records, for every bootstrap run, the clipping bounds of the nonreporting units (_generate_nonreporting_bounds: inputs, settings, outputs) and
    checks every draw of the run against them (the draws themselves stay inside the worker)"""

    def __init__(self):
        self.calls, self.fails = [], []

    def __enter__(self):
        from harness import run_impl
        run_impl._imp()
        import numpy as np
        from elexmodel.models.BootstrapElectionModel import BootstrapElectionModel as M
        self.M, self.ob, self.oc = M, M._generate_nonreporting_bounds, M.compute_bootstrap_errors
        cap = self

        def wb(slf, nonreporting_units, bootstrap_estimand, *a, **k):
            lo, hi = cap.ob(slf, nonreporting_units, bootstrap_estimand, *a, **k)
            y = bootstrap_estimand == "results_normalized_margin"
            cap.calls.append({"est": "y" if y else "z", "ids": list(nonreporting_units["geographic_unit_fips"]),
                              "pev": [float(x) for x in nonreporting_units.percent_expected_vote.values],
                              "val": [float(x) for x in nonreporting_units[bootstrap_estimand].values],
                              "lo": [float(x) for x in np.asarray(lo).flatten()], "hi": [float(x) for x in np.asarray(hi).flatten()],
                              "set": ([slf.y_unobserved_lower_bound, slf.y_unobserved_upper_bound] if y else
                                      [slf.z_unobserved_lower_bound, slf.z_unobserved_upper_bound, slf.percent_expected_vote_error_bound])})
            return lo, hi

        def wc(slf, reporting_units, nonreporting_units, unexpected_units, *a, **k):
            n0 = len(cap.calls)
            out = cap.oc(slf, reporting_units, nonreporting_units, unexpected_units, *a, **k)
            mine = {c["est"]: c for c in cap.calls[n0:]}
            if "y" in mine and "z" in mine and len(mine["y"]["ids"]) > 0 and getattr(slf, "ran_bootstrap", False):
                ids = mine["y"]["ids"]
                w = nonreporting_units["baseline_weights"].values.reshape(-1, 1).astype(float)
                ylo, yhi = np.array(mine["y"]["lo"]).reshape(-1, 1), np.array(mine["y"]["hi"]).reshape(-1, 1)
                zlo, zhi = np.array(mine["z"]["lo"]).reshape(-1, 1), np.array(mine["z"]["hi"]).reshape(-1, 1)
                tol = 1e-9
                with np.errstate(all="ignore"):
                    for name, num, den, lo, hi in (("margin draw", slf.errors_B_1, slf.errors_B_3, ylo, yhi), ("turnout-factor draw", slf.errors_B_3, w, zlo, zhi),
                                                   ("margin draw with sampled error", slf.errors_B_2, slf.errors_B_4, ylo, yhi), ("turnout-factor draw with sampled error", slf.errors_B_4, w, zlo, zhi),
                                                   ("margin point prediction", slf.weighted_yz_test_pred, slf.weighted_z_test_pred, ylo, yhi),
                                                   ("turnout-factor point prediction", slf.weighted_z_test_pred, w, zlo, zhi)):
                        num, den = np.asarray(num, dtype=float), np.asarray(den, dtype=float)
                        q = num / den
                        okd = np.isfinite(q) & (np.abs(den) > 1e-12)
                        bad = okd & ((q < lo - tol * np.maximum(1, np.abs(lo))) | (q > hi + tol * np.maximum(1, np.abs(hi))))
                        if bad.any():
                            i, j = [int(t) for t in np.argwhere(bad)[0]]
                            cap.fails.append({"what": f"unit {ids[i]}: {name} {float(q[i, j])} (draw {j}) lies outside the unit's clipping bounds "
                                                      f"[{float(lo[i, 0])}, {float(hi[i, 0])}] ({int(bad.sum())} of {int(okd.sum())} values outside)", "kind": "draw-outside-bounds"})
            return out

        M._generate_nonreporting_bounds, M.compute_bootstrap_errors = wb, wc
        return self

    def __exit__(self, *exc):
        self.M._generate_nonreporting_bounds, self.M.compute_bootstrap_errors = self.ob, self.oc
        return False

    def exprs(self):
        """Coq comparator expressions: the captured bounds against Model/NonrepBounds.v"""
        import math
        out = []
        for c in self.calls:
            rows = [f"({qlit(p)}, {qlit(v)}, ({qlit(lo)}, {qlit(hi)}))" for p, v, lo, hi in zip(c["pev"], c["val"], c["lo"], c["hi"])
                    if all(math.isfinite(t) for t in (p, v, lo, hi))]
            if not rows:
                continue
            if c["est"] == "y":
                out.append(f"check_y_bounds {qlit(c['set'][0])} {qlit(c['set'][1])} {llit(rows)}")
            else:
                out.append(f"check_z_bounds {qlit(c['set'][0])} {qlit(c['set'][1])} {qlit(c['set'][2])} {llit(rows)}")
        return out


def api_job(job):
    with ClipCapture() as cap:
        res = api_job_inner(job)
    res["clip_exprs"] = cap.exprs()
    res["clip_units"] = sum(len(c["ids"]) for c in cap.calls)
    if res.get("ok"):
        res["fails"] += cap.fails
        # statement on the captured bounds themselves: ordered, margin bounds inside the naive range
        for c in cap.calls:
            for uid, lo, hi, v in zip(c["ids"], c["lo"], c["hi"], c["val"]):
                if not (lo <= hi):
                    res["fails"].append({"what": f"unit {uid}: clipping bounds of the {'margin' if c['est'] == 'y' else 'turnout factor'} are not ordered: [{lo}, {hi}]", "kind": "clip-bounds"})
                elif c["est"] == "y" and v == v and not (min(c["set"][0], v) - 1e-12 <= lo and hi <= max(c["set"][1], v) + 1e-12):
                    # (a counted margin outside configured naive bounds of less than +-1 legitimately pulls the interval towards itself: C06_margin_clip_bounds
                    #  assumes ylo <= counted margin <= yhi)
                    res["fails"].append({"what": f"unit {uid}: margin clipping bounds [{lo}, {hi}] leave the range spanned by the naive bounds {c['set'][:2]} and the counted margin {v}",
                                         "kind": "clip-bounds"})
    return res


def api_job_inner(job):
    seed, kw = job
    kw = dict(kw)
    pres = kw.pop("presidential", False)
    rng = random.Random(seed)
    surge = kw.pop("surge", False)
    if surge and kw.get("_tfs"):
        surge = kw.pop("_tfs")
    kw.pop("_tfs", None)
    case = gen.gen_case(rng, pi_method="bootstrap", alphas=[0.6, 0.8, 0.95], **kw)
    if surge:
        # a county whose precincts are all 85-95% in with a turnout surge: more votes already counted than the model predicts in total
        by_county = {}
        for b in case["baseline"]:
            if b["baseline_turnout"] > 0:
                by_county.setdefault((b["postal_code"], b["county_fips"]), []).append(b)
        big = [k for k, v in by_county.items() if len(v) >= 3]
        if big:
            lean = lambda k: abs(sum(b["baseline_dem"] - b["baseline_gop"] for b in by_county[k])) / max(1, sum(b["baseline_dem"] + b["baseline_gop"] for b in by_county[k]))  # noqa: E731
            key = max(sorted(big), key=lean)          # the most lopsided county: a wrong turnout moves its normalised margin most
            ids = {b["geographic_unit_fips"] for b in by_county[key]}
            bl = set(case["params"]["model_parameters"].get("unit_blocklist", []))
            case["feed"] = [f for f in case["feed"] if f["geographic_unit_fips"] not in ids]
            for b in by_county[key]:
                case["feed"].append(gen.live_row(rng, b, rng.choice([85, 90, 95]), tf=rng.choice(surge if isinstance(surge, list) else [2.0, 2.5, 3.0])))
            case["params"]["model_parameters"]["unit_blocklist"] = sorted(bl - ids)
    if pres:
        # the (rarely used) correction from the presidential race of the same election: its files come from an in-memory stand-in
        from harness import run_impl

        run_impl._imp()
        import elexmodel.handlers.s3 as s3mod

        files = presidential_files(rng, case)
        case["params"]["model_parameters"]["correct_from_presidential"] = True

        class FakeCsv:
            def __init__(self, bucket_name, client=None):
                self.bucket_name = bucket_name

            def get(self, filename, load=True, **k):
                for suffix, text in files.items():
                    if filename.endswith(suffix):
                        return text
                raise KeyError(filename)

            def put(self, filename, data, **k):
                return None

        orig = s3mod.S3CsvUtil
        s3mod.S3CsvUtil = FakeCsv
        try:
            h = aggfam.harvest(case)
        finally:
            s3mod.S3CsvUtil = orig
    else:
        h = aggfam.harvest(case)
    res = {"job": list(job), "ok": h["ok"], "exc": h.get("exc"), "fails": [], "fp": aggfam.fingerprint(case, h), "nontrivial": aggfam.nontrivial(case, h) or False}
    if not h["ok"]:
        return res
    alphas = sorted(case["params"]["prediction_intervals"])
    has_non = False
    for r in h["unit"]["margin"]:
        if r["unit_category"] == "expected" and int(r["reporting"]) == 0:
            has_non = True
        prev = None
        for a in alphas:
            lo, hi = r[f"lower_{a}_margin"], r[f"upper_{a}_margin"]
            if not (lo <= hi):
                res["fails"].append({"what": f"unit {r['geographic_unit_fips']}: lower_{a} {lo} > upper_{a} {hi}", "kind": "unit-order"})
            if prev and not (lo <= prev[0] and prev[1] <= hi):
                res["fails"].append({"what": f"unit {r['geographic_unit_fips']}: level {a} interval [{lo},{hi}] does not contain the narrower level's {prev}", "kind": "unit-nested"})
            prev = (lo, hi)
        if not (r["pred_turnout"] >= 0):
            res["fails"].append({"what": f"unit {r['geographic_unit_fips']}: predicted turnout {r['pred_turnout']} is negative or NaN", "kind": "turnout"})
    res["nontrivial"] = has_non
    keys_of = aggfam.unit_keys_py(case)
    for key, tbl in h["agg"].items():
        agg = key.split("|")[1]
        cls = agg == "county_classification"
        colsk = aggfam.aggregate_list(case["office"], agg)
        unx_groups = set()
        for r in h["unit"]["margin"]:
            if r["unit_category"] != "expected":
                k = keys_of(r["geographic_unit_fips"], r["postal_code"])
                unx_groups.add(tuple(k[c] for c in colsk))
        for rec in tbl["rows"]:
            in_unx = tuple(rec[c] for c in colsk) in unx_groups
            p = rec["pred_margin"]
            if not (-1 - 1e-9 <= p <= 1 + 1e-9):
                res["fails"].append({"what": f"{agg} group {[rec[c] for c in tbl['cols'][:3]]}: predicted margin {p} outside [-1, 1]", "kind": "margin-range"})
            if not (rec["pred_turnout"] >= 0):
                res["fails"].append({"what": f"{agg} group: predicted turnout {rec['pred_turnout']} negative or NaN", "kind": "turnout"})
            prev = None
            for a in alphas:
                lo, hi = rec[f"lower_{a}_margin"], rec[f"upper_{a}_margin"]
                if not (lo < p < hi):
                    res["fails"].append({"what": f"{agg} group {[rec[c] for c in tbl['cols'][:3]]}: not lower_{a} {lo} < prediction {p} < upper_{a} {hi}",
                                         "kind": "agg-straddle", "cls": cls, "unx_in_group": in_unx})
                if prev and not (lo <= prev[0] + 1e-12 and prev[1] <= hi + 1e-12):
                    res["fails"].append({"what": f"{agg} group: level {a} interval [{lo},{hi}] does not contain level-below interval {prev}", "kind": "agg-nested", "cls": cls, "unx_in_group": in_unx})
                prev = (lo, hi)
    return res


def run(chk):
    ok, rep = chk.proofs()
    chk.assumptions += ["bootstrap draw matrices are oracle inputs; np.quantile(linear) is modelled exactly over Q on the binary64 draws; rounded bounds may be either "
                        "neighbour within 1e-6 of a tie", "levels below 2^-53 (where binary64 1-alpha is 1) are outside the grid"]
    rng = random.Random(chk.seed * 401 + 6)
    # (i) ranks grid
    if chk.tier == "quick":
        Bs = sorted({2, 3, 4, 5, 7, 10, 20, 37, 50, 100, 199, 200, 500, 999, 1000, 2000} | {rng.randint(2, 2000) for _ in range(14)})
    else:
        Bs = list(range(2, 2001))
    grids = core.pmap(grid_job, Bs, chunksize=4)
    exprs = []
    for B, rows in grids:
        items = llit([f"({qlit(a)}, ({qlit(lq)}, {qlit(uq)}))" for a, lq, uq in rows])
        exprs.append(f"forallb (fun t : Q * (Q * Q) => check_ranks (fst t) {zlit(B)} (fst (snd t)) (snd (snd t)) && ranks_valid_b (fst t) {zlit(B)}) {items}")
    res, errs = core.coq_eval("C06", IMPORTS, exprs, shard=2, timeout=1200, tag="grid")
    for (B, rows), v in zip(grids, res):
        chk.count({"grid_B": B}, nontrivial=B >= 3, sample={"B": B, "level": 0.9, "impl_quantiles": [r for r in rows if r[0] == 0.9]} if B in (10, 500) else None)
        chk.evaluations += len(rows) - 1
        bad = [(a, lq, uq) for a, lq, uq in rows if not (0 <= lq <= uq <= 1)]
        if bad:
            a, lq, uq = bad[0]
            chk.violation(f"_get_quantiles({a}) with B={B} returns ({lq}, {uq}): not valid ranks 0 <= lower <= upper <= 1", {"kind": "grid", "B": B, "alpha": a}, {"kind": "ranks-invalid"})
        elif v != "true":
            chk.violation(f"quantile ranks for B={B} differ from the model on some level k/1000 (valid ranks though)", {"kind": "grid", "B": B, "correspondence": "coq/Model/Ranks.v check_ranks"},
                          {"kind": "model-diff"}, no_input=True)
    # (ii) injected draws
    kinds = ["normal", "ties", "constant", "halfint", "sparse"]
    jobs = []
    for B in ([2, 3, 10, 37] if chk.tier == "quick" else [2, 3, 4, 10, 37, 100, 500]):
        for kind in kinds:
            for _ in range(1 if chk.tier == "quick" else (6 if B < 100 else 3)):
                jobs.append((rng.randint(0, 2**31), B, kind))
    inj = core.pmap(inject_job, jobs)
    exprs, idx, big, big_idx = [], [], [], []
    for o in inj:
        seed, B, kind = o["job"]
        alphas = sorted(float(a) for a in o["unit"])
        chk.count({"B": B, "kind": kind}, nontrivial=B >= 3, sample={"B": B, "kind": kind, "pred": o["preds"][0], "draws": o["diff"][0][:6], "bounds@0.9": [o["unit"][0.9][0][0], o["unit"][0.9][1][0]]} if kind == "ties" and B == 10 else None)
        replay = {"kind": "inject", "job": o["job"]}
        for i in range(len(o["preds"])):
            prev = None
            prev_a = None
            triples = []
            for a in alphas:
                lo, hi = o["unit"][a][0][i], o["unit"][a][1][i]
                if not (lo <= hi):
                    chk.violation(f"unit bounds at level {a}, B={B} ({kind} draws): lower {lo} > upper {hi}", replay, {"kind": "unit-order"})
                if prev and not (lo <= prev[0] and prev[1] <= hi):
                    chk.violation(f"unit bounds B={B} ({kind}): level {a} [{lo},{hi}] does not contain level {prev_a} {prev}", replay, {"kind": "unit-nested"})
                prev, prev_a = (lo, hi), a
                alo, ahi = o["agg"][a][0][i], o["agg"][a][1][i]
                p = o["preds"][i]
                if not (alo < p < ahi):
                    chk.violation(f"aggregate bounds level {a}, B={B} ({kind}): not {alo} < {p} < {ahi}", replay, {"kind": "agg-straddle"})
                if whole(lo) is None or whole(hi) is None:
                    chk.violation(f"unit bound {lo}/{hi} is not a whole number", replay, {"kind": "non-whole"})
                    continue
                triples.append(f"({qlit(a)}, {zlit(int(lo))}, {zlit(int(hi))})")
            e = f"check_unit_intervals {zlit(B)} {qlit(o['preds'][i])} {llit([qlit(x) for x in o['diff'][i]])} {llit(triples)}"
            (big if B >= 100 else exprs).append(e)
            (big_idx if B >= 100 else idx).append((o, i))
    res, errs = core.coq_eval("C06", IMPORTS, exprs, shard=60, tag="inj")
    res2, errs2 = core.coq_eval("C06", IMPORTS, big, shard=4, timeout=900, tag="injbig") if big else ([], [])
    for (o, i), v in zip(idx + big_idx, list(res) + list(res2)):
        rp = {"kind": "inject", "job": o["job"], "row": i, "correspondence": "coq/Model/Ranks.v check_unit_intervals"}
        if v is None:
            chk.violation(f"correspondence case did not evaluate (draws row {i}, B={o['job'][1]}, {o['job'][2]})", dict(rp, errors=(errs + errs2)[:1]), {"kind": "coq-eval"}, no_input=True)
        elif v != "true":
            chk.violation(f"unit bounds for draws row {i} (B={o['job'][1]}, {o['job'][2]}) differ from rhe(pred - quantile_lin) at some level",
                          rp, {"kind": "model-diff"}, no_input=True)
    # (iii) API runs
    n = 12 if chk.tier == "quick" else 200
    ajobs = []
    for i in range(n):
        kw = {}
        if i % 3 == 1:
            kw["office"] = "H"
        if i % 4 == 2:
            kw["model_parameters"] = {"lambda_": [0.0, 1.0, 50.0][i % 3]}
        if i % 6 == 5 or i == 1:
            kw.update({"office": "S", "unit_type": "precinct", "surge": True, "n_unexpected": 0, "threshold": 100, "n_units": 100,
                       "aggregates": ["postal_code", "county_fips", "unit"], "special": False})
        if i % 6 == 3:
            kw.update({"office": "S", "unit_type": "county", "presidential": True, "n_unexpected": 0, "aggregates": ["postal_code", "county_fips", "unit"]})
        ajobs.append((rng.randint(0, 2**31), kw))
    api = core.pmap(api_job, ajobs)
    n_ok = 0
    cexprs, cidx = [], []
    for o in api:
        for e in o.get("clip_exprs", []):
            cexprs.append(e)
            cidx.append(o)
    cres, cerrs = core.coq_eval("C06", IMPORTS, cexprs, shard=8, tag="clip") if cexprs else ([], [])
    for o, e, v in zip(cidx, cexprs, cres):
        if o["fails"]:
            continue
        if v != "true":
            chk.violation(f"clipping bounds of the nonreporting units differ from y_bounds / z_bounds of the model ({'did not evaluate' if v is None else v}; {e[:14]})",
                          {"kind": "api", "job": o["job"], "correspondence": "coq/Model/NonrepBounds.v check_y_bounds / check_z_bounds", "errors": cerrs[:1]},
                          {"kind": "model-diff" if v is not None else "coq-eval"}, no_input=True)
    for o in api:
        chk.count(o["fp"], nontrivial=o["nontrivial"], sample={"api_seed": o["job"][0], "kw": o["job"][1], "outcome": o["exc"] or "completed"})
        n_ok += 1 if o["ok"] else 0
        for f in o["fails"]:
            tags = {"kind": f["kind"]}
            if "cls" in f:
                tags["cls"] = f["cls"]
                tags["unx_in_group"] = f.get("unx_in_group")
            chk.violation(f["what"], {"kind": "api", "job": o["job"]}, tags)
    if n_ok < max(2, n // 4):
        chk.violation(f"only {n_ok} of {n} bootstrap API runs completed", {"kind": "coverage", "excs": [o['exc'] for o in api if not o['ok']][:4]}, {"kind": "coverage"}, no_input=True)
    if not ok and not [v for v in chk.violations if not v["no_input"]]:
        chk.violation("proof obligations / generated formulas of C06 no longer check", {"theorem_file": "coq/Properties/C06.v", "log": rep.get("log_tail", "")[-1500:],
                                                                                      "translator": chk.notes.get("translator_problems")}, {"kind": "proof-broken"}, no_input=True)
    return chk.finish(RULE, extra={"grid_B_values": len(Bs), "grid_levels": 999, "injected_matrices": len(inj), "api_completed": n_ok,
                                  "clip_bound_units_compared": sum(o.get("clip_units", 0) for o in api), "clip_bound_calls": len(cexprs)})


def whole(x):
    return aggfam.whole(x)


def replay(chk, payload):
    r = payload["replay"]
    if r["kind"] == "api":
        o = api_job(tuple(r["job"]))
        o.pop("clip_exprs", None)
        print(json.dumps(o, indent=1, default=str)[:3000])
        return 1 if o.get("fails") else 0
    elif r["kind"] == "inject":
        o = inject_job(tuple(r["job"]))
        print(json.dumps({"preds": o["preds"], "unit": o["unit"]}, default=str)[:2000])
    else:
        print(r)
    return 0
