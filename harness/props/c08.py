"""C08 -- The national summary is bounded, ordered, and depends only on the contests."""
import itertools
import json
import random

from harness import aggfam, boot, core, gen
from harness.core import llit, qlit, zlit

IMPORTS = "From Coq Require Import ZArith QArith List.\nImport ListNotations.\nFrom Elex Require Import Model.Calls Model.Ranks Model.NatSum.\n"

RULE = ("(a) injected bootstrap margins for 3-9 contests (predictions on either side of zero incl. the case of a prediction whose whole bootstrap "
        "distribution lies on the other side, ties at zero, B in {2, 10, 37}), random non-negative weights and base, call / stop lists, both correlation "
        "modes, hard and soft (sigmoid, T in {25, 100, 5000}) threshold: order, range, prediction definition and called-contest neutrality checked on the returned triple; in correlation mode the triple is "
        "compared inside Coq with nat_sum; weight dictionaries of the wrong size must be rejected; (b) op histories on the real model object: every "
        "order / subset of {top-level, county-level, classification-level} aggregate computations before the summary call; (c) get_estimates with "
        "permuted / extended aggregate lists followed by get_national_summary_votes_estimates: identical summaries. distinct = (B, mode, calls, "
        "history); non-trivial = at least one uncalled contest with draws on both sides of zero")


def inj_job(job):
    import numpy as np

    from harness import run_impl

    run_impl._imp()
    from elexmodel.models.BootstrapElectionModel import BootstrapElectionModelException

    seed, B, corr, kind = job
    rng = np.random.default_rng(seed)
    r = random.Random(seed)
    C = r.randint(3, 9)
    names = [f"s{i}" for i in range(C)]
    preds = np.array([r.choice([-0.0625, -0.001953125, 0.0, 0.001953125, 0.0625, 0.25, -0.25]) for _ in range(C)])
    diff = rng.choice([-0.125, -0.03125, -0.0078125, 0.0, 0.0078125, 0.03125, 0.125], size=(C, B))
    if kind == "opposite":
        # whole distribution on the other side of zero than the point prediction (the F4 shape)
        for i in range(C):
            diff[i, :] = (-0.0078125 if preds[i] <= 0 else 0.5) if i % 2 == 0 else diff[i, :]
    extra = {"national_summary_correlation": corr}
    if kind.startswith("sigmoid"):
        # the soft threshold: a contest counts with weight expit(T * margin); T small enough for fractional counts, or the default
        extra["agg_model_hard_threshold"] = False
        extra["T"] = r.choice([25, 100]) if kind == "sigmoid-soft" else 5000
    m = boot.model(B, extra)
    rep, non, unx = boot.one_unit_per_contest(names, preds)
    boot.inject(m, diff, preds)
    lhs = [n for n in names if r.random() < 0.15]
    rhs = [n for n in names if n not in lhs and r.random() < 0.15]
    stops = [n for n in names if r.random() < 0.2]
    alpha = r.choice([0.7, 0.9, 0.99])
    m.get_aggregate_predictions(rep, non, unx, ["postal_code"], "margin", lhs_called_contests=lhs, rhs_called_contests=rhs)
    m.get_aggregate_prediction_intervals(rep, non, unx, ["postal_code"], alpha, None, "margin", lhs_called_contests=lhs, rhs_called_contests=rhs, stop_model_call=stops)
    # the caller's dictionary in arbitrary insertion order (a dict literal is rarely written alphabetically)
    order = list(names)
    r.shuffle(order)
    weights = {n: float(r.randint(0, 40)) for n in order}
    base = float(r.choice([0, 0, 3, 34]))
    out = {"job": list(job), "names": names, "preds_raw": preds.tolist(), "pred_adj": np.asarray(m.aggregate_pred_margin).flatten().tolist(),
           "d1": np.asarray(m.divided_error_B_1).tolist(), "d2": np.asarray(m.divided_error_B_2).tolist(), "lhs": lhs, "rhs": rhs, "stops": stops,
           "alpha": alpha, "weights": weights, "base": base, "B": B, "corr": corr, "q": [float(x) for x in m._get_quantiles(alpha)]}
    try:
        res = m.get_national_summary_estimates(dict(weights), base, alpha)
        out["triple"] = [float(x) for x in res["margin"]]
    except Exception as e:  # noqa: BLE001
        out["exc"] = (type(e).__name__, str(e)[:200])
    # wrong sizes
    wrong = []
    for wdict in ({k: v for k, v in list(weights.items())[:-1]}, dict(weights, extra=1.0)):
        try:
            m.get_national_summary_estimates(wdict, base, alpha)
            wrong.append("accepted")
        except BootstrapElectionModelException:
            wrong.append("rejected")
        except Exception as e:  # noqa: BLE001
            wrong.append(type(e).__name__)
    out["wrong"] = wrong
    try:
        res = m.get_national_summary_estimates(None, base, alpha)
        out["unit_weights"] = [float(x) for x in res["margin"]]
    except Exception as e:  # noqa: BLE001
        out["unit_weights_exc"] = (type(e).__name__, str(e)[:100])
    return out


def statement(o):
    fails = []
    if "exc" in o:
        return [{"what": f"national summary failed: {o['exc']}", "kind": "raises"}]
    p, lo, hi = o["triple"]
    if not (lo <= p <= hi):
        fails.append({"what": f"summary not ordered: lower {lo}, prediction {p}, upper {hi} (correlation mode {o['corr']}, {o['job'][3]})", "kind": "order"})
    if str(o["job"][3]).startswith("sigmoid"):
        # the range / prediction-definition clauses are stated for the hard threshold only
        if any(w != "rejected" for w in o["wrong"]):
            fails.append({"what": f"weight dictionary of the wrong size: {o['wrong']}", "kind": "wrong-size"})
        return fails
    tot = sum(o["weights"].values())
    if not (o["base"] - 1e-9 <= lo and hi <= o["base"] + tot + 1e-9):
        fails.append({"what": f"summary [{lo}, {hi}] leaves [base, base + total weight] = [{o['base']}, {o['base'] + tot}]", "kind": "range"})
    want = o["base"] + sum(o["weights"][n] for n, m_ in zip(o["names"], o["pred_adj"]) if m_ > 0)
    if abs(p - want) > 0.0051:
        fails.append({"what": f"prediction {p} but base + weights of contests with positive margin = {want}", "kind": "pred-def"})
    if any(w != "rejected" for w in o["wrong"]):
        fails.append({"what": f"weight dictionary of the wrong size: {o['wrong']}", "kind": "wrong-size"})
    # independent contests (no correlation): the bounds come from ONE bootstrap draw each, the draw whose national total sits at the
    # lower / upper rank; whichever of the tied draws is taken, a contest can only be lost if it is predicted won and lost in that draw
    if not o["corr"]:
        import math as _m

        names = o["names"]
        w = [o["weights"][n] for n in sorted(names)]          # the model orders the weights by contest name
        order = sorted(range(len(names)), key=lambda i: names[i])
        d1 = [o["d1"][i] for i in order]
        d2 = [o["d2"][i] for i in order]
        predm = [o["pred_adj"][i] for i in order]
        called = [(names[i] in o["lhs"] or names[i] in o["rhs"]) for i in order]
        stop = [names[i] in o["stops"] for i in order]
        B2 = 2 * o["B"]
        draws = [[d1[i][j] > 0 for i in range(len(w))] for j in range(o["B"])] + [[d2[i][j] > 0 for i in range(len(w))] for j in range(o["B"])]
        totals = [sum(wi for wi, s_ in zip(w, dr) if s_) for dr in draws]
        srt = sorted(totals)
        jl, ju = int(_m.floor(o["q"][0] * B2)), int(_m.ceil(o["q"][1] * B2))
        if 0 <= jl < B2 and 0 <= ju < B2:
            ps = [m_ > 0 for m_ in predm]
            predv = sum(wi for wi, s_ in zip(w, ps) if s_)

            def bound(dr, lower):
                tot = 0.0
                for wi, p_, s_, c_, st_ in zip(w, ps, dr, called, stop):
                    x = (p_ and not s_) if lower else (s_ and not p_)
                    if c_:
                        x = False
                    if st_ and (p_ if lower else not p_):
                        x = True
                    tot += wi if x else 0.0
                return o["base"] + (predv - tot if lower else predv + tot)

            lows = {round(bound(dr, True), 2) for dr, t in zip(draws, totals) if t == srt[jl]}
            ups = {round(bound(dr, False), 2) for dr, t in zip(draws, totals) if t == srt[ju]}
            if not any(abs(lo - x) <= 0.0051 for x in lows):
                fails.append({"what": f"independent contests: lower {lo} is not prediction minus the weights of the contests predicted won and lost in the draw at the lower rank "
                                      f"(admissible: {sorted(lows)})", "kind": "draw-bound"})
            if not any(abs(hi - x) <= 0.0051 for x in ups):
                fails.append({"what": f"independent contests: upper {hi} is not prediction plus the weights of the contests predicted lost and won in the draw at the upper rank "
                                      f"(admissible: {sorted(ups)})", "kind": "draw-bound"})
    return fails


def encode(o):
    cs = []
    for i, n in enumerate(o["names"]):
        call = "CallL" if n in o["lhs"] else ("CallR" if n in o["rhs"] else "NoCall")
        cs.append(f"{{| c_w := 0; c_pred := {qlit(o['pred_adj'][i])}; c_d1 := {llit([qlit(x) for x in o['d1'][i]])}; c_d2 := {llit([qlit(x) for x in o['d2'][i]])}; "
                  f"c_call := {call}; c_stop := {core.blit(n in o['stops'])} |}}")
    ws = llit([qlit(o["weights"][n]) for n in sorted(o["names"])])
    t = o["triple"]
    return f"check_nat_sum {qlit(o['alpha'])} {zlit(o['B'])} {ws} {llit(cs)} {qlit(o['base'])} (Some ({qlit(t[0])}, {qlit(t[1])}, {qlit(t[2])}))"


def history_job(job):
    """op histories on a real model object with two counties per state"""
    import numpy as np
    import pandas as pd

    seed, order = job
    rng = np.random.default_rng(seed)
    C = 4
    names = [f"s{i}" for i in range(C)]
    n = 2 * C
    B = 10
    non = pd.DataFrame({"postal_code": [names[i // 2] for i in range(n)], "geographic_unit_fips": [f"u{i}" for i in range(n)],
                        "county_fips": [f"c{i}" for i in range(n)], "county_classification": [["x", "y"][i % 2] for i in range(n)],
                        "baseline_weights": 1.0, "baseline_dem": 1.0, "baseline_gop": 1.0, "baseline_turnout": 2.0, "results_margin": 0.0, "results_weights": 0.0,
                        "results_normalized_margin": 0.0, "turnout_factor": 0.0, "pred_margin": 0.0, "reporting": 0, "unit_category": "expected"})
    preds = rng.choice([-0.25, 0.25, 0.0625, -0.0625], size=n)
    non["pred_margin"] = preds
    cols = list(non.columns)
    rep = boot.empty_units(cols)
    unx = boot.empty_units(cols)
    for f in (rep, unx):
        f["reporting"] = f["reporting"].astype(int)
        for c in ("county_fips", "county_classification"):
            f[c] = f[c].astype(str)
    m = boot.model(B)
    m.B = B
    m.errors_B_1 = rng.choice([-0.125, 0.0, 0.125, 0.5], size=(n, B))
    m.errors_B_2 = np.zeros((n, B))
    m.errors_B_3 = np.ones((n, B))
    m.errors_B_4 = np.ones((n, B))
    m.weighted_yz_test_pred = preds.reshape(-1, 1)
    m.weighted_z_test_pred = np.ones((n, 1))
    m.ran_bootstrap = True
    lists = {"top": ["postal_code"], "county": ["postal_code", "county_fips"], "cls": ["postal_code", "county_classification"]}
    out = {"job": [seed, list(order)]}
    try:
        for o in order:
            m.get_aggregate_predictions(rep, non, unx, lists[o], "margin")
            for a in (0.7, 0.9):
                m.get_aggregate_prediction_intervals(rep, non, unx, lists[o], a, None, "margin")
        res = m.get_national_summary_estimates({nm: float(i + 1) for i, nm in enumerate(names)}, 1.0, 0.9)
        out["triple"] = [float(x) for x in res["margin"]]
    except Exception as e:  # noqa: BLE001
        out["exc"] = (type(e).__name__, str(e)[:200])
    return out


def api_job(job):
    from harness import run_impl

    seed, aggs = job[:2]
    d_office = job[2] if len(job) > 2 else None
    rng = random.Random(seed)
    if d_office:
        return api_job_district(seed, list(aggs), d_office)
    # close contests in six states, half of the units outstanding: the summary is uncertain, so its three numbers differ per level
    case = gen.gen_case(rng, pi_method="bootstrap", office="S", n_states=6, n_units=96, tossup=True, frac_reporting=0.5, n_unexpected=0, aggregates=list(aggs), alphas=[0.9],
                        blocklist=False)
    r = run_impl.run_case(case, want_client=True)
    out = {"job": [seed, list(aggs)], "ok": r["ok"], "exc": r["exc"]}
    if not r["ok"]:
        return out
    try:
        weights = {s: float(i + 3) for i, s in enumerate(sorted(case["states"]))}
        weights = {s: weights[s] for s in sorted(weights, reverse=True)}          # written in reverse alphabetical order by the caller
        df = r["client"].get_national_summary_votes_estimates(weights, 5, [0.7, 0.9])
        out["summary"] = df.to_dict("records")
        # the table handed to the caller against the model's own answer, level by level (prediction, lower, upper)
        try:
            mdl = r["client"].model
            out["direct"] = {}
            for a in (0.7, 0.9, 0.99):
                d_ = mdl.get_national_summary_estimates(dict(weights), 5, a)
                out["direct"][str(a)] = [float(x) for x in (d_["margin"] if isinstance(d_, dict) else d_)]
            df3 = r["client"].get_national_summary_votes_estimates(weights, 5, [0.99, 0.7, 0.9])
            out["summary3"] = df3.to_dict("records")
            r["client"].get_national_summary_votes_estimates(weights, 5, [0.7, 0.9])
        except Exception as e3:  # noqa: BLE001
            out["direct_exc"] = (type(e3).__name__, str(e3)[:200])
        # a second summary call on the same client with another weighting / base: a function of the contests only
        weights2 = {s: float(2 * i + 1) for i, s in enumerate(sorted(case["states"]))}
        df2 = r["client"].get_national_summary_votes_estimates(weights2, 40, [0.9])
        out["summary2"] = df2.to_dict("records")
        # weight dictionaries of the wrong size are rejected by the client's entry point too (one entry too many / too few)
        wrong = []
        for wd in (dict(weights, ZZ=55.0), {k_: v_ for k_, v_ in list(weights.items())[1:]}):
            try:
                r["client"].get_national_summary_votes_estimates(wd, 5, [0.9])
                wrong.append("accepted")
            except Exception as e2:  # noqa: BLE001
                wrong.append("rejected" if type(e2).__name__ == "BootstrapElectionModelException" else type(e2).__name__)
        out["wrong_client"] = wrong
        st = r["tables"]["state_data"]
        out["expected2"] = 40 + sum(weights2[row["postal_code"]] for row in st.to_dict("records") if row["pred_margin"] > 0)
        out["expected1"] = 5 + sum(weights[row["postal_code"]] for row in st.to_dict("records") if row["pred_margin"] > 0)
        if case["params"]["model_parameters"].get("agg_model_hard_threshold", True) is False:
            out["expected1"] = out["expected2"] = None          # the prediction-definition clause is stated for the hard threshold
    except Exception as e:  # noqa: BLE001
        out["sum_exc"] = (type(e).__name__, str(e)[:200])
    return out


def api_job_district(seed, aggs, office):
    """a district office (districts 1, 10, 2, 3 in each state: string order differs from numeric order): the summary's prediction is the base plus the
    weights of exactly the districts the district table reports as positive, and it is ordered at every level"""
    from harness import run_impl

    rng = random.Random(seed)
    case = gen.gen_case(rng, pi_method="bootstrap", office=office, n_states=2, n_districts=4, n_units=170, tossup=True, frac_reporting=0.5, n_unexpected=0,
                        aggregates=list(aggs), alphas=[0.9], blocklist=False)
    r = run_impl.run_case(case, want_client=True)
    out = {"job": [seed, list(aggs), office], "ok": r["ok"], "exc": r["exc"]}
    if not r["ok"]:
        return out
    try:
        rows = r["tables"]["district_data"].to_dict("records")
        names = sorted(f"{x['postal_code']}_{x['district']}" for x in rows)
        weights = {n: float(2 ** i) for i, n in enumerate(names)}                 # every subset of districts has its own total
        weights = {n: weights[n] for n in sorted(weights, reverse=True)}
        df = r["client"].get_national_summary_votes_estimates(weights, 5, [0.7, 0.9])
        out["summary"] = df.to_dict("records")
        out["summary2"], out["expected2"], out["wrong_client"] = [], None, ["rejected", "rejected"]
        out["expected1"] = 5 + sum(weights[f"{x['postal_code']}_{x['district']}"] for x in rows if x["pred_margin"] > 0)
        if case["params"]["model_parameters"].get("agg_model_hard_threshold", True) is False:
            out["expected1"] = None
    except Exception as e:  # noqa: BLE001
        out["sum_exc"] = (type(e).__name__, str(e)[:200])
    return out


def api_called_job(seed):
    """through the client: every contest called for its leader -> no uncertainty left in the summary (state office and district office)"""
    from harness import run_impl

    rng = random.Random(seed)
    office = ["S", ["H", "Y", "Z"][(seed // 2) % 3]][seed % 2]          # every district office, not only the House
    dist = office in ("H", "Y", "Z")
    extra = {"n_districts": 4, "n_units": 150} if dist else {"n_units": 90}      # districts 1, 10, 2, 3: string order differs from numeric order
    case = gen.gen_case(rng, pi_method="bootstrap", office=office, n_states=2, n_unexpected=0, alphas=[0.9], blocklist=False,
                        aggregates=["postal_code", "district", "unit"] if dist else ["postal_code", "unit"], **extra)
    r0 = run_impl.run_case(case)
    out = {"seed": seed, "office": office, "ok": r0["ok"], "exc": r0["exc"]}
    if not r0["ok"]:
        return out
    tbl = r0["tables"]["district_data" if dist else "state_data"]
    name = (lambda row: f"{row['postal_code']}_{row['district']}") if dist else (lambda row: row["postal_code"])
    rows = tbl.to_dict("records")
    lhs = [name(x) for x in rows if x["pred_margin"] > 0]
    rhs = [name(x) for x in rows if x["pred_margin"] <= 0]
    case["params"].update({"lhs_called_contests": lhs, "rhs_called_contests": rhs})
    r = run_impl.run_case(case, want_client=True)
    out.update({"ok": r["ok"], "exc": r["exc"], "lhs": lhs, "rhs": rhs})
    if not r["ok"]:
        return out
    weights = {name(x): float(3 + 2 * i) for i, x in enumerate(rows)}
    try:
        df = r["client"].get_national_summary_votes_estimates(weights, 7, [0.7, 0.9])
        out["summary"] = df.to_dict("records")
        # with the soft threshold the prediction is a sum of fractional counts: only "no uncertainty left" is required there
        soft = case["params"]["model_parameters"].get("agg_model_hard_threshold", True) is False
        out["expected"] = None if soft else 7 + sum(weights[n] for n in lhs)
    except Exception as e:  # noqa: BLE001
        out["sum_exc"] = (type(e).__name__, str(e)[:200])
    return out


def run(chk):
    ok, rep = chk.proofs()
    chk.assumptions += ["bootstrap margins are oracle inputs; in the uncorrelated mode the columns picked by argsort among tied national totals are not modelled "
                        "(the theorems hold for every choice); rounding of the triple to 2 decimals is covered by a 0.006 tolerance"]
    rng = random.Random(chk.seed * 809 + 8)
    jobs = []
    for B in (2, 10, 37):
        for corr in (True, False):
            for kind in ("random", "opposite", "sigmoid-soft", "sigmoid-default"):
                for _ in range(2 if chk.tier == "quick" else 20):
                    jobs.append((rng.randint(0, 2**31), B, corr, kind))
    outs = core.pmap(inj_job, jobs)
    exprs, idx = [], []
    for o in outs:
        seed, B, corr, kind = o["job"]
        both = any(min(r) < 0 < max(r) for r in o["d1"])
        chk.count({"B": B, "corr": corr, "kind": kind, "calls": bool(o["lhs"] or o["rhs"]), "stops": bool(o["stops"])}, nontrivial=both,
                  sample={"B": B, "correlation": corr, "weights": o["weights"], "base": o["base"], "calls": [o["lhs"], o["rhs"]], "stops": o["stops"], "summary": o.get("triple")})
        replay = {"kind": "inject", "job": o["job"]}
        fs = statement(o)
        for f in fs:
            chk.violation(f["what"], replay, {"kind": f["kind"], "corr": corr})
        if corr and "triple" in o and not fs and not str(kind).startswith("sigmoid"):
            exprs.append(encode(o))
            idx.append(o)
    res, errs = core.coq_eval("C08", IMPORTS, exprs, shard=20)
    for o, v in zip(idx, res):
        if v != "true":
            chk.violation(f"summary {o['triple']} differs from nat_sum on injected draws (B={o['B']}) although the statement holds",
                          {"kind": "inject", "job": o["job"], "correspondence": "coq/Model/NatSum.v check_nat_sum"}, {"kind": "model-diff"}, no_input=True)
    # (b) op histories
    ops = ["top", "county", "cls"]
    hist = []
    for r_ in range(1, 4):
        for perm in itertools.permutations(ops, r_):
            if "top" in perm:
                hist.append(perm)
    hist += [("top", "county", "top"), ("county", "top", "county", "cls")]
    hseed = rng.randint(0, 2**31)
    houts = core.pmap(history_job, [(hseed, h) for h in hist])
    ref = None
    for o in houts:
        chk.count({"history": o["job"][1]}, nontrivial=len(o["job"][1]) > 1, sample={"history": o["job"][1], "summary": o.get("triple") or o.get("exc")})
        replay = {"kind": "history", "job": o["job"]}
        if "exc" in o:
            chk.violation(f"national summary after aggregate computations {o['job'][1]} fails: {o['exc']}", replay, {"kind": "history-fails"})
            continue
        if ref is None:
            ref = o["triple"]
        elif o["triple"] != ref:
            chk.violation(f"national summary after {o['job'][1]} is {o['triple']}, after ('top',) it is {ref}", replay, {"kind": "history-differs"})
    # (c) API histories
    agg_sets = [["postal_code", "unit"], ["unit", "postal_code"], ["postal_code", "county_fips", "unit"], ["county_fips", "postal_code"],
                ["postal_code", "county_classification", "county_fips", "unit"], ["county_classification", "unit", "county_fips", "postal_code"]]
    aseed = rng.randint(0, 2**31)
    aouts = core.pmap(api_job, [(aseed, a) for a in agg_sets])
    douts = core.pmap(api_job, [(rng.randint(0, 2**31), ["postal_code", "district", "unit"], off) for off in ("H", "Y", "Z")])
    ref = None
    for o in aouts + douts:
        if len(o["job"]) > 2:
            ref = None          # district-office runs are elections of their own: no comparison across them
        chk.count({"api_aggs": o["job"][1]}, nontrivial=True, sample={"aggregates": o["job"][1], "summary": o.get("summary") or o.get("sum_exc") or o.get("exc")})
        replay = {"kind": "api", "job": o["job"]}
        if not o["ok"]:
            if o["exc"][0] != "ModelNotEnoughSubunitsException":
                chk.violation(f"estimate run with aggregates {o['job'][1]} failed: {o['exc']}", replay, {"kind": "api-failed"}, no_input=True)
            continue
        if "sum_exc" in o:
            chk.violation(f"national summary after get_estimates(aggregates={o['job'][1]}) fails: {o['sum_exc']}", replay, {"kind": "history-fails"})
            continue
        if any(w != "rejected" for w in o.get("wrong_client", [])):
            chk.violation(f"weight dictionaries with one entry too many / too few given to the client: {o['wrong_client']} (both must be rejected)", replay, {"kind": "wrong-size"})
        if ref is None:
            ref = o["summary"]
        elif o["summary"] != ref:
            chk.violation(f"national summary depends on the requested aggregates: {o['job'][1]} gives {o['summary']}, {agg_sets[0]} gives {ref}", replay, {"kind": "history-differs"})
        if "direct_exc" in o:
            chk.violation(f"national summary at three levels through the client fails: {o['direct_exc']}", replay, {"kind": "history-fails"})
        for row in o.get("summary3", []):
            for a, (pred_d, lo_d, hi_d) in o.get("direct", {}).items():
                got3 = (row.get("agg_pred"), row.get(f"lower_{a}"), row.get(f"upper_{a}"))
                if not all(isinstance(v, (int, float)) and abs(v - w) <= 1e-9 for v, w in zip(got3, (pred_d, lo_d, hi_d))):
                    chk.violation(f"national summary table for levels [0.99, 0.7, 0.9]: (agg_pred, lower_{a}, upper_{a}) = {got3} but the model's summary at level {a} is "
                                  f"{(pred_d, lo_d, hi_d)}", replay, {"kind": "table-vs-model"})
                    break
        for tag, rows, exp, alphas_ in (("first", o["summary"], o.get("expected1"), (0.7, 0.9)), ("second", o.get("summary2", []), o.get("expected2"), (0.9,)),
                                        ("three-level", o.get("summary3", []), o.get("expected1"), (0.99, 0.7, 0.9))):
            for row in rows:
                if exp is not None and abs(row["agg_pred"] - exp) > 0.0051:
                    chk.violation(f"{tag} national summary call: prediction {row['agg_pred']} but base + weights of the contests with positive margin = {exp}", replay,
                                  {"kind": "pred-def", "call": tag})
                for a in alphas_:
                    if not (row[f"lower_{a}"] <= row["agg_pred"] <= row[f"upper_{a}"]):
                        chk.violation(f"{tag} national summary call not ordered at level {a}: {row}", replay, {"kind": "order", "call": tag})
        for row in []:
            for a in (0.7, 0.9):
                if not (row[f"lower_{a}"] <= row["agg_pred"] <= row[f"upper_{a}"]):
                    chk.violation(f"API national summary not ordered at level {a}: {row}", replay, {"kind": "order"})
    # (d) every contest called, through the client
    for o in core.pmap(api_called_job, [rng.randint(0, 2**30) * 2 + k % 2 for k in range(4 if chk.tier == "quick" else 24)]):
        chk.count({"api_all_called": o["office"], "ok": o["ok"]}, nontrivial=bool(o["ok"]), sample={"stream": "all contests called", "office": o["office"], "summary": o.get("summary") or o.get("sum_exc") or o.get("exc")})
        replay_c = {"kind": "api-called", "seed": o["seed"]}
        if not o["ok"]:
            if o["exc"] and o["exc"][0] != "ModelNotEnoughSubunitsException":
                chk.violation(f"run with every contest called failed: {o['exc']}", replay_c, {"kind": "raises"})
            continue
        if "sum_exc" in o:
            chk.violation(f"national summary with every contest called failed ({o['office']} office): {o['sum_exc']}", replay_c, {"kind": "raises"})
            continue
        for row in o["summary"]:
            vals = [v for k_, v in row.items() if isinstance(v, (int, float)) and not isinstance(v, bool)]
            target = o["expected"] if o["expected"] is not None else row["agg_pred"]
            if any(abs(v - target) > 0.0051 for v in vals):
                chk.violation(f"{o['office']} office, every contest called for its leader (left: {o['lhs']}): summary {row} but prediction and both bounds should all be {target}",
                              replay_c, {"kind": "called"})
                break
    if not ok and not [v for v in chk.violations if not v["no_input"]]:
        chk.violation("proof obligations of C08 no longer check", {"theorem_file": "coq/Properties/C08.v", "log": rep.get("log_tail", "")[-1500:]}, {"kind": "proof-broken"}, no_input=True)
    return chk.finish(RULE, extra={"injected": len(outs), "histories": len(houts), "api_histories": len(aouts)})


def replay(chk, payload):
    r = payload["replay"]
    if r.get("kind") == "api-called":
        o = api_called_job(r["seed"])
        print(json.dumps(o, indent=1, default=str))
        return 0
    if r["kind"] == "inject":
        o = inj_job(tuple(r["job"]))
        print(json.dumps({k: o.get(k) for k in ("triple", "exc", "wrong", "weights", "base", "pred_adj", "lhs", "rhs", "stops")}, indent=1, default=str))
    elif r["kind"] == "history":
        print(json.dumps(history_job((r["job"][0], tuple(r["job"][1]))), indent=1, default=str))
    else:
        print(json.dumps(api_job((r["job"][0], r["job"][1])), indent=1, default=str))
    return 0
