"""C03 -- Counted votes are a floor and reported units are final."""
import json
import math
import random

from harness import aggfam, core, gen
from harness.core import llit, qlit, slit, zlit

RULE = ("synthetic elections as for C01, outlier models off so that the solver call sequence is known; two streams: (a) real solver, raw median "
        "predictions captured at QuantileRegressionSolver.predict, (b) stub solver whose predictions are adversarial dyadic values (below the partial "
        "count, negative, exact .5 ties). Inside Coq: the unit kernel max/round against the captured raw value, the floors on every unit and "
        "aggregate row, zero-width rows, and for the gaussian estimator the vote-space step of the aggregate bounds given the captured (lb, ub). "
        "distinct = structural fingerprint + stream; non-trivial = completed run with >=1 nonreporting unit whose partial count is > 0")

IMPORTS = aggfam.IMPORTS.replace("Model.AggCheck.", "Model.AggCheck Model.Floor Model.Compare.")
DYADIC = [-2.0, -1.5, -1.0, -0.75, -0.5, -0.25, 0.0, 0.125, 0.5, 1.5, -0.99609375, 0.00390625]
BASECOL = {"dem": "baseline_dem", "gop": "baseline_gop", "turnout": "baseline_turnout"}


def make_stub(seed):
    def stub(i, x, r):
        import numpy as np

        rr = random.Random(seed * 1000003 + i)
        out = np.array([rr.choice(DYADIC) for _ in range(np.asarray(r).size)], dtype=float).reshape(np.asarray(r).shape)
        return out

    return stub


def s_oracle(case, h):
    fails = []
    p = case["params"]
    pi = p["pi_method"]
    for e in p["estimands"]:
        for r in h["unit"][e]:
            cols = [f"pred_{e}"] + [c for a in p["prediction_intervals"] for c in (f"lower_{a}_{e}", f"upper_{a}_{e}")]
            res = r[f"results_{e}"]
            final = r["unit_category"] != "expected" or int(r["reporting"]) == 1
            for c in cols:
                v = r[c]
                if pi != "bootstrap" and aggfam.whole(v) is None:
                    fails.append({"what": f"unit {r['geographic_unit_fips']} {c}={v} is not a finite whole number", "kind": "non-whole"})
                    break
                if pi != "bootstrap" and v < res:
                    fails.append({"what": f"unit {r['geographic_unit_fips']} {c}={v} is below its counted votes {res}", "kind": "unit-floor"})
                    break
                if final and v != res:
                    fails.append({"what": f"unit {r['geographic_unit_fips']} ({r['unit_category']}, reporting={r['reporting']}) {c}={v} differs from its counted votes {res}",
                                  "kind": "unit-final"})
                    break
        if pi == "bootstrap":
            continue
        nonrep_keys = {}
        keys_of = aggfam.unit_keys_py(case)
        for agg in [a for a in p["aggregates"] if a != "unit"]:
            cols_k = aggfam.aggregate_list(case["office"], agg)
            has_non = set()
            for r in h["unit"][e]:
                if r["unit_category"] == "expected" and int(r["reporting"]) == 0:
                    k = keys_of(r["geographic_unit_fips"], r["postal_code"])
                    has_non.add(tuple(k[c] for c in cols_k))
            for rec in h["agg"][f"{e}|{agg}"]["rows"]:
                res = rec[f"results_{e}"]
                cols = [f"pred_{e}"] + [c for a in p["prediction_intervals"] for c in (f"lower_{a}_{e}", f"upper_{a}_{e}")]
                key = tuple(rec[c] for c in cols_k)
                for c in cols:
                    v = rec[c]
                    if aggfam.whole(v) is None:
                        fails.append({"what": f"{agg} group {key} {c}={v} is not a finite whole number", "kind": "non-whole"})
                        break
                    if v < res:
                        fails.append({"what": f"{agg} group {key} {c}={v} is below its counted votes {res}", "kind": "agg-floor"})
                        break
                    if key not in has_non and v != res:
                        fails.append({"what": f"{agg} group {key} has no nonreporting unit but {c}={v} != counted votes {res}", "kind": "agg-zero-width"})
                        break
    return fails


def worker(job):
    from harness import run_impl

    seed, kw, stream = job
    rng = random.Random(seed)
    case = gen.gen_case(rng, **kw)
    p = case["params"]
    pi = p["pi_method"]
    run_impl._imp()
    gauss_caps = []
    restore = None
    if pi == "gaussian":
        from elexmodel.models.GaussianElectionModel import GaussianElectionModel as G

        orig = G.get_aggregate_prediction_intervals

        def wrapped(slf, ru, nu, uu, aggregate, alpha, upi, estimand, **k):
            out = orig(slf, ru, nu, uu, aggregate, alpha, upi, estimand, **k)
            mb = slf.modeled_bounds_agg if nu.shape[0] > 0 else None
            gauss_caps.append({"aggregate": list(aggregate), "alpha": alpha, "estimand": estimand,
                               "mb": None if mb is None else mb.to_dict("records")})
            return out

        G.get_aggregate_prediction_intervals = wrapped
        restore = (G, orig)
    try:
        with run_impl.SolverCapture(stub=make_stub(seed) if stream == "stub" else None) as cap:
            h = aggfam.harvest(case)
    finally:
        if restore:
            restore[0].get_aggregate_prediction_intervals = restore[1]
    fp = aggfam.fingerprint(case, h)
    fp["stream"] = stream
    res = {"seed": seed, "kw": kw, "stream": stream, "fp": fp, "nontrivial": False, "ok": h["ok"], "exc": h.get("exc"),
           "exprs": [], "labels": [], "problems": [], "s": [], "imports": IMPORTS, "regen": False}
    if not h["ok"]:
        return res
    res["s"] = s_oracle(case, h)
    alphas = p["prediction_intervals"]
    base = {b["geographic_unit_fips"]: b for b in case["baseline"]}
    preds = [r for r in cap.records if r["op"] == "predict"]
    for k, e in enumerate(p["estimands"]):
        recs = h["unit"][e]
        probs = []
        checks, labels = [], []
        byid = {r["geographic_unit_fips"]: r for r in recs}
        nonrep = [r for r in recs if r["unit_category"] == "expected" and int(r["reporting"]) == 0]
        if any(r[f"results_{e}"] > 0 for r in nonrep):
            res["nontrivial"] = True
        if pi in ("nonparametric", "gaussian"):
            # unit kernel against captured raw median predictions
            idx = k * (1 + 4 * len(alphas))
            if idx < len(preds) and h.get("nonrep_ids") is not None and len(h["nonrep_ids"]) == preds[idx]["n"]:
                raw = preds[idx]["out"].flatten()
                items = []
                for uid, rv in zip(h["nonrep_ids"], raw):
                    b = base[uid]
                    last = b[BASECOL[e]] + 1
                    r = byid[uid]
                    w = aggfam.whole(r[f"pred_{e}"])
                    if w is None or rv != rv or math.isinf(rv):
                        probs.append({"unit": uid, "pred": str(r[f"pred_{e}"]), "raw": str(rv)})
                        continue
                    items.append(f"check_unit_value {qlit(float(rv))} {zlit(last)} {zlit(aggfam.whole(r[f'results_{e}']))} {zlit(w)}")
                checks.append(f"all_true {llit(items)}")
                labels.append(f"{e}|unit-kernel({len(items)})")
            else:
                res["s"].append({"what": f"solver call sequence changed: cannot locate the median prediction of {e}", "kind": "capture-shape", "soft": True})
            # floors on rows, in Gallina
            rows_t = []
            for agg in [a for a in p["aggregates"] if a != "unit"]:
                cols = aggfam.aggregate_list(case["office"], agg)
                t = aggfam.encode_table(h["agg"][f"{e}|{agg}"], cols, e, alphas, probs)
                if t is not None:
                    checks.append(f"forallb floors_ok {t}")
                    labels.append(f"{e}|{agg}|floors")
            # gaussian vote-space step
            if pi == "gaussian":
                from scipy import stats

                urows = aggfam.encode_rows(case, recs, e, [], probs, core_only=True)
                last_of = {r["geographic_unit_fips"]: (base[r["geographic_unit_fips"]][BASECOL[e]] + 1 if r["geographic_unit_fips"] in base else 0) for r in recs}
                lastmap = llit([f"({slit(u)}, {zlit(v)})" for u, v in last_of.items()])
                agg_order = [a for a in p["aggregates"] if a != "unit"]
                for j, capd in enumerate([c for c in gauss_caps if c["estimand"] == e]):
                    aggcols = capd["aggregate"]
                    agg = agg_order[j // len(alphas)]
                    if aggfam.aggregate_list(case["office"], agg) != aggcols:
                        res["s"].append({"what": "gaussian aggregate call sequence changed", "kind": "capture-shape", "soft": True})
                        continue
                    i = alphas.index(capd["alpha"])
                    q = (3 + capd["alpha"]) / 4
                    bl = []
                    if capd["mb"] is not None:
                        for m in capd["mb"]:
                            ws, wss = m["nonreporting_weight_sum"], m["nonreporting_weight_ssum"]
                            sd_l = m["sigma_lower_bound"] * math.sqrt(wss + m["var_inflate"] * ws**2)
                            sd_u = m["sigma_upper_bound"] * math.sqrt(wss + m["var_inflate"] * ws**2)
                            lb = m["nonreporting_aggregate_lower_bound"] - stats.norm.ppf(q=q, loc=ws * m["mu_lower_bound"], scale=sd_l)
                            ub = m["nonreporting_aggregate_upper_bound"] + stats.norm.ppf(q=q, loc=ws * m["mu_upper_bound"], scale=sd_u)
                            try:
                                bl.append(f"({llit([slit(m[c]) for c in aggcols])}, ({qlit(float(lb))}, {qlit(float(ub))}))")
                            except ValueError:
                                probs.append({"group": [m[c] for c in aggcols], "lb": str(lb), "ub": str(ub)})
                    t = aggfam.encode_table(h["agg"][f"{e}|{agg}"], aggcols, e, alphas, probs)
                    if t is not None:
                        checks.append(f"check_gauss_intervals {aggfam.aggr_lit(aggcols)} (fun r => match find (fun p => String.eqb (fst p) (uid r)) lastmap with Some p => snd p | None => 0 end) "
                                      f"{llit(bl)} rows {int(i)}%nat {t}")
                        labels.append(f"{e}|{agg}|gauss-votespace@{capd['alpha']}")
                res["exprs"].append(f"let rows := {llit(urows)} in let lastmap := {lastmap} in {llit(checks)}")
            else:
                res["exprs"].append(llit(checks))
            res["labels"].append(labels)
        res["problems"] += probs
    res["sample"] = {"seed": seed, "stream": stream, "estimator": pi, "office": case["office"], "aggregates": p["aggregates"], "estimands": p["estimands"],
                     "levels": alphas, "units": len(case["baseline"]), "solver_predict_calls": len(preds)}
    return res


def jobs_for(chk):
    n = 36 if chk.tier == "quick" else 700
    rng = random.Random(chk.seed * 15485863 + 3)
    jobs = []
    for i in range(n):
        pi = ["nonparametric", "gaussian", "nonparametric", "gaussian", "bootstrap"][i % 5]
        stream = "stub" if (i // 5) % 2 == 1 and pi != "bootstrap" else "real"
        jobs.append((rng.randint(0, 2**31), {"pi_method": pi, "outlier": False}, stream))
    # large gaussian elections: some groups hold >= 10 calibration units (own model), others fall back to the coarser model, so the
    # matched-model frame is not in key order; with the stub solver the counted-vote floor binds in every group
    for i in range(3 if chk.tier == "quick" else 24):
        jobs.append((rng.randint(0, 2**31), {"pi_method": "gaussian", "outlier": False, "n_units": 260, "n_states": 1 + i % 2, "frac_reporting": 0.7,
                                             "aggregates": ["postal_code", "county_classification", "county_fips", "unit"], "estimands": ["dem"], "alphas": [0.7, 0.9]},
                     "stub" if i % 3 != 2 else "real"))
    # fully reporting: zero-width everywhere
    for pi in ("nonparametric", "gaussian"):
        jobs.append((rng.randint(0, 2**31), {"pi_method": pi, "outlier": False, "frac_reporting": 1.0, "special": False}, "real"))
    return jobs


def classify(f, case):
    return {"kind": f.get("kind")}


def run(chk):
    return aggfam.run_family(chk, worker, jobs_for(chk), RULE, classify,
                             extra_assumptions=["raw solver predictions are oracle inputs (captured, or replaced by adversarial dyadic values)",
                                                "gaussian (lb, ub) per group are recomputed by the harness from the captured modeled_bounds frame with the repository's formula (C15 decides that formula)",
                                                "a rounded value whose exact pre-rounding value is within 1e-6 of a tie may be either neighbour"])


def replay(chk, payload):
    r = payload["replay"]
    o = worker((r["seed"], r["kw"], r.get("stream", "real")))
    print(json.dumps({"ok": o["ok"], "exc": o["exc"], "s": o["s"], "problems": o["problems"]}, indent=1, default=str))
    return 1 if (o["s"] or o["problems"]) else 0
