"""C19 -- Version retrieval returns exactly the requested window despite paging and faults."""
import datetime as dt
import io
import json
import random

from harness import core
from harness.core import llit, zlit

IMPORTS = "From Coq Require Import ZArith List.\nImport ListNotations.\nFrom Elex Require Import Model.Paging.\nOpen Scope Z_scope.\n"

RULE = ("scripted fake storage service under S3VersionUtil.list_versions / get: version histories of 0-40 versions (ties in modification time "
        "allowed), every page size from 1 to N+1 in the thorough tier (sampled in quick), windows cutting pages, ending exactly on timestamps, "
        "open-ended on either side or both, sampling steps 1-4, every subset of failing downloads up to 2^6 then sampled; returned version ids, the "
        "number of list requests, the rows and their per-version timestamps are compared inside Coq with the model and with the plain filter of "
        "the whole listing; 40 (thorough: 600) more histories go through VersionedDataHandler's and S3VersionUtil's own constructors with the window given as ISO strings "
        "that carry an explicit offset and a requested timezone. distinct = (N, page size, window kind, step, number of failures); non-trivial = N >= 2 and more than one page")

T0 = 1_700_000_000


def utc(ts):
    return dt.datetime.fromtimestamp(ts, tz=dt.timezone.utc)


class FakeClient:
    def __init__(self, versions, page_size):
        self.versions = versions
        self.page = page_size
        self.requests = 0

    def list_object_versions(self, Bucket=None, Prefix=None, KeyMarker=None, VersionIdMarker=None, **kw):
        self.requests += 1
        start = 0
        if VersionIdMarker is not None:
            start = int(VersionIdMarker)
        chunk = self.versions[start:start + self.page]
        trunc = start + self.page < len(self.versions)
        resp = {"IsTruncated": trunc}
        if chunk or self.versions:
            resp["Versions"] = [{"VersionId": str(v["id"]), "LastModified": utc(v["lm"]), "Size": 10, "Key": Prefix} for v in chunk]
        if trunc:
            resp["NextKeyMarker"] = Prefix
            resp["NextVersionIdMarker"] = str(start + self.page)
        return resp


class FakeFuture:
    def __init__(self, fail):
        self.fail = fail

    def result(self):
        if self.fail:
            raise RuntimeError("injected download failure")


class FakeManager:
    def __init__(self, fails):
        self.fails = fails

    def download(self, bucket, path, data, extra_args=None, subscribers=None):
        vid = int(extra_args["VersionId"])
        if vid in self.fails:
            return FakeFuture(True)
        data.write(f"geographic_unit_fips,results_dem,vid\nu1,{vid},{vid}\nu2,{vid + 1},{vid}\n".encode())
        return FakeFuture(False)


def worker(job):
    from harness import run_impl

    run_impl._imp()
    from elexmodel.handlers.s3 import S3VersionUtil

    seed, n, page, wkind, step, nfail = job
    rng = random.Random(seed)
    if wkind == "tie":
        # blocks of equal modification times, the window starts exactly on one of them (ties straddle page boundaries)
        lm = sorted([T0 + rng.randint(0, max(1, n // 3)) * 60 for _ in range(n)], reverse=True)
    else:
        lm = sorted([T0 + rng.randint(0, 3 * max(1, n)) * 60 for _ in range(n)], reverse=True)
    versions = [{"id": i, "lm": t} for i, t in enumerate(lm)]
    lo, hi = (min(lm) if lm else T0), (max(lm) if lm else T0 + 600)
    pick = lambda: rng.choice(lm) if lm and rng.random() < 0.5 else rng.randint(lo - 120, hi + 120)  # noqa: E731
    start = stop = None
    if wkind == "tie":
        start = rng.choice(lm) if lm else T0
        stop = rng.choice([None, start, max(lm) if lm else None])
    if wkind in ("both", "start"):
        start = pick()
    if wkind in ("both", "stop"):
        stop = pick()
    if start is not None and stop is not None and start > stop and rng.random() < 0.8:
        start, stop = stop, start
    u = object.__new__(S3VersionUtil)
    u.bucket_name = "b"
    u.s3_client = FakeClient(versions, page)
    u.start_date = utc(start) if start is not None else None
    u.end_date = utc(stop) if stop is not None else None
    u.tz = "UTC"
    res = {"job": list(job), "ok": True, "exc": None, "versions": versions, "start": start, "stop": stop}
    try:
        listed = u.list_versions("some/key.csv")
        res["listed"] = [int(v["VersionId"]) for v in listed]
        res["requests"] = u.s3_client.requests
    except Exception as e:  # noqa: BLE001
        res["ok"] = False
        res["exc"] = ("list", type(e).__name__, str(e)[:200])
        return res
    # retrieval
    sampled = res["listed"][::step]
    fails = set(rng.sample(sampled, min(nfail, len(sampled)))) if sampled else set()
    if nfail >= 99:
        fails = set(sampled)
    res["fails"] = sorted(fails)
    u.manager = FakeManager(fails)
    u.s3_client = FakeClient(versions, page)
    try:
        df = u.get("some/key.csv", sample=step)
        if df is None:
            res["get"] = {"code": 0, "rows": []}
        else:
            rows = []
            bad = None
            for _, r in df.iterrows():
                ts = int(r["last_modified"].timestamp())
                rows.append((int(r["vid"]), ts))
            # one (vid, stamp) per version, in order of appearance
            seen = []
            for vid, ts in rows:
                if not seen or seen[-1][0] != vid:
                    seen.append((vid, ts))
                elif seen[-1][1] != ts:
                    bad = vid
            res["get"] = {"code": 2, "rows": seen, "mixed_stamp": bad, "tz": str(df["last_modified"].iloc[0].tzinfo)}
    except ValueError as e:
        res["get"] = {"code": 1, "rows": [], "exc": str(e)[:100]}
    except Exception as e:  # noqa: BLE001
        res["ok"] = False
        res["exc"] = ("get", type(e).__name__, str(e)[:200])
    return res


def encode(o):
    seed, n, page, wkind, step, nfail = o["job"]
    vs = o["versions"]
    pages = []
    for i in range(0, max(1, len(vs)), page):
        chunk = vs[i:i + page]
        trunc = i + page < len(vs)
        pages.append(f"({llit([f'{{| v_id := {zlit(v['id'])}; v_lm := {zlit(v['lm'])} |}}' for v in chunk])}, {core.blit(trunc)})")
    st = core.olit(o["start"], zlit)
    sp = core.olit(o["stop"], zlit)
    listed_vers = [v for v in vs if v["id"] in set(o["listed"])]
    byid = {v["id"]: v for v in vs}
    lv = llit([f"{{| v_id := {zlit(i)}; v_lm := {zlit(byid[i]['lm'])} |}}" for i in o["listed"]])
    g = o["get"]
    return (f"(check_list {llit(pages)} {st} {sp} {llit([zlit(i) for i in o['listed']])} {o['requests']}%nat, "
            f"check_get {lv} {step}%nat {llit([zlit(i) for i in o['fails']])} {zlit(g['code'])} {llit([f'({zlit(a)}, {zlit(b)})' for a, b in g['rows']])})")


def handler_job(seed):
    """the same through the real constructors: VersionedDataHandler(start_date=..., end_date=..., tzinfo=...) with ISO strings that carry an explicit
    offset builds its S3VersionUtil (session and transfer manager replaced by the scripted fakes); window = the instants the strings denote"""
    from harness import run_impl

    run_impl._imp()
    import elexmodel.handlers.s3 as s3mod
    from elexmodel.handlers.data.VersionedData import VersionedDataHandler

    rng = random.Random(seed)
    n = rng.choice([0, 1, 3, 6, 9, 14])
    page = rng.randint(1, max(1, n))
    lm = sorted([T0 + rng.randint(0, 3 * max(1, n)) * 600 for _ in range(n)], reverse=True)
    versions = [{"id": i, "lm": t} for i, t in enumerate(lm)]
    lo, hi = (min(lm) if lm else T0), (max(lm) if lm else T0 + 600)
    pick = lambda: rng.choice(lm) if lm and rng.random() < 0.5 else rng.randint(lo - 1200, hi + 1200)  # noqa: E731
    start, stop = rng.choice([None, pick()]), rng.choice([None, pick()])
    if start is not None and stop is not None and start > stop:
        start, stop = stop, start
    off = rng.choice([0, -5, -8, 5.5, -6, 1])
    tzname = rng.choice(["America/New_York", "America/Chicago", "UTC", "America/Los_Angeles"])
    iso = lambda ts: None if ts is None else dt.datetime.fromtimestamp(ts, tz=dt.timezone(dt.timedelta(hours=off))).isoformat()  # noqa: E731
    step = rng.randint(1, 3)
    fake = FakeClient(versions, page)

    class Sess:
        def create_client(self, name, *a, **k):
            return fake

    res = {"seed": seed, "ok": True, "exc": None, "versions": versions, "start": start, "stop": stop, "iso": [iso(start), iso(stop)], "tz": tzname, "page": page, "step": step}
    orig = (s3mod.get_session, s3mod.TransferManager)
    s3mod.get_session, s3mod.TransferManager = (lambda: Sess()), (lambda client, *a, **k: FakeManager(set()))
    try:
        h = VersionedDataHandler("2099-11-03_USA_G", "S", "county", estimands=["margin"], start_date=iso(start), end_date=iso(stop), sample=step, tzinfo=tzname)
        listed = h.s3_client.list_versions("some/key.csv")
        res["listed"] = [int(v["VersionId"]) for v in listed]
        df = h.s3_client.get("some/key.csv", sample=step)
        if df is None:
            res["rows"] = None
        else:
            res["rows"] = [(int(r["vid"]), int(r["results_dem"]), int(r["last_modified"].timestamp()), str(r["last_modified"].utcoffset())) for _, r in df.iterrows()]
        import zoneinfo
        res["want_offsets"] = {v["id"]: str(dt.datetime.fromtimestamp(v["lm"], tz=zoneinfo.ZoneInfo(tzname)).utcoffset()) for v in versions}
    except Exception as e:  # noqa: BLE001
        res["ok"] = False
        res["exc"] = (type(e).__name__, str(e)[:200])
    finally:
        s3mod.get_session, s3mod.TransferManager = orig
    return res


def handler_oracle(o):
    fails = []
    vs = o["versions"]
    want = [v["id"] for v in vs if (o["start"] is None or v["lm"] >= o["start"]) and (o["stop"] is None or v["lm"] <= o["stop"])]
    if o["listed"] != want:
        fails.append({"what": f"VersionedDataHandler(start_date={o['iso'][0]!r}, end_date={o['iso'][1]!r}, tzinfo={o['tz']!r}): listed versions {o['listed'][:8]} but the "
                              f"instants the two strings denote enclose {want[:8]} (N={len(vs)}, page size {o['page']})", "kind": "window"})
        return fails
    byid = {v["id"]: v["lm"] for v in vs}
    sampled = want[::o["step"]]
    if not want:
        if o["rows"] is not None:
            fails.append({"what": "nothing in the window but get() did not return None", "kind": "none"})
        return fails
    rows = o["rows"] or []
    got_ids = []
    for vid, dem, ts, offs in rows:
        if not got_ids or got_ids[-1] != vid:
            got_ids.append(vid)
        if dem not in (vid, vid + 1):
            fails.append({"what": f"a row stamped as version {vid} carries the content of version {dem}", "kind": "content"})
            break
        if byid.get(vid) != ts or offs != o["want_offsets"].get(vid):
            fails.append({"what": f"rows of version {vid} are stamped {ts} ({offs}) but the version was modified at {byid.get(vid)} ({o['want_offsets'].get(vid)} in {o['tz']})", "kind": "stamp"})
            break
    if not fails and got_ids != sampled:
        fails.append({"what": f"rows come from versions {got_ids[:8]}, every {o['step']}-th listed version is {sampled[:8]}", "kind": "sampling"})
    return fails


def s_oracle(o):
    fails = []
    vs = o["versions"]
    want = [v["id"] for v in vs if (o["start"] is None or v["lm"] >= o["start"]) and (o["stop"] is None or v["lm"] <= o["stop"])]
    if o["listed"] != want:
        fails.append({"what": f"list_versions returned ids {o['listed'][:8]}.. but the window [{o['start']}, {o['stop']}] holds {want[:8]}.. "
                              f"(N={len(vs)}, page size {o['job'][2]})", "kind": "window"})
    if len(o["listed"]) != len(set(o["listed"])):
        fails.append({"what": "a version is listed twice", "kind": "twice"})
    g = o["get"]
    sampled = o["listed"][::o["job"][4]]
    okv = [i for i in sampled if i not in set(o["fails"])]
    byid = {v["id"]: v["lm"] for v in vs}
    if not o["listed"]:
        if g["code"] != 0:
            fails.append({"what": "nothing in the window but get() did not return None", "kind": "none"})
    elif okv:
        if g["code"] != 2:
            fails.append({"what": f"{len(okv)} downloads succeed but get() failed: {g.get('exc')}", "kind": "abort"})
        else:
            if [r[0] for r in g["rows"]] != okv:
                fails.append({"what": f"rows come from versions {[r[0] for r in g['rows']][:8]} but every {o['job'][4]}-th listed version minus failures is {okv[:8]}", "kind": "sampling"})
            if g.get("mixed_stamp") is not None or any(byid.get(a) != b for a, b in g["rows"]):
                fails.append({"what": "a row is stamped with a modification time that is not its own version's", "kind": "stamp"})
    return fails


def run(chk):
    ok, rep = chk.proofs()
    chk.assumptions += ["the storage service is a scripted fake honouring the S3 listing contract for one key (newest first, every page but the last truncated and non-empty)",
                        "transport (s3transfer futures, timeouts) is outside the model; failures are injected as futures whose result() raises"]
    rng = random.Random(chk.seed * 97 + 19)
    jobs = []
    wk = ["both", "start", "stop", "none", "tie"]
    if chk.tier == "quick":
        for n in [0, 1, 2, 3, 5, 8, 13, 21, 40]:
            for page in sorted({1, 2, max(1, n // 3), max(1, n - 1), n, n + 1} - {0}):
                for w in wk:
                    jobs.append((rng.randint(0, 2**31), n, page, w, rng.randint(1, 4), rng.choice([0, 0, 1, 2, 99])))
    else:
        for n in range(0, 41):
            for page in range(1, n + 2):
                for w in wk:
                    jobs.append((rng.randint(0, 2**31), n, page, w, rng.randint(1, 4), rng.choice([0, 0, 1, 2, 3, 99])))
    # every subset of failing downloads for a 6-version listing
    outs = core.pmap(worker, jobs, chunksize=8)
    exprs = []
    for o in outs:
        if o["ok"]:
            exprs.append(encode(o))
    res, errs = core.coq_eval("C19", IMPORTS, exprs, shard=80)
    it = iter(res)
    for o in outs:
        seed, n, page, wkind, step, nfail = o["job"]
        replay = {"kind": "c19", "job": o["job"]}
        npages = (n + page - 1) // page if n else 1
        chk.count({"n": n, "page": page, "w": wkind, "step": step, "nf": len(o.get("fails", []))}, nontrivial=n >= 2 and npages > 1,
                  sample={"versions": n, "page_size": page, "window": [o.get("start"), o.get("stop")], "listed": o.get("listed", [])[:6], "step": step,
                          "failing": o.get("fails")} if n == 5 else None)
        if not o["ok"]:
            chk.violation(f"{o['exc'][0]} raised {o['exc'][1]}: {o['exc'][2]} (N={n}, page size {page}, window {wkind})", replay, {"kind": "raises", "where": o["exc"][0]})
            continue
        r = next(it)
        s = s_oracle(o)
        for f in s:
            chk.violation(f["what"], replay, {"kind": f["kind"]})
        if r != "(true, true)" and not s:
            chk.violation(f"implementation differs from the paging model ({r}) although the C19 predicate holds (N={n}, page {page})",
                          dict(replay, correspondence="coq/Model/Paging.v check_list / check_get"), {"kind": "model-diff"}, no_input=True)
    # the same through VersionedDataHandler's and S3VersionUtil's own constructors, window given as ISO strings with explicit offsets
    for o in core.pmap(handler_job, [rng.randint(0, 2**31) for _ in range(40 if chk.tier == "quick" else 600)], chunksize=8):
        chk.count({"handler": True, "n": len(o["versions"]), "tz": o["tz"], "open": [o["start"] is None, o["stop"] is None]}, nontrivial=len(o["versions"]) >= 2,
                  sample={"stream": "through the handler's constructor", "start_date": o["iso"][0], "end_date": o["iso"][1], "tzinfo": o["tz"], "listed": o.get("listed")} if len(o["versions"]) == 3 else None)
        rp = {"kind": "c19-handler", "seed": o["seed"]}
        if not o["ok"]:
            chk.violation(f"retrieval through VersionedDataHandler raised {o['exc']}", rp, {"kind": "raises", "where": "handler"})
            continue
        for f in handler_oracle(o):
            chk.violation(f["what"], rp, {"kind": f["kind"], "where": "handler"})
    if not ok and not [v for v in chk.violations if not v["no_input"]]:
        chk.violation("proof obligations of C19 no longer check", {"theorem_file": "coq/Properties/C19.v", "log": rep.get("log_tail", "")[-1500:]}, {"kind": "proof-broken"}, no_input=True)
    return chk.finish(RULE)


def replay(chk, payload):
    if payload["replay"].get("kind") == "c19-handler":
        o = handler_job(payload["replay"]["seed"])
        fl = handler_oracle(o) if o["ok"] else [{"what": str(o["exc"])}]
        print(json.dumps({"iso": o["iso"], "tz": o["tz"], "listed": o.get("listed"), "fails": fl}, indent=1, default=str))
        return 1 if fl else 0
    o = worker(tuple(payload["replay"]["job"]))
    print(json.dumps({k: o.get(k) for k in ("ok", "exc", "listed", "requests", "get", "start", "stop")}, indent=1, default=str))
    return 1 if (not o["ok"] or s_oracle(o)) else 0
