"""C18 -- Nothing is persisted unless asked; results saved before a too-few-units error."""
import itertools
import json
import os
import random
import shutil

from harness import core, gen
from harness.core import llit, slit

IMPORTS = "From Coq Require Import List String.\nImport ListNotations.\nFrom Elex Require Import Model.Persist.\nOpen Scope string_scope.\n"

RULE = ("(every uploaded prediction table is also parsed back and compared with the returned table; a few configurations fetch baseline / configuration from the fake remote store) "
        "the finite configuration space is enumerated completely every run: 2^4 subsets of save_output {results, data, config, conformalization} x "
        "{local, non-local environment} x {nonparametric, gaussian, bootstrap} x {minimum-units gate passes, fails} = 192 get_estimates runs (plus 16 runs whose baseline is fetched from the fake remote storage instead of being passed in memory, plus sequences of "
        "two calls in one process with model_parameters left at its default: what the first call saved must not be saved by the second) against a "
        "fake boto3 client (put_object recorded in order) in an empty working directory (local files listed afterwards); the observed event sequence is "
        "compared inside Coq with writes(cfg); every remote key is checked to be whitespace-free and under <root>/<election id>/. "
        "distinct = configuration; non-trivial = at least one option requested")

ROOT = "verif-root-dev"


class FakeS3:
    def __init__(self, log, objects=None, bodies=None):
        self.log = log
        self.objects = objects or {}
        self.bodies = bodies

    def put_object(self, **kw):
        self.log.append(kw.get("Key"))
        if self.bodies is not None:
            b = kw.get("Body")
            self.bodies[kw.get("Key")] = b.decode("utf-8") if isinstance(b, (bytes, bytearray)) else b
        return True

    def get_object(self, **kw):
        import io

        for suffix, body in self.objects.items():
            if str(kw.get("Key", "")).endswith(suffix):
                return {"Body": io.BytesIO(body.encode("utf-8")), "LastModified": "2030-01-01"}
        raise RuntimeError("fake S3: get_object not available")


def worker(job):
    from harness import run_impl

    idx, save, local, pi, gate_ok = job[:5]
    remote = len(job) > 5 and job[5] is True
    empty_feed = len(job) > 5 and job[5] == "empty"
    remote_config = len(job) > 5 and job[5] == "config"
    client = run_impl._imp()
    import boto3

    import elexmodel.handlers.s3 as s3mod

    log = []
    objects = {}
    bodies = {}
    orig = boto3.client
    s3mod.boto3.client = lambda *a, **k: FakeS3(log, objects, bodies)
    old_env = client.APP_ENV
    client.APP_ENV = "local" if local else "prod"
    wd = os.path.join(core.BUILD, "c18", f"w{idx}")
    shutil.rmtree(wd, ignore_errors=True)
    os.makedirs(wd)
    cwd = os.getcwd()
    os.chdir(wd)
    try:
        rng = random.Random(1000 + idx % 3)
        n_rep = 30 if gate_ok else 4
        case = gen.gen_election(rng, n_states=1, n_units=n_rep + 6, office="S", unit_type="county")
        base = case["baseline"][: n_rep + 6]
        case["baseline"] = base
        case["feed"] = [] if empty_feed else [gen.live_row(rng, b, 100 if i < n_rep else 30) for i, b in enumerate(base)]
        est = ["margin"] if pi == "bootstrap" else ["turnout"]
        mp = {"fit_turnout_outlier_model": False, "fit_margin_outlier_model": False}
        if pi == "bootstrap":
            mp["B"] = 20
        case["params"] = {"estimands": est, "prediction_intervals": [0.7], "percent_reporting_threshold": 100, "pi_method": pi,
                          "aggregates": ["postal_code", "county_fips", "unit"], "features": ["baseline_normalized_margin"] if pi == "bootstrap" else [],
                          "fixed_effects": {}, "model_parameters": mp, "handle_unreporting": "drop", "save_output": list(save)}
        if remote:
            # the baseline is not handed over in memory: the client fetches it from (fake) remote storage
            objects["data_county.csv"] = run_impl.frames(case)[0].to_csv(index=False)
        if remote_config:
            # the configuration is not handed over either: the client fetches it from (fake) remote storage
            import json as _json
            objects[f"config/{gen.ELECTION_ID}.json"] = _json.dumps(gen.make_config(case))
        r = run_impl.run_case(case, preprocessed_none=bool(remote), want_client=True, config_none=bool(remote_config))
        # what was uploaded under a prediction-table key is the table that was returned
        content = []
        if r["ok"]:
            import io

            import pandas as pd
            for key, body in bodies.items():
                parts = str(key).split("/")
                if "predictions" not in parts or not isinstance(body, str) or parts[-2] not in r["tables"]:
                    continue
                ret = r["tables"][parts[-2]]
                try:
                    up = pd.read_csv(io.StringIO(body))
                except Exception as e:  # noqa: BLE001
                    content.append(f"{parts[-2]}: uploaded body is not a CSV table ({type(e).__name__})")
                    continue
                if list(up.columns) != list(ret.columns) or len(up) != len(ret):
                    content.append(f"{parts[-2]}: uploaded table has columns {list(up.columns)[:6]}.. and {len(up)} rows, the returned one {list(ret.columns)[:6]}.. and {len(ret)} rows")
                    continue
                for c in ret.columns:
                    a_, b_ = ret[c].tolist(), up[c].tolist()
                    for x, y in zip(a_, b_):
                        if isinstance(x, (int, float)) and not isinstance(x, bool):
                            okv = (x != x and y != y) or (isinstance(y, (int, float)) and abs(float(x) - float(y)) <= 1e-9 * max(1.0, abs(float(x))))
                        else:
                            okv = str(x) == str(y)
                        if not okv:
                            content.append(f"{parts[-2]}.{c}: returned {x!r}, uploaded {y!r}")
                            break
                    if content:
                        break
        # the national summary of a bootstrap run is one more table: written (only) where the other tables are written
        sum_puts = None
        if r["ok"] and pi == "bootstrap":
            n0 = len(log)
            try:
                r["client"].get_national_summary_votes_estimates(None, 0, [0.9])
                sum_puts = log[n0:]
            except Exception as e:  # noqa: BLE001
                sum_puts = [f"raised {type(e).__name__}: {str(e)[:80]}"]
            del log[n0:]
        files = []
        for d, _, fs in os.walk(wd):
            for f in fs:
                files.append(os.path.relpath(os.path.join(d, f), wd))
    finally:
        os.chdir(cwd)
        client.APP_ENV = old_env
        s3mod.boto3.client = orig
        shutil.rmtree(wd, ignore_errors=True)
    tables = list(r["tables"].keys()) if r["ok"] else []
    return {"job": list(job), "ok": r["ok"], "exc": r["exc"], "puts": log, "files": sorted(files), "tables": tables, "sum_puts": sum_puts, "content": content if r["ok"] else [],
            "remote_config": bool(remote_config)}


def history_job(job):
    """sequences of calls in ONE process (model_parameters left at its default): what an earlier call asked to save must not be saved by a later one"""
    from harness import run_impl

    idx, first_save, second_save, pi = job
    client = run_impl._imp()
    import boto3

    import elexmodel.handlers.s3 as s3mod

    log = []
    orig = boto3.client
    s3mod.boto3.client = lambda *a, **k: FakeS3(log)
    old_env = client.APP_ENV
    client.APP_ENV = "prod"
    wd = os.path.join(core.BUILD, "c18", f"h{idx}")
    shutil.rmtree(wd, ignore_errors=True)
    os.makedirs(wd)
    cwd = os.getcwd()
    os.chdir(wd)
    out = {"job": list(job)}
    try:
        rng = random.Random(77 + idx)
        case = gen.gen_election(rng, n_states=1, n_units=40, office="S", unit_type="county")
        base = case["baseline"][:40]
        case["baseline"] = base
        case["feed"] = [gen.live_row(rng, b, 100 if i < 32 else 30) for i, b in enumerate(base)]
        case["params"] = {"estimands": ["turnout"], "prediction_intervals": [0.7], "percent_reporting_threshold": 100, "pi_method": pi,
                          "aggregates": ["postal_code", "county_fips", "unit"], "features": [], "fixed_effects": {}, "handle_unreporting": "drop",
                          "save_output": list(first_save)}
        mc = client.ModelClient()
        r1 = run_impl.run_case(case, client_obj=mc, omit_model_parameters=True)
        n1 = len(log)
        files1 = sorted(os.path.relpath(os.path.join(d, f), wd) for d, _, fs in os.walk(wd) for f in fs)
        case["params"]["save_output"] = list(second_save)
        r2 = run_impl.run_case(case, client_obj=client.ModelClient(), omit_model_parameters=True)
        out.update({"ok": r1["ok"] and r2["ok"], "exc": [r1["exc"], r2["exc"]], "first_puts": log[:n1], "second_puts": log[n1:],
                    "new_files": sorted(set(os.path.relpath(os.path.join(d, f), wd) for d, _, fs in os.walk(wd) for f in fs) - set(files1))})
    finally:
        os.chdir(cwd)
        client.APP_ENV = old_env
        s3mod.boto3.client = orig
        shutil.rmtree(wd, ignore_errors=True)
    return out


SEGMENT_OK = __import__("re").compile(r"^[A-Za-z0-9_.\-]+$")


def key_layout_problem(key, office="S", unit_type="county"):
    """the documented layout: <root>/<election id>/<kind>/<office>/<unit type>/... with plain path segments"""
    parts = key.split("/")
    if any(not SEGMENT_OK.match(x) for x in parts):
        return "a path segment holds characters outside [A-Za-z0-9_.-]"
    if len(parts) < 6 or parts[0] != ROOT or parts[1] != gen.ELECTION_ID:
        return f"not under {ROOT}/{gen.ELECTION_ID}/"
    if parts[2] not in ("results", "predictions", "gaussian") or parts[3] != office or parts[4] != unit_type:
        return f"kind / office / unit type segments are {parts[2:5]}, expected <results|predictions|gaussian>/{office}/{unit_type}"
    return None


def classify_put(key):
    if key.endswith("/current_counties.csv") and "/results/" in key:
        return "PutLiveCounties"
    if key.endswith("/current.csv") and "/results/" in key:
        return "PutLive"
    if "/gaussian/" in key and key.endswith("/conformalization_data.csv"):
        return "PutGaussConf"
    if "/gaussian/" in key and key.endswith("/bounds.csv"):
        return "PutGaussBounds"
    if "/predictions/" in key and key.endswith("/current.csv"):
        return f"PutTable {slit(key.split('/')[-2])}"
    return None


def run(chk):
    ok, rep = chk.proofs()
    chk.assumptions += ["boto3 is replaced by a recording fake client; the transport (s3transfer, retries, eventual consistency) is outside the model",
                        "local files are observed by listing an initially empty working directory after the run"]
    opts = ["results", "data", "config", "conformalization"]
    jobs = []
    idx = 0
    for r in range(len(opts) + 1):
        for save in itertools.combinations(opts, r):
            for local in (True, False):
                for pi in ("nonparametric", "gaussian", "bootstrap"):
                    for gate_ok in (True, False):
                        jobs.append((idx, save, local, pi, gate_ok))
                        idx += 1
    # the same, for a few configurations, with the baseline fetched from remote storage instead of passed in memory
    for save in ((), ("results",), ("data",), ("config", "conformalization")):
        for local in (True, False):
            for pi in ("nonparametric", "gaussian"):
                jobs.append((idx, save, local, pi, True, True))
                idx += 1
    # ... and with a live feed that has no rows at all yet (polls just closed): the gate fails, the (empty) live results are still saved
    for pi in ("nonparametric", "gaussian", "bootstrap"):
        for save in (("results",), ("results", "data")):
            jobs.append((idx, save, False, pi, False, "empty"))
            idx += 1
    # ... and with the configuration fetched from remote storage (no raw_config handed over, as the command line tool does)
    for pi in ("nonparametric", "bootstrap"):
        for save in ((), ("results",), ("config",)):
            for local in (True, False):
                jobs.append((idx, save, local, pi, True, "config"))
                idx += 1
    outs = core.pmap(worker, jobs)
    exprs = []
    for o in outs:
        idx, save, local, pi, gate_ok = o["job"][:5]
        for cdiff in o.get("content", [])[:1]:
            chk.violation(f"configuration {o['job'][1:]}: the prediction table uploaded is not the table returned -- {cdiff}", {"kind": "c18", "job": o["job"]},
                          {"kind": "content-differs"})
        if o.get("sum_puts") is not None:
            want_sum = [] if (local or "results" not in save) else [f"{ROOT}/{gen.ELECTION_ID}/predictions/S/county/nat_sum_data/current.csv"]
            if o["sum_puts"] != want_sum:
                chk.violation(f"configuration {o['job'][1:]}: the national summary call wrote {o['sum_puts']}, expected {want_sum}", {"kind": "c18", "job": o["job"]},
                              {"kind": "summary-writes", "local": local})
        replay = {"kind": "c18", "job": o["job"]}
        chk.count({"save": save, "local": local, "pi": pi, "gate": gate_ok, "remote_baseline": len(o["job"]) > 5}, nontrivial=len(save) > 0,
                  sample={"save_output": save, "environment": "local" if local else "prod", "estimator": pi, "gate_passes": gate_ok, "puts": o["puts"][:4], "files": o["files"]})
        gate_observed = o["ok"] or not (o["exc"] and o["exc"][0] == "ModelNotEnoughSubunitsException")
        if gate_ok and not o["ok"]:
            chk.violation(f"configuration {o['job'][1:]}: run failed with {o['exc']}", replay, {"kind": "run-failed"}, no_input=False)
            exprs.append("true")
            continue
        if not gate_ok and (o["ok"] or o["exc"][0] != "ModelNotEnoughSubunitsException"):
            chk.violation(f"configuration {o['job'][1:]}: expected the not-enough-subunits error, got {o['exc'] or 'success'}", replay, {"kind": "gate"})
            exprs.append("true")
            continue
        events = []
        bad_key = None
        if any(f.startswith("config/") for f in o["files"]):
            events.append("LocalConfig")
        if any(f.startswith("data/") for f in o["files"]):
            events.append("LocalData")
        other_files = [f for f in o["files"] if not (f.startswith("config/") or f.startswith("data/"))]
        if other_files:
            chk.violation(f"configuration {o['job'][1:]}: unexpected local files {other_files[:3]}", replay, {"kind": "local-file"})
        for k in o["puts"]:
            ev = classify_put(k)
            if ev is None:
                chk.violation(f"configuration {o['job'][1:]}: unexpected remote key {k!r}", replay, {"kind": "unknown-key"})
                continue
            events.append(ev)
            if any(c.isspace() for c in k) or not k.startswith(f"{ROOT}/{gen.ELECTION_ID}/") or key_layout_problem(k):
                bad_key = k
        if bad_key is not None:
            chk.violation(f"remote key {bad_key!r} contains whitespace or does not follow the layout {ROOT}/{gen.ELECTION_ID}/<kind>/<office>/<unit type>/... ({key_layout_problem(bad_key)})", replay, {"kind": "bad-key"})
        est = {"nonparametric": "Nonparametric", "gaussian": "Gaussian", "bootstrap": "Bootstrap"}[pi]
        cfgv = (f"{{| c_results := {core.blit('results' in save)}; c_data := {core.blit('data' in save)}; c_config := {core.blit('config' in save)}; "
                f"c_conf := {core.blit('conformalization' in save)}; c_local := {core.blit(local)}; c_estimator := {est}; "
                f"c_gate_ok := {core.blit(gate_ok)}; c_tables := {llit([slit(t) for t in o['tables']])}; c_gauss_fits := 2%nat |}}")
        exprs.append(f"check_writes {cfgv} {llit(events)}")
        o["events"] = events
    res, errs = core.coq_eval("C18", IMPORTS, exprs, shard=64)
    for o, r in zip(outs, res):
        if r != "true":
            chk.violation(f"configuration {o['job'][1:]}: observed events {o.get('events')} (puts {o['puts'][:6]}, files {o['files']}) differ from writes(cfg) [{r}]",
                          {"kind": "c18", "job": o["job"]}, {"kind": "events-differ", "save": ",".join(o["job"][1]), "local": o["job"][2], "pi": o["job"][3]})
    # call sequences in one process
    hjobs = []
    k = 0
    for pi in ("gaussian", "nonparametric", "bootstrap"):
        for first, second in ((("conformalization", "results", "data", "config"), ()), (("conformalization",), ("results",)), (("results",), ("conformalization",)), ((), ())):
            if pi == "bootstrap":
                continue
            hjobs.append((k, first, second, pi))
            k += 1
    houts = core.pmap(history_job, hjobs)
    for o in houts:
        idx, first, second, pi = o["job"]
        chk.count({"history": [first, second], "pi": pi}, nontrivial=bool(first), sample={"first_call_save_output": first, "second_call_save_output": second, "estimator": pi,
                                                                                         "second_call_puts": o.get("second_puts"), "second_call_new_files": o.get("new_files")})
        replay = {"kind": "c18-history", "job": o["job"]}
        if not o.get("ok"):
            chk.violation(f"history run failed: {o.get('exc')}", replay, {"kind": "run-failed"}, no_input=True)
            continue
        want_conf = "conformalization" in second and pi == "gaussian"
        want_res = "results" in second
        got_conf = [kk for kk in o["second_puts"] if "/gaussian/" in kk]
        got_res = [kk for kk in o["second_puts"] if "/gaussian/" not in kk]
        if bool(got_conf) != want_conf or bool(got_res) != want_res or (o["new_files"] and not ({"data", "config"} & set(second))):
            chk.violation(f"{pi}: after a call with save_output={list(first)}, a call with save_output={list(second)} wrote {o['second_puts'][:4]} / files {o['new_files'][:3]}",
                          replay, {"kind": "stale-save-option", "estimator": pi})
    if not ok and not [v for v in chk.violations if not v["no_input"]]:
        chk.violation("proof obligations / generated facts of C18 no longer check", {"theorem_file": "coq/Properties/C18.v", "log": rep.get("log_tail", "")[-1500:],
                                                                                   "translator": chk.notes.get("translator_problems")}, {"kind": "proof-broken"}, no_input=True)
    return chk.finish(RULE, extra={"configurations": len(outs)}, exhaustive=True)


def replay(chk, payload):
    r = payload["replay"]
    o = history_job(tuple(r["job"])) if r.get("kind") == "c18-history" else worker(tuple(r["job"]))
    print(json.dumps(o, indent=1, default=str))
    return 0
