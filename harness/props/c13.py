"""C13 -- What is reported for one request does not depend on what else was requested."""
import copy
import json
import random

from harness import aggfam, core, gen

RULE = ("pairs of get_estimates runs on one synthetic election with a complete feed (every baseline unit in the feed, no unexpected units) that differ "
        "only in what ELSE is requested: subsets and orders of interval levels, of aggregate levels and of vote-count estimands, all three estimators "
        "(bootstrap: levels and aggregates); every table of the smaller request is compared with the larger one's on their common columns and keys, "
        "bit for bit; every returned table must have each key / category column exactly once and un-suffixed, and as many rows as its single-estimand "
        "version. distinct = (estimator, office, kind of variation); non-trivial = both runs completed and the larger request has >= 2 estimands or "
        ">= 2 levels")

KEYS = {"postal_code", "district", "county_fips", "county_classification", "geographic_unit_fips", "reporting", "unit_category"}


def variants(rng, p, pi):
    """list of (kind, params') derived from the full request p"""
    out = []
    alphas = p["prediction_intervals"]
    if len(alphas) >= 2:
        out.append(("alpha-subset", dict(p, prediction_intervals=[alphas[-1]])))
        out.append(("alpha-order", dict(p, prediction_intervals=list(reversed(alphas)))))
        out.append(("alpha-first", dict(p, prediction_intervals=[alphas[0]])))
    aggs = p["aggregates"]
    if len(aggs) >= 2:
        sub = [a for a in aggs if a in ("postal_code", "unit")] or aggs[:1]
        if pi == "bootstrap" and "postal_code" not in sub:
            sub = ["postal_code"] + sub
        out.append(("aggregate-subset", dict(p, aggregates=sub)))
        out.append(("aggregate-order", dict(p, aggregates=list(reversed(aggs)))))
    est = p["estimands"]
    if len(est) >= 2:
        out.append(("estimand-subset", dict(p, estimands=[est[-1]])))
        out.append(("estimand-order", dict(p, estimands=list(reversed(est)))))
        out.append(("estimand-first", dict(p, estimands=[est[0]])))
    return out


def compare(t_small, t_big, est_small):
    """tables of the smaller request against the larger one's, on common columns, rows matched by key columns"""
    for name, rows_s in t_small.items():
        rows_b = t_big.get(name)
        if rows_b is None:
            continue
        if not rows_s:
            continue
        cols_s = list(rows_s[0].keys())
        cols_b = set(rows_b[0].keys()) if rows_b else set()
        keys = [c for c in cols_s if c in KEYS and c in cols_b]
        if "reporting" in keys and name != "unit_data":
            pass
        common = [c for c in cols_s if c in cols_b]
        idx = {}
        for r in rows_b:
            idx.setdefault(tuple(r[k] for k in keys), []).append(r)
        if len(rows_s) != len(rows_b):
            return f"table {name} has {len(rows_s)} rows in one request and {len(rows_b)} in the other"
        for r in rows_s:
            m = idx.get(tuple(r[k] for k in keys))
            if not m or len(m) != 1:
                return f"table {name}: row {[r[k] for k in keys]} has {len(m or [])} counterparts in the other request"
            for c in common:
                a, b = r[c], m[0][c]
                if a != b and not (a != a and b != b):
                    return f"table {name}, row {[r[k] for k in keys]}: column {c} is {a} in one request and {b} in the other"
    return None


def schema_fail(tables, estimands):
    for name, rows in tables.items():
        if not rows:
            continue
        cols = list(rows[0].keys())
        bad = [c for c in cols if c.endswith("_x") or c.endswith("_y")]
        if bad:
            return f"table {name} has suffixed columns {bad} ({len(estimands)} estimands requested)"
        if len(cols) != len(set(cols)):
            return f"table {name} has duplicated columns"
        if name == "unit_data" and "unit_category" not in cols:
            return f"table {name} lost its category column"
    return None


def worker(job):
    seed, pi, office = job
    rng = random.Random(seed)
    est = None if pi == "bootstrap" else rng.choice([["dem", "turnout"], ["turnout", "dem", "gop"], ["dem", "gop"]])
    case = gen.gen_case(rng, pi_method=pi, office=office, n_unexpected=0, special=False, blocklist=False, estimands=est,
                        alphas=rng.choice([[0.7, 0.9], [0.6, 0.8, 0.9]]), handle_unreporting="drop")
    if pi == "nonparametric" and seed % 2 == 0:
        case["params"]["model_parameters"]["robust"] = True          # the robust correction, with levels in ascending order
    if pi == "gaussian" and seed % 2 == 0:
        case["params"]["model_parameters"]["winsorize"] = True
    # two units whose baseline is zero for ONE vote-count estimand only (no dem votes last time, normal turnout)
    for b in rng.sample(case["baseline"], min(2, len(case["baseline"]))):
        b["baseline_gop"] = b["baseline_gop"] + b["baseline_dem"]
        b["baseline_dem"] = 0
    # complete feed: every baseline unit is in the feed
    have = {f["geographic_unit_fips"] for f in case["feed"]}
    for b in case["baseline"]:
        if b["geographic_unit_fips"] not in have:
            case["feed"].append(gen.live_row(rng, b, 40))
    if pi != "bootstrap" and "unit" not in case["params"]["aggregates"]:
        case["params"]["aggregates"].append("unit")
    h0 = aggfam.harvest(case)
    out = {"job": list(job), "ok": h0["ok"], "exc": h0.get("exc"), "pairs": [], "office": case["office"], "big": {k: case["params"][k] for k in ("estimands", "prediction_intervals", "aggregates")}}
    if not h0["ok"]:
        return out
    sf = schema_fail(h0["final_tables"], case["params"]["estimands"])
    if sf:
        out["pairs"].append({"kind": "schema", "fail": sf, "ok": True})
    for kind, p2 in variants(rng, case["params"], pi):
        c2 = copy.deepcopy(case)
        c2["params"] = copy.deepcopy(p2)
        h1 = aggfam.harvest(c2)
        rec = {"kind": kind, "small": {k: p2[k] for k in ("estimands", "prediction_intervals", "aggregates")}, "ok": h1["ok"], "exc": h1.get("exc"), "fail": None}
        if h1["ok"]:
            rec["fail"] = compare(h1["final_tables"], h0["final_tables"], p2["estimands"]) or schema_fail(h1["final_tables"], p2["estimands"])
        out["pairs"].append(rec)
    return out


def run(chk):
    ok, rep = chk.proofs()
    chk.assumptions += ["request independence of the implementation is decided by paired runs (bit-for-bit); the Coq side proves the merge schema for any number of estimands, "
                        "the per-level cache, and decides the generated merge-key facts"]
    rng = random.Random(chk.seed * 313 + 13)
    jobs = []
    n = 9 if chk.tier == "quick" else 120
    for i in range(n):
        pi = ["nonparametric", "gaussian", "bootstrap"][i % 3]
        office = ["S", "H", "P"][(i // 3) % 3]
        jobs.append((rng.randint(0, 2**31), pi, office))
    outs = core.pmap(worker, jobs)
    n_pairs = 0
    for o in outs:
        seed, pi, office = o["job"]
        if not o["ok"]:
            chk.count({"pi": pi, "office": office, "ok": False}, nontrivial=False)
            if o["exc"][0] != "ModelNotEnoughSubunitsException":
                chk.violation(f"{pi} run of the full request failed: {o['exc']}", {"kind": "c13", "job": o["job"]}, {"kind": "run-failed"}, no_input=True)
            continue
        for pr in o["pairs"]:
            n_pairs += 1
            chk.count({"pi": pi, "office": office, "kind": pr["kind"]}, nontrivial=pr["ok"],
                      sample={"estimator": pi, "office": office, "larger_request": o["big"], "smaller_request": pr.get("small"), "variation": pr["kind"]})
            replay = {"kind": "c13", "job": o["job"], "variation": pr["kind"]}
            if not pr["ok"]:
                if pr["exc"][0] != "ModelNotEnoughSubunitsException":
                    chk.violation(f"{pi}: request {pr.get('small')} fails ({pr['exc']}) although {o['big']} succeeds", replay, {"kind": "variant-failed", "variation": pr["kind"]})
                continue
            if pr["fail"]:
                chk.violation(f"{pi}, office {office}, {pr['kind']}: {pr['fail']} (requests {pr.get('small')} vs {o['big']})", replay,
                              {"kind": "schema" if pr["kind"] == "schema" or "suffixed" in pr["fail"] else "depends-on-request", "variation": pr["kind"], "estimator": pi})
    if n_pairs < 6:
        chk.violation(f"only {n_pairs} request pairs could be compared", {"kind": "coverage"}, {"kind": "coverage"}, no_input=True)
    if not ok and not [v for v in chk.violations if not v["no_input"]]:
        chk.violation("proof obligations / generated facts of C13 no longer check", {"theorem_file": "coq/Properties/C13.v", "log": rep.get("log_tail", "")[-1500:],
                                                                                   "translator": chk.notes.get("translator_problems")}, {"kind": "proof-broken"}, no_input=True)
    return chk.finish(RULE, extra={"request_pairs": n_pairs})


def replay(chk, payload):
    o = worker(tuple(payload["replay"]["job"]))
    print(json.dumps({k: o.get(k) for k in ("ok", "exc", "pairs", "big")}, indent=1, default=str))
    return 1 if any(p.get("fail") for p in o.get("pairs", [])) else 0
