"""C14 -- Enough reporting units means an estimate; too few means the dedicated error."""
import math
import random

from harness import core, gen
from harness.core import llit, qlit, zlit

IMPORTS = "From Coq Require Import ZArith QArith List.\nImport ListNotations.\nFrom Elex Require Import Model.Split.\n"

RULE = ("grid: every level k/1000 x reporting counts n from minimum-1 upwards (quick: +60 and 5 large n; thorough: +4000), "
        "implementation minimum / training fraction compared with the exact-rational model inside Coq and the split-validity "
        "predicate evaluated on the implementation's own numbers; end-to-end: get_estimates with exactly minimum-1, minimum, "
        "minimum+1.. modelled reporting units per estimator and level set (outcome vs the gate model), the same with a wide design (two covariates and a county fixed effect), duplicate reporting ids (a repeated feed row; the same id reporting in two states). "
        "distinct = distinct (estimator, levels, n - minimum, outcome) for end-to-end runs plus distinct (level) grid rows; "
        "non-trivial = n within 12 of the minimum or a grid row whose minimum >= 2")


def e2e_case(alphas, n_rep, pi, seed, n_non=5, dup=False, features=None, wide=False):
    rng = random.Random(seed)
    c = gen.gen_election(rng, n_states=1, n_units=n_rep + n_non, office="S", unit_type="precinct")
    base = c["baseline"][: n_rep + n_non]
    c["baseline"] = base
    feed = []
    for i, b in enumerate(base):
        feed.append(gen.live_row(rng, b, 100 if i < n_rep else 40))
    if dup == "state" and feed:
        # the same unit id reporting in a second state of the run (ids are only unique within a state in some feeds)
        b2 = dict(base[0], postal_code="BB")
        base.append(b2)
        c["baseline"] = base
        c["states"] = sorted(set(c["states"]) | {"BB"})
        feed.append(gen.live_row(rng, b2, 100))
    elif dup and feed:
        feed.append(dict(feed[0]))
    c["feed"] = feed
    est = ["margin"] if pi == "bootstrap" else ["turnout"]
    feats = ["baseline_normalized_margin"] if pi == "bootstrap" else (features or [])
    mp = {"fit_turnout_outlier_model": False, "fit_margin_outlier_model": False, "turnout_factor_lower": 0.01, "turnout_factor_upper": 100.0}
    if pi == "bootstrap":
        mp["B"] = 20
    fes = {}
    if wide and pi != "bootstrap":
        # many coefficients next to the minimum number of units: two covariates and a fixed effect with several levels
        feats = ["feat_a", "feat_b"]
        fes = {"county_fips": "all"}
    c["params"] = {"estimands": est, "prediction_intervals": list(alphas), "percent_reporting_threshold": 100, "pi_method": pi,
                   "aggregates": ["postal_code", "unit"], "features": feats, "fixed_effects": fes, "model_parameters": mp,
                   "handle_unreporting": "drop"}
    return c


def _run_e2e(job):
    from harness import run_impl

    alphas, n, pi, seed, dup = job[:5]
    n_non = job[5] if len(job) > 5 else 5
    c = e2e_case(alphas, n, pi, seed, n_non=n_non, dup=dup, wide=(len(job) > 6 and job[6] == "wide"))
    r = run_impl.run_case(c)
    n_rep_actual = None
    return {"job": job, "ok": r["ok"], "exc": r["exc"], "n_base": len(c["baseline"]), "tb": r.get("tb")}


def impl_minimum(pi, alpha):
    from harness import run_impl

    run_impl._imp()
    from elexmodel.models.BootstrapElectionModel import BootstrapElectionModel
    from elexmodel.models.GaussianElectionModel import GaussianElectionModel
    from elexmodel.models.NonparametricElectionModel import NonparametricElectionModel

    if pi == "nonparametric":
        return NonparametricElectionModel({}).get_minimum_reporting_units(alpha)
    if pi == "gaussian":
        return GaussianElectionModel({}).get_minimum_reporting_units(alpha)
    return BootstrapElectionModel({"features": ["baseline_normalized_margin"]}).get_minimum_reporting_units(alpha)


def grid_rows(tier):
    from harness import run_impl

    run_impl._imp()
    from elexmodel.models.NonparametricElectionModel import NonparametricElectionModel

    m = NonparametricElectionModel({})
    span = 60 if tier == "quick" else 4000
    step_levels = range(1, 1000)
    rows = []
    for k in step_levels:
        a = k / 1000
        mn = m.get_minimum_reporting_units(a)
        ns = list(range(max(1, mn - 1), mn + span + 1)) + [mn * 9, mn * 10, mn * 10 + 1, mn * 11, 100000 + k]
        if tier == "quick" and k % 10 != 0:
            ns = list(range(max(1, mn - 1), mn + 14)) + [mn * 10, mn * 10 + 1]
        nfs = [(n, m._compute_conf_frac(n, a)) for n in ns]
        rows.append((a, mn, nfs))
    return rows


def run(chk):
    ok, rep = chk.proofs()
    chk.assumptions += [
        "solver totality on non-empty training data is an oracle assumption (C14 proves the arithmetic of the split, the end-to-end runs exercise the solver)",
        "Python round(x, 2) modelled as round-half-even of the exact value times 100, divided by 100",
    ]
    viol_before = 0
    # ---- grid correspondence
    rows = grid_rows(chk.tier)
    exprs = []
    for a, mn, nfs in rows:
        aq = qlit(a)
        lst = llit([f"({zlit(n)}, {qlit(f)})" for n, f in nfs])
        exprs.append(f"(check_np_level {aq} {zlit(mn)} {lst}, check_np_split {aq} {zlit(mn)} {lst})")
    res, errs = core.coq_eval("C14", IMPORTS, exprs, shard=(60 if chk.tier == "quick" else 8), timeout=1500, tag="grid")
    n_pairs = 0
    for (a, mn, nfs), r in zip(rows, res):
        n_pairs += len(nfs)
        chk.count({"grid_level": a}, nontrivial=mn >= 2, sample={"level": a, "impl_minimum": mn, "first_pairs": nfs[:3]} if a in (0.7, 0.9) else None)
        if r is None:
            chk.violation(f"correspondence case did not evaluate (level {a})", {"level": a, "errors": errs[:1]}, {"kind": "coq-eval"}, no_input=True)
        elif r != "(true, true)":
            # find the concrete n
            bad = None
            for n, f in nfs:
                tr = max(1, math.floor(n * f))
                c = n - tr
                if n >= mn and not (tr >= 1 and c >= 1 and a * (c + 1) < c):
                    bad = (n, f, tr, c)
                    break
            if bad:
                chk.violation(f"split invalid at level {a}, n={bad[0]}: fraction {bad[1]}, training {bad[2]}, calibration {bad[3]}",
                              {"level": a, "n": bad[0], "impl_fraction": bad[1]}, {"kind": "grid-split", "level": a})
            else:
                chk.violation(f"implementation minimum/fraction differs from the model at level {a} (impl minimum {mn})",
                              {"level": a, "impl_minimum": mn, "pairs": nfs[:20], "coq": r}, {"kind": "grid-model-diff", "level": a}, no_input=True)
    chk.evaluations += n_pairs - len(rows)
    # ---- end-to-end
    jobs = []
    rng = random.Random(chk.seed)
    level_sets = [[0.3], [0.5], [0.7], [0.9], [0.95], [0.7, 0.9], [0.9, 0.5], [0.6, 0.8]]
    if chk.tier == "thorough":
        level_sets += [[0.99], [0.2, 0.4], [0.85], [0.65, 0.95, 0.75]]
    for alphas in level_sets:
        mn = max(impl_minimum("nonparametric", a) for a in alphas)
        deltas = [-1, 0, 1, 2] if chk.tier == "quick" else [-2, -1, 0, 1, 2, 3, 5, 8, 12]
        for d in deltas:
            if mn + d >= 1:
                jobs.append((alphas, mn + d, "nonparametric", rng.randint(0, 10**6), False))
    for pi, mn in (("gaussian", 7), ("bootstrap", 10)):
        for alphas in ([0.7], [0.9, 0.5]):
            for d in ([-1, 0, 1] if chk.tier == "quick" else [-2, -1, 0, 1, 2, 5]):
                jobs.append((alphas, mn + d, pi, rng.randint(0, 10**6), False))
    # every modelled unit reporting (no outstanding unit) and too few of them: the dedicated error is still due
    jobs.append(([0.9], 14, "nonparametric", 11, False, 0))
    jobs.append(([0.7, 0.9], 8, "nonparametric", 12, False, 0))
    jobs.append(([0.9], 4, "gaussian", 13, False, 0))
    jobs.append(([0.9], 6, "bootstrap", 14, False, 0))
    jobs.append(([0.7], 9, "nonparametric", 15, False, 0))
    # many coefficients at exactly the minimum / just above it: the run still completes
    for alphas_w, n_w, pi_w in (([0.9], 20, "nonparametric"), ([0.7, 0.9], 20, "nonparametric"), ([0.7, 0.9], 22, "nonparametric"), ([0.7], 7, "nonparametric"),
                                ([0.7, 0.9], 7, "gaussian"), ([0.9], 8, "gaussian"), ([0.9], 19, "nonparametric")):
        jobs.append((alphas_w, n_w, pi_w, rng.randint(0, 10**6), False, 5, "wide"))
    jobs.append(([0.7], 12, "nonparametric", 5, True))
    jobs.append(([0.7], 12, "gaussian", 6, True))
    jobs.append(([0.9], 12, "nonparametric", 7, True))  # too few AND duplicate: gate first
    jobs.append(([0.7], 12, "nonparametric", 8, "state"))
    jobs.append(([0.7], 12, "gaussian", 9, "state"))
    jobs.append(([0.7], 14, "bootstrap", 10, "state"))
    outs = core.pmap(_run_e2e, jobs)
    exprs = []
    for o in outs:
        alphas, n, pi, seed, dup = o["job"][:5]
        mins = [impl_minimum(pi, a) for a in alphas]
        if o["ok"]:
            oc = "Runs"
        elif o["exc"][0] == "ModelNotEnoughSubunitsException":
            oc = "NotEnough"
        elif o["exc"][0] == "ModelClientException" and "appears twice" in o["exc"][1]:
            oc = "Duplicate"
        else:
            oc = None
        o["oc"] = oc
        nn = n + (1 if dup else 0)
        o["mins"] = mins
        exprs.append(f"check_gate {zlit(nn)} {llit([qlit(m) for m in mins])} {core.blit(bool(dup))} {oc or 'Runs'}")
    res, errs = core.coq_eval("C14", IMPORTS, exprs, tag="e2e")
    for o, r in zip(outs, res):
        alphas, n, pi, seed, dup = o["job"][:5]
        n_non = o["job"][5] if len(o["job"]) > 5 else 5
        mn = max(o["mins"])
        chk.count({"pi": pi, "alphas": alphas, "d": n - mn, "oc": o["oc"], "dup": dup, "outstanding": n_non}, nontrivial=abs(n - mn) <= 12,
                  sample={"estimator": pi, "levels": alphas, "reporting_units": n, "duplicate": dup, "outcome": o["oc"] or o["exc"]})
        replay = {"kind": "e2e", "alphas": alphas, "n_reporting": n, "estimator": pi, "seed": seed, "dup": dup, "n_outstanding": n_non}
        if o["oc"] is None:
            chk.violation(f"{pi} levels={alphas} with {n} reporting units (minimum {mn}) failed with {o['exc'][0]}: {o['exc'][1][:120]}",
                          replay, {"kind": "e2e-failure", "estimator": pi, "exc": o["exc"][0]})
        elif r != "true":
            chk.violation(f"{pi} levels={alphas} n={n} minimum={mn} duplicate={dup}: outcome {o['oc']} contradicts the gate model",
                          replay, {"kind": "e2e-gate", "estimator": pi})
    # ---- proofs / generated facts broken?
    if not ok:
        n_concrete = len([v for v in chk.violations if not v["no_input"]])
        if n_concrete == 0:
            chk.violation("proof obligations of C14 no longer check (see log)", {"theorem_file": "coq/Properties/C14.v", "log": rep.get("log_tail", "")[-1500:],
                          "translator": chk.notes.get("translator_problems")}, {"kind": "proof-broken"}, no_input=True)
    return chk.finish(RULE, extra={"grid_pairs": n_pairs, "e2e_runs": len(outs)})


def replay(chk, payload):
    r = payload["replay"]
    if r.get("kind") == "e2e":
        o = _run_e2e((r["alphas"], r["n_reporting"], r["estimator"], r["seed"], r["dup"], r.get("n_outstanding", 5)))
        print(o["ok"], o["exc"])
        return 0 if o["ok"] else 1
    print(payload)
    return 0
