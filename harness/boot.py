"""Injection of bootstrap draw matrices into a BootstrapElectionModel object (as the repository's own unit tests do),
shared by C06, C07, C08."""
import numpy as np
import pandas as pd


def model(B, extra=None):
    from harness import run_impl

    run_impl._imp()
    from elexmodel.models.BootstrapElectionModel import BootstrapElectionModel

    s = {"features": ["baseline_normalized_margin"], "B": B}
    s.update(extra or {})
    return BootstrapElectionModel(s)


def empty_units(cols):
    return pd.DataFrame({c: pd.Series(dtype=(str if c in ("postal_code", "geographic_unit_fips", "unit_category") else float)) for c in cols})


COLS = ["postal_code", "geographic_unit_fips", "baseline_weights", "baseline_dem", "baseline_gop", "baseline_turnout", "results_margin", "results_weights",
        "results_normalized_margin", "turnout_factor", "pred_margin", "reporting", "unit_category"]


def one_unit_per_contest(names, preds):
    """nonreporting frame with exactly one unit of baseline weight 1 per contest: aggregate draws == unit draws"""
    n = len(names)
    non = pd.DataFrame({
        "postal_code": names, "geographic_unit_fips": [f"u{i}" for i in range(n)], "baseline_weights": 1.0, "baseline_dem": 1.0, "baseline_gop": 1.0,
        "baseline_turnout": 2.0, "results_margin": 0.0, "results_weights": 0.0, "results_normalized_margin": 0.0, "turnout_factor": 0.0,
        "pred_margin": preds, "reporting": 0, "unit_category": "expected"})
    rep = empty_units(COLS)
    rep["reporting"] = rep["reporting"].astype(int)
    unx = empty_units(COLS)
    unx["reporting"] = unx["reporting"].astype(int)
    return rep, non, unx


def inject(m, diff, preds, turnout=None):
    """diff: (n, B) matrix of error differences e1 - e2; preds: n unit (= contest) margin predictions; turnout 1 per unit"""
    n, B = diff.shape
    m.B = B
    m.errors_B_1 = diff.copy()
    m.errors_B_2 = np.zeros((n, B))
    m.errors_B_3 = np.ones((n, B))
    m.errors_B_4 = np.ones((n, B))
    m.weighted_yz_test_pred = np.asarray(preds, dtype=float).reshape(-1, 1)
    m.weighted_z_test_pred = np.ones((n, 1)) if turnout is None else np.asarray(turnout, dtype=float).reshape(-1, 1)
    m.ran_bootstrap = True
    m.n_contests = n


class ContestCapture:
    """Records, from the outside, the unit frames that reach BootstrapElectionModel.compute_bootstrap_errors and the
    contest-effect columns (aggregate_names) the model builds from them (C11: contest structure)."""

    def __init__(self):
        self.calls = []

    def __enter__(self):
        from harness import run_impl

        run_impl._imp()
        from elexmodel.models.BootstrapElectionModel import BootstrapElectionModel as M

        self.M = M
        self.orig = M.compute_bootstrap_errors
        cap = self

        def wrapped(slf, reporting_units, nonreporting_units, unexpected_units, *a, **k):
            def keys(df):
                if "district" not in df.columns:
                    return None
                return [(str(s), str(d)) for s, d in zip(df["postal_code"].tolist(), df["district"].tolist())]

            rec = {"district_election": bool(getattr(slf, "district_election", False)),
                   "e": None, "u": None, "names": None}
            try:
                ke, kn, ku = keys(reporting_units), keys(nonreporting_units), keys(unexpected_units)
                if ke is not None and kn is not None and ku is not None:
                    rec["e"], rec["u"] = ke + kn, ku
                rec["states"] = sorted({str(s) for df in (reporting_units, nonreporting_units, unexpected_units) for s in df["postal_code"].tolist()})
            except Exception as ex:  # noqa: BLE001
                rec["capture_error"] = repr(ex)
            r = cap.orig(slf, reporting_units, nonreporting_units, unexpected_units, *a, **k)
            names = getattr(slf, "aggregate_names", None)
            if isinstance(names, dict):
                rec["names"] = [n for n, _ in sorted(names.items(), key=lambda kv: kv[1])]
            cap.calls.append(rec)
            return r

        M.compute_bootstrap_errors = wrapped
        return self

    def __exit__(self, *exc):
        self.M.compute_bootstrap_errors = self.orig
        return False
