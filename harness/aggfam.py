"""Shared correspondence machinery for the aggregation family (C01, C02, C03, C11, C13):
runs get_estimates on a synthetic case, harvests the per-estimand unit and aggregate frames and encodes them
for the Gallina comparators of coq/Model/AggCheck.v."""
import math

from harness import core
from harness.core import llit, qlit, slit, zlit

AGG_ORDER = ["postal_code", "district", "county_classification", "county_fips"]
LABEL = {"postal_code": "state_data", "county_fips": "county_data", "district": "district_data",
         "county_classification": "classification_data", "unit": "unit_data"}

IMPORTS = ("From Coq Require Import ZArith QArith List String.\nImport ListNotations.\n"
           "From Elex Require Import Base.Frame Model.Aggregate Model.AggCheck.\nOpen Scope Z_scope.\n")


def is_district_office(office):
    return office[0] in "HYZ"


def aggregate_list(office, aggregate):
    base = ["postal_code", "district"] if is_district_office(office) else ["postal_code"]
    return sorted(set(base + [aggregate]), key=AGG_ORDER.index)


def whole(x):
    """float/int -> int if finite and whole, else None"""
    try:
        f = float(x)
    except (TypeError, ValueError):
        return None
    if f != f or f in (float("inf"), float("-inf")) or f != math.floor(f):
        return None
    return int(f)


def harvest(case, extra_kwargs=None, base_frame=None):
    """Runs the implementation; returns JSON-able dict with per-estimand unit frames and per (estimand, aggregate) frames."""
    from harness import run_impl

    r = run_impl.run_case(case, want_client=True, extra_kwargs=extra_kwargs, base_frame=base_frame)
    out = {"ok": r["ok"], "exc": r["exc"], "tb": r.get("tb")}
    if not r["ok"]:
        return out
    mc = r["client"]
    rh = mc.results_handler
    p = case["params"]
    out["nonrep_ids"] = list(rh.nonreporting_units["geographic_unit_fips"])
    out["rep_ids"] = list(rh.reporting_units["geographic_unit_fips"])
    out["unit"] = {}
    for e, df in rh.unit_data.items():
        out["unit"][e] = df.to_dict("records")
    out["agg"] = {}
    for agg, lst in rh.estimates.items():
        for e, df in zip(p["estimands"], lst):
            out["agg"][f"{e}|{agg}"] = {"cols": list(df.columns), "rows": df.to_dict("records")}
    out["final"] = {k: {"cols": list(v.columns), "n": len(v)} for k, v in r["tables"].items()}
    out["final_tables"] = {k: v.to_dict("records") for k, v in r["tables"].items()}
    return out


def unit_keys_py(case):
    """id -> dict of key columns as the implementation attributes them (baseline columns, or id-derived for unexpected)"""
    p = case["params"]
    aggs = p["aggregates"]
    base = {b["geographic_unit_fips"]: b for b in case["baseline"]}
    has_d = "district" in case["unit_type"]

    def keys(uid, postal):
        if uid in base:
            b = base[uid]
            return {"postal_code": b["postal_code"], "district": b.get("district"), "county_classification": b["county_classification"],
                    "county_fips": b["county_fips"]}
        comps = uid.split("_")
        k = {"postal_code": postal, "district": None, "county_classification": None, "county_fips": None}
        if "county_fips" in aggs:
            i = 1 if has_d else 0
            k["county_fips"] = comps[i] if i < len(comps) else None
        if "district" in aggs:
            k["district"] = comps[0]
        return k

    return keys


def frame_of(rec):
    if rec["unit_category"] == "expected":
        return "FRep" if int(rec["reporting"]) == 1 else "FNon"
    return "FUnx"


def encode_rows(case, unit_records, estimand, alphas, problems, core_only=False):
    """list of mk_row terms for one estimand (core_only: only counted votes; pred := results, no intervals)"""
    base = {b["geographic_unit_fips"]: b for b in case["baseline"]}
    aggs = case["params"]["aggregates"]
    flags = f"{core.blit('district' in case['unit_type'])} {core.blit('county_fips' in aggs)} {core.blit('district' in aggs)}"
    rows = []
    for rec in unit_records:
        uid = rec["geographic_unit_fips"]
        if uid in base:
            b = base[uid]
            d = b.get("district")
            bk = f"(Some ({core.olit(d, slit)}, {slit(b['county_classification'])}, {slit(b['county_fips'])}))"
        else:
            bk = "None"
        vals = [rec[f"results_{estimand}"], rec[f"results_{estimand}" if core_only else f"pred_{estimand}"]]
        ints = []
        for a in ([] if core_only else alphas):
            ints.append((rec[f"lower_{a}_{estimand}"], rec[f"upper_{a}_{estimand}"]))
        w = [whole(v) for v in vals] + [whole(x) for pr in ints for x in pr]
        if any(v is None for v in w):
            problems.append({"unit": uid, "estimand": estimand, "values": [str(v) for v in vals + [x for pr in ints for x in pr]]})
            continue
        il = llit([f"({zlit(whole(lo))}, {zlit(whole(hi))})" for lo, hi in ints])
        rows.append(f"mk_row {flags} {slit(uid)} {slit(rec['postal_code'])} {frame_of(rec)} {bk} {zlit(int(rec['reporting']))} "
                    f"{zlit(w[0])} {zlit(w[1])} {il}")
    return rows


def encode_table(tbl, agg_cols, estimand, alphas, problems):
    out = []
    for rec in tbl["rows"]:
        key = llit([slit(rec[c]) for c in agg_cols])
        vals = [rec[f"results_{estimand}"], rec["reporting"], rec[f"pred_{estimand}"]]
        ints = [(rec[f"lower_{a}_{estimand}"], rec[f"upper_{a}_{estimand}"]) for a in alphas]
        w = [whole(v) for v in vals] + [whole(x) for pr in ints for x in pr]
        if any(v is None for v in w):
            problems.append({"group": [rec[c] for c in agg_cols], "estimand": estimand, "values": [str(v) for v in vals + [x for pr in ints for x in pr]]})
            return None
        il = llit([f"({zlit(whole(lo))}, {zlit(whole(hi))})" for lo, hi in ints])
        out.append(f"mk_arow {key} {zlit(w[0])} {zlit(w[1])} {zlit(w[2])} {il}")
    return llit(out)


def aggr_lit(agg_cols):
    return llit([f"{AGG_ORDER.index(c)}%nat" for c in agg_cols])


def expected_ids(case):
    """ids the unit table must contain (each once)"""
    p = case["params"]
    ids = []
    seen = set()
    states = set(case["states"])
    for r in case["feed"]:
        if r["geographic_unit_fips"] not in seen:
            seen.add(r["geographic_unit_fips"])
            ids.append(r["geographic_unit_fips"])
    if p.get("handle_unreporting", "drop") == "zero":
        for b in case["baseline"]:
            if b["postal_code"] in states and b["geographic_unit_fips"] not in seen:
                seen.add(b["geographic_unit_fips"])
                ids.append(b["geographic_unit_fips"])
    return ids


def fingerprint(case, h):
    p = case["params"]
    cats = {}
    if h.get("ok"):
        e0 = p["estimands"][0]
        for rec in h["unit"].get(e0, []):
            c = rec["unit_category"] if rec["unit_category"] != "expected" else ("rep" if int(rec["reporting"]) == 1 else "nonrep")
            cats[c] = cats.get(c, 0) + 1
    return {"pi": p["pi_method"], "office": case["office"], "ut": case["unit_type"], "aggs": sorted(p["aggregates"]), "est": p["estimands"],
            "alphas": p["prediction_intervals"], "thr": p["percent_reporting_threshold"], "unrep": p.get("handle_unreporting"),
            "cats": sorted(cats), "n": len(case["baseline"]), "ok": h.get("ok"), "exc": (h.get("exc") or [None])[0]}


def nontrivial(case, h):
    if not h.get("ok"):
        return False
    e0 = case["params"]["estimands"][0]
    recs = h["unit"].get(e0, [])
    non = sum(1 for r in recs if r["unit_category"] == "expected" and int(r["reporting"]) == 0)
    unx = sum(1 for r in recs if r["unit_category"] != "expected")
    return non >= 1 and unx >= 1


def parse_bool_list(r):
    vals = r.strip().strip("[]").split(";")
    return [v.strip() for v in vals if v.strip()]


def run_family(chk, worker, jobs, rule, classify, min_ok_frac=0.25, shard=6, extra_assumptions=None):
    """Common driver: proofs, run workers, evaluate their Gallina checks, reconcile with the S oracle."""
    import json
    import random

    from harness import gen

    prop = chk.prop
    ok, rep = chk.proofs()
    chk.assumptions += extra_assumptions or []
    outs = core.pmap(worker, jobs)
    exprs, idx = [], []
    n_ok = 0
    for j, o in enumerate(outs):
        chk.count(o["fp"], nontrivial=o["nontrivial"], sample=o.get("sample"))
        n_ok += 1 if o["ok"] else 0
        for k, e in enumerate(o["exprs"]):
            exprs.append(e)
            idx.append((j, k))
    res, errs = core.coq_eval(prop, o_imports(outs), exprs, shard=shard, timeout=900) if exprs else ([], [])
    mismatch = {}
    for (j, k), r in zip(idx, res):
        labels = outs[j]["labels"][k]
        if r is None:
            mismatch.setdefault(j, []).append(("coq-eval-failed", (errs or ["?"])[0][-300:]))
            continue
        for lab, v in zip(labels, parse_bool_list(r)):
            if v != "true":
                mismatch.setdefault(j, []).append((lab, v))
    for j, o in enumerate(outs):
        replay = {"kind": "gen_case", "seed": o["seed"], "kw": o["kw"]}
        if "stream" in o:
            replay["stream"] = o["stream"]
        case = None
        for f in o["s"]:
            if case is None:
                case = gen.gen_case(random.Random(o["seed"]), **o["kw"]) if o.get("regen", True) else {}
            chk.violation(f["what"], replay, classify(f, case))
        for pr in o["problems"]:
            chk.violation(f"non-finite or fractional value in a returned table: {json.dumps(pr, default=str)[:200]}", replay, {"kind": "non-whole"})
        if j in mismatch and not o["s"] and not o["problems"]:
            chk.violation(f"implementation output differs from the model's ({mismatch[j][:3]}) although the {prop} predicate holds on this output",
                          dict(replay, correspondence=f"comparators of coq/Model for {prop}: " + str(mismatch[j][:3])), {"kind": "model-diff"}, no_input=True)
    if n_ok < max(3, int(len(outs) * min_ok_frac)):
        chk.violation(f"only {n_ok} of {len(outs)} generated runs completed; {prop} cannot be evaluated",
                      {"kind": "coverage", "excs": [o["exc"] for o in outs if not o["ok"]][:5]}, {"kind": "coverage"}, no_input=True)
    if not ok and not [v for v in chk.violations if not v["no_input"]]:
        chk.violation(f"proof obligations of {prop} no longer check", {"theorem_file": f"coq/Properties/{prop}.v", "log": rep.get("log_tail", "")[-1500:],
                                                                      "translator": chk.notes.get("translator_problems")}, {"kind": "proof-broken"}, no_input=True)
    return chk.finish(rule, extra={"runs_completed": n_ok, "runs_raised": len(outs) - n_ok, "coq_checks": len(exprs),
                                   "raised_kinds": sorted({(o["exc"] or ["?"])[0] for o in outs if not o["ok"]})})


def o_imports(outs):
    for o in outs:
        if o.get("imports"):
            return o["imports"]
    return IMPORTS


FINAL_NAME = {"postal_code": "state_data", "county_fips": "county_data", "district": "district_data", "county_classification": "classification_data", "unit": "unit_data"}


def final_vs_estimates(case, h):
    """the tables the caller receives (final_results) carry, cell for cell, the numbers the models handed to the results handler, for every estimand:
    returns a list of differences (empty = equal)"""
    out = []
    p = case["params"]
    for agg in p["aggregates"]:
        name = FINAL_NAME.get(agg)
        final = h.get("final_tables", {}).get(name)
        if final is None:
            continue
        for e in p["estimands"]:
            src = h["unit"][e] if agg == "unit" else h["agg"].get(f"{e}|{agg}", {}).get("rows")
            if src is None:
                continue
            keycols = ["postal_code", "geographic_unit_fips"] if agg == "unit" else aggregate_list(case["office"], agg)
            fin = {}
            for r in final:
                fin.setdefault(tuple(str(r.get(c)) for c in keycols), r)
            for r in src:
                fr = fin.get(tuple(str(r.get(c)) for c in keycols))
                if fr is None:
                    out.append(f"{name}: no row for {[r.get(c) for c in keycols]}")
                    break
                bad = None
                for c, v in r.items():
                    if c in keycols or not isinstance(v, (int, float)) or isinstance(v, bool) or c not in fr or not c.endswith(e) and c != "reporting":
                        continue
                    w = fr[c]
                    if (v != v) != (w != w) or (v == v and abs(float(v) - float(w)) > 1e-12 * max(1.0, abs(float(v)))):
                        bad = (c, v, w)
                        break
                if bad:
                    out.append(f"{name} row {[r.get(c) for c in keycols]}: column {bad[0]} is {bad[2]} in the returned table, the model's number is {bad[1]}")
                    break
            if out:
                return out
    return out
