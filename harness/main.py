import argparse
import importlib
import json
import os
import sys
import traceback

from harness import core


def setup():
    tr = core.translate()
    if tr.get("problems"):
        print("translator problems:", tr["problems"])
    ok, out = core.build(None, timeout=3000)
    print(out[-3000:])
    bad = core.forbidden_scan()
    if bad:
        print("FORBIDDEN:", bad)
    return 0 if ok and not bad else 1


def main():
    ap = argparse.ArgumentParser()
    ap.add_argument("prop", nargs="?")
    ap.add_argument("--setup", action="store_true")
    ap.add_argument("--tier", default=os.environ.get("VERIF_TIER", "quick"))
    ap.add_argument("--replay")
    a = ap.parse_args()
    if a.setup:
        sys.exit(setup())
    tier = os.environ.get("VERIF_TIER") or a.tier
    if tier not in ("quick", "thorough"):
        tier = "quick"
    seed = int(os.environ.get("VERIF_SEED", "0"))
    prop = a.prop
    mod = importlib.import_module(f"harness.props.{prop.lower()}")
    chk = core.Check(prop, tier, seed)
    if a.replay:
        payload = json.load(open(a.replay))
        sys.exit(mod.replay(chk, payload))
    try:
        rc = mod.run(chk)
    except Exception:
        traceback.print_exc()
        chk.violation("check crashed: " + traceback.format_exc()[-800:], {"crash": True}, {"kind": "harness-crash"}, no_input=True)
        rc = chk.finish("crashed")
    sys.exit(rc)


if __name__ == "__main__":
    main()
