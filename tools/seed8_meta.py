#!/usr/bin/env python3
"""meta.json for the eighth round of independent seeded changes (two per property: 'a' a pandas / numpy semantics slip -- index alignment, merge how=, groupby order,
inclusive bounds, in-place arithmetic --, 'b' a Python-level state / control-flow slip -- state cached on self, mutable defaults, exhausted iterators, `or`-defaults)."""
import json
import os
import sys

sys.path.insert(0, os.path.dirname(os.path.abspath(__file__)))
from seed2_meta import parse  # noqa: E402

DESC = {
    "C01a": ("baseline / feed join how='inner' instead of 'left'", "zero policy, a baseline unit absent from the feed"),
    "C01b": ("county of an unexpected unit from split('_', 1)", "precinct-district ids"),
    "C02a": ("gaussian final merge how='left': a group with only nonreporting units loses its interval, later rows shift", "gaussian, a sub-state group without reporting units"),
    "C02b": ("aggregate interval loop reuses the stale alpha of the unit loop", ">= 2 levels"),
    "C03a": ("groupby(sort=False) in the nonreporting-votes helper: floor paired with another group by position", "gaussian, groups whose first-appearance order is not sorted, binding floor"),
    "C03b": ("fallback loop range(1, len(aggregate)): the all-units model is never attached", "gaussian, a state with fewer than 10 calibration units"),
    "C04a": ("population correction picked with idxmax() label used positionally", "any nonparametric run"),
    "C04b": ("correction cached per level with setdefault across estimands", ">= 2 estimands"),
    "C05a": ("residual columns joined on stale index labels after the non-modelled units are removed", "a non-modelled reporting unit that is not the last row"),
    "C05b": ("median solver kept on the model, coefficients accumulate: later estimands predicted with the first one's fit", ">= 2 estimands"),
    "C06a": ("in-place subtraction overwrites the stored draws: later levels use shifted draws", ">= 2 levels"),
    "C06b": ("early return before the +-0.001 step for non-top-level aggregates", "sub-state aggregate with a fully reported group"),
    "C07a": ("override of called contests' bounds guarded by mask.all() instead of any()", "a proper subset of contests called"),
    "C07b": ("call / stop lists wrapped in one-shot map iterators", "any call or stop list through the client"),
    "C08a": ("weights paired with contests by dictionary position", "a weight dictionary not in alphabetical order"),
    "C08b": ("summary frame of the previous call reused: agg_pred stale", "two summary calls on one client"),
    "C09a": ("strange-turnout rule with Series.between (inclusive)", "a turnout factor exactly on a limit"),
    "C09b": ("limits and threshold read with `or default`", "a configured lower limit of 0"),
    "C10a": ("excluded units removed from the outlier fits by index label instead of unit id", "a blocklisted reporting unit behind a below-threshold row"),
    "C10b": ("generator of result columns exhausted before the loop that hides outstanding units", "any historical evaluation with an outstanding unit"),
    "C11a": ("known sums aliased and added in place: unexpected units counted twice in the bounds of sub-state groups", "bootstrap, an unexpected unit in a county with reporting units"),
    "C11b": ("county of an unexpected unit = last id component", "precinct-district ids"),
    "C12a": ("live results no longer copied: derived columns land on the caller's frame", "one live frame object given to a margin run and then to a vote-count run"),
    "C12b": ("bootstrap seeds derived with hash() of a string", "gaussian, processes with different hash seeds"),
    "C13a": ("tables merged without 'reporting' (unit table on id + category)", ">= 2 estimands"),
    "C13b": ("calibration shuffle from one RandomState kept on the model", ">= 2 levels or estimands"),
    "C14a": ("gate on (n < minimums).all()", ">= 2 levels, n between the minimums"),
    "C14b": ("training fraction cached on the model", "nonparametric, ascending levels"),
    "C15a": ("gaussian final merge how='left'", "a group with only nonreporting units"),
    "C15b": ("recursive fit no longer forwards alpha: parent scales bootstrapped at the default level", "a level other than 0.9, a group below the threshold"),
    "C16a": ("'other' pooling through .loc with labels of a filtered frame", "dict-valued fixed effects, repeated index labels (concat)"),
    "C16b": ("sort key `position or len(order)`: the intercept (position 0) sorts behind the baseline margin terms", "a feature named baseline_normalized_margin"),
    "C17a": ("integer out= buffer truncates the re-scaled percentages", "integer turnout column"),
    "C17b": ("one shared error frame returned for every discarded unit", ">= 2 discarded units with different reasons in one frame"),
    "C18a": ("`in` on a pandas Series tests the index: every save flag False", "remote environment, any save_output"),
    "C18b": ("backslash continuation inside the key f-string: 16 spaces in every prediction key", "remote environment, results requested"),
    "C19a": ("timestamps assigned after concat by index label", ">= 2 downloaded versions"),
    "C19b": ("mutable default list as paging accumulator", "a second listing in the same process"),
    "C20a": ("retry passes the weights as a pandas Series", "any injected failure without regularisation"),
    "C20b": ("flag on the model: after one fallback all later fits run unnormalised and a second failure is fatal", "a failure that is not the last fit; two failures in one run"),
}


def main():
    first = parse("/root/seed8_eval.log")
    second = parse("/root/seed8_re.log")
    notes = json.load(open("/root/seed8_extra.json")) if os.path.exists("/root/seed8_extra.json") else {}
    for key in sorted(DESC):
        pid, v = key[:3], key[3]
        d = f"/verif/seeded/{pid}-8{v}"
        if not os.path.isdir(d):
            continue
        f, s = first.get(key), second.get(key)
        final = s or f
        concrete_first = bool(f and f.get("concrete"))
        caught_first = bool(f and any(c["violations"] > 0 for c in f["checks"]))
        caught_final = bool(final and any(c["violations"] > 0 for c in final["checks"]))
        meta = {"property": pid, "round": 8, "variant": v, "breaks": DESC[key][0], "needs_to_manifest": DESC[key][1],
                "source": "independent sub-agent given only the property text and a scratch worktree, asked for (a) a pandas / numpy semantics slip and "
                          "(b) a Python-level state / control-flow slip (eighth round)",
                "confirmed": {"demo_exit_clean_then_patched": (final or {}).get("demo"), "pinned_suite_with_patch": (final or {}).get("suite")},
                "first_pass": {"caught": caught_first, "with_concrete_replay": concrete_first, "checks": (f or {}).get("checks")},
                "final": {"caught": caught_final, "checks": (final or {}).get("checks"), "concrete_replays": (final or {}).get("concrete"),
                          "no_failing_input": (final or {}).get("noinput")}}
        if key in notes:
            meta["detection_note"] = notes[key]
        json.dump(meta, open(os.path.join(d, "meta.json"), "w"), indent=1)
        print(key, caught_first, caught_final, (final or {}).get("checks"))


if __name__ == "__main__":
    main()
