#!/usr/bin/env python3
"""meta.json for the tenth (short) round: eight properties, two changes each, again from a distance, with the ideas of rounds 7-9 listed as already used."""
import json
import os
import sys

sys.path.insert(0, os.path.dirname(os.path.abspath(__file__)))
from seed2_meta import parse  # noqa: E402

DESC = {
    "C01a": ("_get_expected_geographic_unit_fips returns the preprocessed ids", "drop policy, a baseline unit whose feed row lacks a result"),
    "C01b": ("client filters the live feed to the configured states", "a feed that covers more states than the configuration"),
    "C02a": ("ModelResultsHandler.add_unit_intervals widens unit intervals to contain the prediction (output copy only)", "nonparametric, a unit bound on the wrong side of its prediction"),
    "C02b": ("bootstrap get_unit_predictions floors the returned turnout at the counted two-party vote (internal vector untouched)", "a partially counted unit predicted below its count"),
    "C03a": ("exclusion rules applied one by one, final drop_duplicates removed", "a zero-baseline unit that is also blocklisted"),
    "C03b": ("ModelResultsHandler stores id-sorted copies of the unit frames", "baseline not sorted by unit id"),
    "C05a": ("ConfigHandler.get_estimand_baselines keeps a pointer only if it names another estimand", "baseline_pointer to a column that is not an estimand (dem -> dem_pres)"),
    "C05b": ("CombinedDataHandler zeroes the results of units at 0 % expected vote", "a unit at 0 % with votes above the swing value"),
    "C06a": ("Estimandizer.margin normalises by all votes cast", "bootstrap, sub-state aggregate, third-party votes"),
    "C06b": ("bootstrap get_aggregate_predictions keeps non-modelled units in classification tables", "county_classification aggregate, non-modelled units"),
    "C09a": ("Estimandizer.add_estimand_results always resets results_weights", "margin estimand, a feed that already carries results_margin, third-party votes"),
    "C09b": ("Estimandizer.add_weights floors the weights at 1", "a zero-baseline unit, vote-count estimand"),
    "C13a": ("zero-baseline exclusion looks at every requested estimand's baseline", "a unit with baseline_gop = 0, dem requested with and without gop"),
    "C13b": ("GaussianModel.fit sorts the caller's calibration frame in place", "gaussian, county_classification requested before postal_code"),
    "C15a": ("client passes the last level's unit intervals (and calibration data) to every level's aggregate call", "gaussian, >= 2 levels"),
    "C15b": ("ModelResultsHandler.add_unit_intervals sorts the unit frames in place", "gaussian, baseline not sorted by unit id"),
}


def main():
    first = parse("/root/seed10_eval.log")
    second = parse("/root/seed10_re.log")
    notes = json.load(open("/root/seed10_extra.json")) if os.path.exists("/root/seed10_extra.json") else {}
    for key in sorted(DESC):
        pid, v = key[:3], key[3]
        d = f"/verif/seeded/{pid}-10{v}"
        if not os.path.isdir(d):
            continue
        f, s = first.get(key), second.get(key)
        final = s or f
        concrete_first = bool(f and f.get("concrete"))
        caught_first = bool(f and any(c["violations"] > 0 for c in f["checks"]))
        caught_final = bool(final and any(c["violations"] > 0 for c in final["checks"]))
        meta = {"property": pid, "round": 10, "variant": v, "breaks": DESC[key][0], "needs_to_manifest": DESC[key][1],
                "source": "independent sub-agent given only the property text and a scratch worktree, asked for two edits outside the anchored functions, in the supporting "
                          "code they rely on (tenth round, eight properties, earlier ideas excluded)",
                "confirmed": {"demo_exit_clean_then_patched": (final or {}).get("demo"), "pinned_suite_with_patch": (final or {}).get("suite")},
                "first_pass": {"caught": caught_first, "with_concrete_replay": concrete_first, "checks": (f or {}).get("checks")},
                "final": {"caught": caught_final, "checks": (final or {}).get("checks"), "concrete_replays": (final or {}).get("concrete"),
                          "no_failing_input": (final or {}).get("noinput")}}
        if key in notes:
            meta["detection_note"] = notes[key]
        json.dump(meta, open(os.path.join(d, "meta.json"), "w"), indent=1)
        print(key, caught_first, caught_final, (final or {}).get("checks"))


if __name__ == "__main__":
    main()
