#!/usr/bin/env python3
"""meta.json for the seventh round of independent seeded changes (two per property: 'a' a classical one-token / one-line mutation, 'b' a refactoring,
vectorisation or clean-up that a reviewer could take for behaviour-preserving)."""
import json
import os
import sys

sys.path.insert(0, os.path.dirname(os.path.abspath(__file__)))
from seed2_meta import parse  # noqa: E402

DESC = {
    "C01a": ("unexpected / non-modelled units counted as reporting (reporting = 1 instead of 0)", "any unexpected or non-modelled unit"),
    "C01b": ("exclusion rules applied rule by rule, final drop_duplicates removed: a unit caught by two rules appears twice", "a unit meeting two exclusion reasons (both outlier models; zero baseline in a blocklisted state)"),
    "C02a": ("bootstrap aggregate turnout of reporting units read from results_weights instead of baseline_weights", "bootstrap, reporting units with turnout factor != 1"),
    "C02b": ("gaussian aggregate bounds reindexed onto the counted-votes frame: groups without a reporting unit dropped, intervals shifted onto other rows", "gaussian, a sub-state group none of whose units reports"),
    "C03a": ("nonparametric unit lower bound no longer floored at the counted votes", "nonreporting units with partial counts"),
    "C03b": ("gaussian aggregate floor moved after the merge, onto the reporting units' votes only", "gaussian, nonreporting units with partial counts"),
    "C04a": ("correction quantile alpha(1 - 1/n) instead of alpha(1 + 1/n)", "any nonparametric run"),
    "C04b": ("interval design matrix built from the unshuffled reporting units while residuals / weights come from the shuffled frame", "at least one feature or fixed effect"),
    "C05a": ("unit prediction floored at baseline + 1 instead of the partial count", "partial counts, or a negative swing"),
    "C05b": ("'if not historical' hoisted out of the per-estimand loop: every estimand gets the last estimand's baseline", ">= 2 estimands"),
    "C06a": ("clip of the bootstrapped margin draws deleted", "a lopsided nonreporting unit with a swing in the same direction"),
    "C06b": ("+-0.001 straddle only for the top-level aggregate", "sub-state aggregate with a fully reported group"),
    "C07a": ("stop-listed contest: lower bound replaced with the left threshold (+0.005) instead of the right one", "a stop-listed, uncalled, left-leaning contest"),
    "C07b": ("client passes one shared keyword dict to both model calls: stop_model_call never reaches the interval call", "any stop-listed contest through the client"),
    "C08a": ("per-contest bootstrap margins overwritten by every aggregate (guard on the top-level aggregate dropped)", "aggregates whose last non-unit level is not postal_code"),
    "C08b": ("national summary table built column-major under alpha-major names", ">= 2 levels, an uncertain summary, through the client's table"),
    "C09a": ("fit_margin_outlier_model / fit_turnout_outlier_model swapped in the client's get_units call", "the two switches set differently"),
    "C09b": ("expected units taken from the preprocessed file instead of the joined data", "drop policy, a baseline unit whose feed row has no results"),
    "C10a": ("already excluded units take part in the outlier models again", "a blocklisted reporting unit, outlier models on"),
    "C10b": ("historical client: reporting mask applied with Series.where (index alignment) instead of positionally", "feed rows in another order than the historical file"),
    "C11a": ("bootstrap lower-level aggregates: unexpected units' two-party votes added to the margin numerator", "an unexpected unit in a sub-state group"),
    "C11b": ("county / district of an unexpected unit from one str.split('_', n=1)", "precinct-district ids"),
    "C12a": ("GaussianModel seed default None", "gaussian without an explicit seed"),
    "C12b": ("contest-level effects drawn with numpy's global generator", "bootstrap, any seed"),
    "C13a": ("aggregate tables merged on the key columns without 'reporting'", ">= 2 estimands, any aggregate level"),
    "C13b": ("calibration shuffle drawn from one RandomState kept on the model", ">= 2 levels or estimands"),
    "C14a": ("gate uses <= instead of <", "exactly the minimum number of reporting units"),
    "C14b": ("training fraction memoised on the first level", "nonparametric, ascending levels"),
    "C15a": ("own fit only for groups with MORE than the threshold", "a group with exactly the threshold number of calibration units"),
    "C15b": ("anti-join keyed on the finest level only", "labels recurring across states"),
    "C16a": ("per-state feature copies for every listed state, reporting or not", "states_for_separate_model with a state without reporting units"),
    "C16b": ("active levels read from the kept raw categorical columns", "dict-valued fixed effects with an 'other' pool"),
    "C17a": ("before the first observation the first BATCH margin is used", "first version already holds votes"),
    "C17b": ("batch margins vectorised over the whole frame, shift(-1) not grouped", ">= 2 units interleaved in time"),
    "C18a": ("conformalization files written when 'results' is requested", "gaussian, save_output=['results']"),
    "C18b": ("live-results upload moved behind the not-enough-units gate", "remote environment, too few reporting units"),
    "C19a": ("VersionId no longer passed to the download", ">= 2 sampled versions with different content"),
    "C19b": ("window filter applied per page before the paging decision", "end date, a first page entirely newer than it"),
    "C20a": ("retry drops lambda_", "lambda_ > 0"),
    "C20b": ("lower and upper bound fitted by one solver call; the retry appends rows again", "lambda_ > 0, failure at the second quantile of the call"),
}


def main():
    first = parse("/root/seed7_eval.log")
    second = parse("/root/seed7_re.log")
    notes = json.load(open("/root/seed7_extra.json")) if os.path.exists("/root/seed7_extra.json") else {}
    for key in sorted(DESC):
        pid, v = key[:3], key[3]
        d = f"/verif/seeded/{pid}-7{v}"
        if not os.path.isdir(d):
            continue
        f, s = first.get(key), second.get(key)
        final = s or f
        concrete_first = bool(f and f.get("concrete"))
        caught_first = bool(f and any(c["violations"] > 0 for c in f["checks"]))
        caught_final = bool(final and any(c["violations"] > 0 for c in final["checks"]))
        meta = {"property": pid, "round": 7, "variant": v, "breaks": DESC[key][0], "needs_to_manifest": DESC[key][1],
                "source": "independent sub-agent given only the property text and a scratch worktree, asked for (a) a classical one-token / one-line mutation and "
                          "(b) a refactoring gone wrong (seventh round)",
                "confirmed": {"demo_exit_clean_then_patched": (final or {}).get("demo"), "pinned_suite_with_patch": (final or {}).get("suite")},
                "first_pass": {"caught": caught_first, "with_concrete_replay": concrete_first, "checks": (f or {}).get("checks")},
                "final": {"caught": caught_final, "checks": (final or {}).get("checks"), "concrete_replays": (final or {}).get("concrete"),
                          "no_failing_input": (final or {}).get("noinput")}}
        if key in notes:
            meta["detection_note"] = notes[key]
        json.dump(meta, open(os.path.join(d, "meta.json"), "w"), indent=1)
        print(key, caught_first, caught_final, (final or {}).get("checks"))


if __name__ == "__main__":
    main()
