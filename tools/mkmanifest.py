#!/usr/bin/env python3
"""Writes /verif/MANIFEST.json from the table below; a property is claimed iff harness/props/<id>.py exists."""
import json
import os

HERE = os.path.dirname(os.path.dirname(os.path.abspath(__file__)))

COMMON_NOTE = ("Trusted: Coq 8.16.1 kernel + VM (vm_compute), no native_compute, no extraction, no axioms declared; "
               "tools/translate.py; the correspondence harness (generators, float.hex->Q encoder, shard runner; comparators are Gallina); "
               "the hand-written Gallina model is tied to /repo/src by the correspondence runs of every check run. ")

P = {
    "C14": dict(
        text="Unbounded theorems over Q (all levels a in (0,1), all n >= minimum): >=1 training row, >=1 calibration row, quantile level < 1; gate iff; "
             "gaussian split; the source formulas (minimum, training fraction, training rows, quantile level) are re-translated from /repo/src on every "
             "run and proved equal to the model for all arguments. Correspondence: full grid of levels k/1000 x n, end-to-end runs at minimum-1/minimum/minimum+k per estimator.",
        note="Solver totality on non-empty data is an oracle assumption; Python round(x,2) modelled as round-half-even of the exact value.",
        tech="Coq proof over Q (nra/lra) + generated-formula equivalence lemmas + exhaustive grid correspondence + end-to-end gate runs",
        ref="DESIGN.md section 5 C14"),
    "C01": dict(
        text="Unbounded theorems about the executable model of the two outer joins (any rows, any aggregate list, any key): counted votes / reporting count of every group = sum over exactly its attributable units, group set = groups of attributable units, each once, column total = total of attributable keyed units. Correspondence: every aggregate frame and the unit id set of generated elections, all three estimators, compared inside Coq; statement re-evaluated on the output to produce replays.",
        note="Unit categories are taken from the implementation's unit table (C09 decides them); pandas groupby/merge/sort semantics as modelled in Base/Frame.v.",
        tech="Coq proof by induction over the unit rows (group-by/outer-join library) + differential correspondence against get_estimates",
        ref="DESIGN.md section 5 C01"),
    "C02": dict(
        text="Theorems: prediction = counted + sum of nonreporting predictions; the same for both bounds (nonparametric); coarse level = sum of the finer level's rows (levels agree) under explicit well-keyedness; interval columns share the key column of the prediction frame; bootstrap vectors assigned by position are aligned once contest order = frame order (pre-repair order refuted by a witness). Correspondence on all three estimators incl. prefix district ids.",
        note="Unit-level numbers come from the implementation's unit table; bootstrap float sums compared at 1e-9/1e-6 relative.",
        tech="Coq proof (sum partition lemma, positional-assignment lemma) + differential correspondence",
        ref="DESIGN.md section 5 C02"),
    "C03": dict(
        text="Theorems for every rational regression output and correction: rounded unit value >= counted votes; reported/unexpected/non-modelled units final; aggregate floors (nonparametric) and for every (lb, ub) the gaussian vote-space step; zero-width rows. Correspondence with captured raw predictions and with a stub solver returning adversarial dyadic values.",
        note="Raw solver outputs and gaussian (lb, ub) are oracle inputs; tie guard of 1e-6 around .5.",
        tech="Coq proof over Q (round-half-even lemmas) + capture/stub-solver correspondence",
        ref="DESIGN.md section 5 C03"),
    "C11": dict(
        text="Theorems (any rows, aggregate list, group, level): appending one row to the unexpected frame changes counted votes, prediction and both bounds of a group by exactly the unit's votes iff the unit is attributable to that group, leaves the reporting count alone, enlarges the group set by at most its own key, creates a new group with every column = its votes; bootstrap numerator/denominator likewise. Correspondence: paired runs with/without the extra feed row, delta checked inside Coq (check_delta) and by a statement oracle; 'never fails' = the second run completes whenever the first does.",
        note="Bootstrap float tables: 'unchanged' = equal within 1e-9 relative; four input classes are recorded known findings (F10b, F11, F14, F15).",
        tech="Coq proof (additivity of group sums over appended rows) + paired-run differential correspondence",
        ref="DESIGN.md section 5 C11"),
    "C09": dict(
        text="Theorems for every baseline, feed, blocklist, limits, policy and every outcome of the outlier models: the procedural pipeline (filters, isin, concat, drop_duplicates keep-first, written as the code is) gives each joined unit the category and reporting flag of the ordered decision table; used-for-fit iff the documented conjunction with strict limits; units below threshold predicted; turnout factor = quotient, 0 when the denominator is 0; every unit exactly once (partition). Correspondence: get_units on boundary-heavy elections with captured outlier flags, and the complete single-unit decision table (480 probes, stubbed outlier model, both policies) every run.",
        note="Outlier-model flags are oracle inputs; the join on (postal_code, unit id) is modelled for feeds whose ids keep one state.",
        tech="Coq proof (keyed-list lemmas: first-occurrence dedup, filters under unique ids) + exhaustive decision-table enumeration + differential correspondence",
        ref="DESIGN.md section 5 C09"),
    "C20": dict(
        text="Generated facts (both fit calls of fit_model, the except tuple, the warnings filter, the installed solver's signature) re-derived at every run and decided by computation: the retry is accepted by the signature and gives every parameter the first attempt's argument except normalize_weights=False. Control-flow theorems for every solver behaviour: caught failure -> result of the un-normalised solve; a fault at any position leaves every other fit untouched. Fault enumeration: every fit position x both failure kinds, run completes with the fault-free tables.",
        note="Solver is an oracle (faults injected by wrapping QuantileRegressionSolver.fit); equality of tables at 1e-6 relative.",
        tech="Coq: computation on translator-generated call shapes + control-flow theorems; exhaustive fault enumeration against get_estimates",
        ref="DESIGN.md section 5 C20"),
    "C18": dict(
        text="Decision-function model writes(cfg) with theorems for every configuration (nothing requested -> nothing written; remote results iff requested and not local, one Put per table; live results before the gate even when it fails; conformalization iff requested+gaussian; data/config local only). Generated facts (every S3 key f-string template, the guard around every write call, position relative to the gate, the save flags) re-derived each run and decided by computation. Correspondence: the full finite space of 192 configurations against a fake boto3 client, every run.",
        note="boto3 replaced by a recording fake; transport outside the model.",
        tech="Coq: theorems on the decision function + computation on translator-generated templates/guards; exhaustive configuration enumeration",
        ref="DESIGN.md section 5 C18"),
    "C17": dict(
        text="Theorems over Q for every history: each whole percent p>=1 gets a convex combination (weight = observed percent / p) of the last observed margin and the next batch margin, within [-1,1]; before the first observation = first observed margin; p=0 -> 0; domain 0..floor(latest percent); correction = final - imputed; irregular (non-monotone or impossible batch) <-> 101 all-missing rows with the error type; a missing or distant correction never enters the extrapolation mean. Correspondence: generated histories (all irregularity kinds, int and float columns) through compute_versioned_margin_estimate, frames compared inside Coq.",
        note="Exact-rational model of binary64 inputs, 1e-9 relative; percents coinciding with a re-scaled observation are not compared (counted); the extrapolation filter is modelled from source text only.",
        tech="Coq proof over Q (field/nra) + differential correspondence on generated version histories",
        ref="DESIGN.md section 5 C17"),
    "C19": dict(
        text="Theorems for every page list (any number and size of pages), every window incl. open-ended ones: under the S3 listing contract (newest first; every page but the last truncated and non-empty) the recursive paging with early stop equals the plain filter of the whole listing; no version twice; sampling picks positions 0,k,2k,..; retrieval returns the sampled versions minus failed downloads, each stamped with its own time, and 'no data' for an empty window. Correspondence against a scripted fake service (page sizes 1..N+1, windows on and between timestamps, ties, steps 1-4, failure subsets).",
        note="Storage service and transport are a scripted fake; induction is over the page list.",
        tech="Coq proof by induction over the page list (StronglySorted listing) + scripted-service differential correspondence",
        ref="DESIGN.md section 5 C19"),
    "C06": dict(
        text="Unbounded theorems over Q: for every level in (0,1) and every B>=2 the quantile ranks satisfy 0<=lower<=upper<=B and are nested by level; the source's _get_quantiles formula (re-translated each run) equals the model for all arguments; linear-interpolation quantiles are monotone on sorted draws, hence unit lower<=upper and nesting for every draw matrix; aggregate bounds straddle the prediction strictly and are nested; clipping and the turnout-weighted average keep margins in [-1,1]. Correspondence: rank grid, injected draw matrices (exact quantile model), API runs.",
        note="Draw matrices are oracle inputs; the interior of compute_bootstrap_errors is not modelled (its clipping steps are, as hypotheses of C06_margin_range).",
        tech="Coq proof over Q (floor/ceil arithmetic, piecewise-linear quantile monotonicity) + grid/injection/API correspondence",
        ref="DESIGN.md section 5 C06"),
    "C07": dict(
        text="Theorems for every prediction and every pair of bounds: called left -> prediction >= +0.005 and (unless stop-listed) lower >= 0; called right symmetric; stop-listed and not called -> interval contains 0; neither -> unchanged; the call lists are rejected iff a contest is named for both parties or is not modelled. Correspondence: the complete abstraction table (750 cells covering the 162 sign cells) on a real model object at two levels every run, generated call lists, API runs on state and district contests.",
        note="Draw matrices are oracle inputs (injected).",
        tech="Coq proof by case analysis over the four np.where steps + exhaustive table enumeration + differential correspondence",
        ref="DESIGN.md section 5 C07"),
    "C08": dict(
        text="Theorems in both correlation modes, for every level, every draw matrix and every column the argsort may pick: lower <= prediction <= upper, within [base, base+total weight], prediction = base + weights of contests with positive margin, called contests neutral, wrong-size weights rejected; state-machine theorem: the summary reads the contests of the latest top-level aggregate computation whatever finer aggregates were computed around it. Correspondence: injected margins incl. the opposite-side shape, all op histories over {top, county, classification}, API runs with permuted aggregate lists.",
        note="Draw matrices are oracle inputs; argsort tie-breaking in the uncorrelated mode is not modelled (theorems hold for every choice).",
        tech="Coq proof (sum bounds over contests, fold invariant over op histories) + injection / history correspondence",
        ref="DESIGN.md section 5 C08"),
    "C04": dict(
        text="Theorems for every calibration set (any scores, any non-negative weights, ties, negative corrections) and every level: inside the widened interval iff score <= correction; the correction's weighted share exceeds q and no smaller value's does; it exists whenever q < 1; robust >= both corrections; the step to vote space never pushes an integer truth outside; the source's quantile level is alpha(1+1/n_cal). The probabilistic clause is proved as its finite counting core: among N scores at least alpha*N are covered by the correction computed from the other N-1 (ties included), for every alpha with alpha*N < N-1. Correspondence: direct calls of the weighted-correction routine incl. exact ties, full runs with captured fits.",
        note="Lower/upper fits are oracle inputs; coverage probability follows from the counting theorem only under exchangeability and equal baseline size (an assumption of the property).",
        tech="Coq proof (weighted-quantile invariant, counting argument over multisets) + differential correspondence with captured solver output",
        ref="DESIGN.md section 5 C04"),
    "C05": dict(
        text="Theorems: a point with less than half the weight strictly on either side is the unique minimiser of the weighted absolute loss; hence for EVERY solver returning a minimiser of the intercept-only median fit the coefficient is the weighted median m and each nonreporting unit is predicted at rhe(max((1+m)*baseline, partial count)). Correspondence: runs without features; m computed inside Coq from the raw input; captured coefficient and every prediction compared; non-unique medians generated on purpose.",
        note="Solver optimality is an oracle assumption, checked per run on the captured coefficient.",
        tech="Coq proof (convexity argument on weighted absolute loss) + differential correspondence",
        ref="DESIGN.md section 5 C05"),
    "C16": dict(
        text="Theorems for every frame, every set of fixed effects / selected levels / distribution of levels over unit categories: fitting and prediction rows have the columns of active_features in the same order (intercept first, baseline-margin terms next, stable); every fitted dummy column takes both 0 and 1 on the fitting rows; exactly one observed level per effect is absorbed; seen level -> its indicator (all zeros for the absorbed one); unseen level -> 1/(k+1) on each of the k fitted levels; centred features have mean 0; unselected levels pool into 'other'; per-state copies only for states with reporting units. Correspondence at the Featurizer API with the callers' positional slices, plus a caller-level stream on the matrices handed to the solver.",
        note="Effect names prefix-free (hypothesis); caller-level finding F12 recorded.",
        tech="Coq proof (NoDup / first-observed-level arguments on sorted distinct levels) + differential correspondence on every matrix entry",
        ref="DESIGN.md section 5 C16"),
    "C15": dict(
        text="Theorem for every group structure and every number of aggregate levels: the recursion of GaussianModel.fit followed by the matching loop gives each group with outstanding units exactly the calibration set named by the rule (own group if it holds >= min(10, all) calibration units, else its parent's, ..., else all), never a sibling's; the bounds are the summed unadjusted bounds shifted by the normal quantile at (3+alpha)/4 of the aggregated centre and scale. Correspondence: gaussian runs with captured calibration frames / matched model rows; the level used is identified through recomputed statistics and compared inside Coq with assign/rule.",
        note="_fit statistics, norm.ppf and scipy bootstrap are oracles; indistinguishable candidate levels all accepted.",
        tech="Coq proof by induction over aggregate levels (first-match lookup lemmas) + differential correspondence via calibration fingerprints",
        ref="DESIGN.md section 5 C15"),
    "C13": dict(
        text="Theorem: merging the per-estimand frames of any duplicate-free list of estimands keeps every key / category column once and un-suffixed whenever the shared columns are all merge keys; generated facts (merge key lists, column lists of the per-estimand frames, inner merges) re-derived from the source each run and decided by computation; per-level cache theorem for the gaussian estimator (an aggregate computation for level a reads level a's bounds whatever other levels were requested). Request independence of the implementation itself is decided by paired runs differing only in the other requested levels / aggregates / estimands, compared bit for bit, all three estimators.",
        note="Independence of the numeric pipeline from the rest of the request is a property of shared mutable state in the implementation: decided by the paired-run correspondence, not by a theorem about a functional model (which would be vacuous).",
        tech="Coq proof (pandas merge-suffix model, assoc-list cache) + computation on generated merge facts + paired-run differential correspondence",
        ref="DESIGN.md section 5 C13"),
    "C10": dict(
        text="Theorems for EVERY outlier model and EVERY estimator (arbitrary functions): replacing the row of a unit that is below the threshold, blocklisted or zero-baseline by other counts changes neither the outlier flags nor the set of rows any fit sees, hence no fitted quantity; the fitting rows are those of the C09 decision table; in the bootstrap a partial count only clips the same unit's draws; the historical frame does not depend on hidden results. Correspondence: paired perturbation runs with the arguments of every solver fit captured and compared bit for bit, every other unit row and every aggregate row of groups not containing the unit compared bit for bit, all three estimators; historical frame pairs.",
        note="Partial for the bootstrap: the interior of compute_bootstrap_errors (strata distributions, PIT, multivariate samplers) is not modelled beyond 'a function of the fitting rows and the seeded generator'; that part rests on the paired runs.",
        tech="Coq proof (non-interference of a composed functional model, solver and outlier model universally quantified) + paired-run differential correspondence with solver-argument capture",
        ref="DESIGN.md section 5 C10"),
    "C12": dict(
        text="Generated facts re-derived from the source each run and decided by computation: every randomness site on the estimate path (new generators, generator methods, DataFrame.sample, scipy bootstrap incl. through function parameters) is built from the seed setting; get_estimates reads no client field before writing it; every self.model assignment constructs a fresh model. Theorems: all sites seeded -> result independent of process-global generator state; no read-before-write -> result independent of the client's history; the summary depends on the latest estimate run only. Correspondence: bit-for-bit paired executions (same/fresh client, after other calls, perturbed global generators, PYTHONHASHSEED 0/1/4242 in subprocesses), all three estimators, national summary.",
        note="Partial: thread-level nondeterminism of BLAS/HiGHS and iteration order effects are outside the model; they would surface in the paired executions. numpy/scipy generator algorithms are oracles.",
        tech="Coq: computation on translator-generated randomness / state-access facts + determinism theorems; paired-execution differential correspondence",
        ref="DESIGN.md section 5 C12"),
}

REASON_NOT_BUILT = "check not built yet in this development stage (planned: see DESIGN.md section 5)"


def main():
    props = [json.loads(l)["id"] for l in open(os.path.join(HERE, "properties.jsonl"))]
    checks = []
    na = []
    for pid in props:
        mod = os.path.join(HERE, "harness", "props", pid.lower() + ".py")
        if pid in P and os.path.exists(mod):
            e = P[pid]
            checks.append({
                "property_id": pid,
                "quick_cmd": f"bin/check {pid} --tier quick",
                "thorough_cmd": f"bin/check {pid} --tier thorough",
                "evidence_file": f"/verif/evidence/{pid}.json",
                "replay_cmd_template": f"bin/check {pid} --replay {{path}}",
                "engine": "coq-proofs+correspondence",
                "level_claimed": {"category": "proof", "text": e["text"], "design_ref": e["ref"]},
                "level_note": COMMON_NOTE + e["note"],
                "technique": e["tech"],
            })
        else:
            na.append({"property_id": pid, "reason": P.get(pid, {}).get("na", REASON_NOT_BUILT)})
    m = {
        "version": 1,
        "setup_cmd": "bin/check --setup",
        "hooks": {
            "guard": "ELEXMODEL_VERIF",
            "enable": "no hooks in /repo: every capture point is reached by wrapping public callables from the harness process (bin/check exports ELEXMODEL_VERIF=1, nothing in /repo reads it)",
            "baseline_off_cmd": "bin/baseline",
            "source_commits": [],
            "add_only": True,
        },
        "engines": [
            {"name": "coq-proofs", "path": "coq/", "serves_properties": [c["property_id"] for c in checks], "kind_free_text": "Gallina models, lemmas, property theorems; Coq 8.16.1"},
            {"name": "translator", "path": "tools/translate.py", "serves_properties": [c["property_id"] for c in checks], "kind_free_text": "Python ast -> coq/Gen/*.v, fail-closed"},
            {"name": "correspondence", "path": "harness/", "serves_properties": [c["property_id"] for c in checks], "kind_free_text": "implementation vs model on generated inputs, compared inside Coq; search oracle for replays"},
        ],
        "checks": checks,
        "not_applicable": na,
        "notes": "Technique family: machine-checked proof in Coq 8.16.1. See DESIGN.md (trusted base: section 6; known findings: known_findings.json).",
    }
    with open(os.path.join(HERE, "MANIFEST.json"), "w") as fh:
        json.dump(m, fh, indent=1)
    print("claimed", [c["property_id"] for c in checks], "not_applicable", len(na))


if __name__ == "__main__":
    main()
