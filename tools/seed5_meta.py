#!/usr/bin/env python3
"""meta.json for the fifth round of independent seeded changes (one per property, made in a helper / base class / utility / glue function
the property depends on, not in the anchored functions)."""
import json
import os
import sys

sys.path.insert(0, os.path.dirname(os.path.abspath(__file__)))
from seed2_meta import parse  # noqa: E402

DESC = {
    "C01": "CombinedData._get_expected_geographic_unit_fips reads the preprocessed frame: a baseline unit in the feed without results vanishes under 'drop'",
    "C02": "BootstrapElectionModel.get_unit_predictions floors the returned unit turnout at the counted votes; the aggregates still use the unfloored attribute",
    "C03": "BaseElectionModel._get_nonreporting_aggregate_votes: groupby(sort=False) -- the gaussian floor pairs rows by position",
    "C04": "CombinedData.get_units: residual columns built by assign(**{... lambda ...}) closing over the loop variable (every estimand gets the last one's residuals)",
    "C05": "ModelResultsHandler.__init__ sorts its unit frames; predictions are then assigned by row label onto re-ordered frames",
    "C06": "BootstrapElectionModel.get_aggregate_predictions floors the aggregate turnout at the counted votes; the interval centre below contest level is not floored",
    "C07": "BaseElectionModel.get_aggregate_predictions sorts aggregate rows in natural order (1, 2, 10); call / stop vectors are in string order",
    "C08": "client drops called / stop-listed contests 'not in the data', matching on postal_code: every call of a district office is discarded",
    "C09": "Estimandizer.add_estimand_results always resets results_weights to the turnout: a feed that already carries two-party weights (mock live data handler) loses them",
    "C10": "BaseElectionModel._get_nonreporting_aggregate_votes: groupby(as_index=False, sort=False) -- a partial count floors another group's gaussian bounds",
    "C11": "CombinedDataHandler.__init__ drops feed rows of states without baseline units",
    "C12": "GaussianModel bootstrap seed derived with hash() of a tuple containing strings (salted per process)",
    "C13": "BaseElectionModel.__init__ stores a RandomState object as the seed: the calibration split of the k-th call depends on the calls before it",
    "C14": "GaussianModel group-size threshold hoisted to a module constant 10: infinite recursion with fewer than 10 calibration units",
    "C15": "BaseElectionModel._get_nonreporting_aggregate_votes unsorted: each group is floored with another group's counted votes",
    "C16": "Featurizer.__init__ stores the selected levels as str(): nothing matches on a numeric column, every level is pooled into 'other'",
    "C17": "VersionedDataHandler.get_versioned_results drops 'repeated' versions (whole-history drop_duplicates): reverts disappear before the estimate is computed",
    "C18": "CombinedDataHandler stores geographic_unit_type.split('-'): live-results keys interpolate a list",
    "C19": "S3VersionUtil.make_request gets a shared mutable default extra_args: the first VersionId sticks, every download fetches the same version",
    "C20": "logger.initialize_logging installs a catch-all 'default' warnings filter in front of the library's 'error' filters: the inaccuracy warning is logged, not retried",
}

NOTES = {
    "C04": "missed at first (captured calibration frame was internally consistent); caught by C04 (residual-def: the calibration residuals must be the units' own relative changes for that estimand)",
    "C06": "missed at first; caught by C06 (agg-straddle) after the turnout-surge county family (all precincts 85-95% in with factor 1.4-1.7) was added",
    "C07": "missed at first; caught by C07 after district runs use all four ids (1, 10, 2, 3) and contests that are neither called nor stop-listed are compared with the run without calls",
    "C08": "missed at first (no district office in C08's client stream); caught by C08 (called) with the all-contests-called stream for state and district offices, and by C07",
    "C09": "missed at first; caught by C09 after the prepared-feed family (derived margin columns, no raw party counts, as the mock live data handler hands over) was added",
    "C16": "missed at first; caught by C16 after a numeric fixed-effect column ('ward', integer levels and selections) was added",
    "C17": "missed at first (the stream called compute_versioned_margin_estimate(data=...) only); caught by C17 through the handler's own path (in-memory version store -> get_versioned_results -> compute)",
    "C18": "missed at first (keys were classified by suffix; ['county'] holds no whitespace); caught by C18 (bad-key) with the exact layout <root>/<election>/<kind>/<office>/<unit type>/... and plain segments",
}


def main():
    first = parse("/root/seed5_eval.log")
    second = parse("/root/seed5_re.log")
    for pid in sorted(DESC):
        d = f"/verif/seeded/{pid}-5a"
        if not os.path.isdir(d):
            continue
        f, s = first.get(pid + "a"), second.get(pid + "a")
        final = s or f
        caught_first = bool(f and any(c["violations"] > 0 for c in f["checks"]))
        caught_final = bool(final and any(c["violations"] > 0 for c in final["checks"]))
        meta = {"property": pid, "round": 5, "variant": "a", "breaks": DESC[pid],
                "source": "independent sub-agent given only the property text and a scratch worktree, asked to make the change in a helper / base class / utility / glue "
                          "function the property depends on rather than in the anchored functions (fifth round)",
                "confirmed": {"demo_exit_clean_then_patched": (final or {}).get("demo"), "pinned_suite_with_patch": (final or {}).get("suite")},
                "first_pass": {"caught": caught_first, "checks": (f or {}).get("checks")},
                "final": {"caught": caught_final, "checks": (final or {}).get("checks"), "concrete_replays": (final or {}).get("concrete"),
                          "no_failing_input": (final or {}).get("noinput")}}
        if pid in NOTES:
            meta["detection_note"] = NOTES[pid]
        json.dump(meta, open(os.path.join(d, "meta.json"), "w"), indent=1)
        print(pid, caught_first, caught_final, (final or {}).get("checks"))


if __name__ == "__main__":
    main()
