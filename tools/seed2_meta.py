#!/usr/bin/env python3
"""Writes seeded/<Cxx>-2<v>/meta.json for the second round of independent seeded changes from the two evaluation logs
(first pass: checks as they were when the sub-agents delivered; second pass: after the checks were strengthened)."""
import json
import os
import re
import sys

DESC = {
    "C01a": ("duplicates among non-modelled units no longer removed after the outlier models: a unit flagged by both outlier models has two rows and is double counted",
             "bootstrap / margin, both outlier models on, a unit that is an outlier in turnout and in margin"),
    "C01b": ("live feed restricted to the office's configured states: feed units of other states vanish from every table",
             "a feed unit whose postal_code is not in the configured states"),
    "C02a": ("nonparametric per-aggregate sums cached under a key without the interval level: later levels reuse the first level's sums",
             "nonparametric, >= 2 interval levels, a nonreporting unit"),
    "C02b": ("safe-denominator idiom written in place: all-zero groups are published with pred_turnout 1",
             "bootstrap, a county / district group whose units have no votes at all"),
    "C03a": ("gaussian aggregate floor applied against results_<estimand> of the merged table (reporting + unexpected only): partial counts of nonreporting units no longer floor the bounds",
             "gaussian, group whose nonreporting units' partial counts exceed the gaussian bounds"),
    "C03b": ("nonparametric 'never inverted' clamp before the counted-vote floor; floor kept for the lower bound only", "nonparametric, partial count above the raw upper bound"),
    "C04a": ("population correction picked with searchsorted(side='left'): >= instead of > on the cumulative weight", "cumulative weight of the k smallest scores exactly equal to the quantile (equal baselines)"),
    "C04b": ("bounds regressions fitted on all reporting units when the training split has fewer rows than design columns", "alpha 0.9, three features, 20-23 reporting units"),
    "C05a": ("quantile-regression weights floored at 1e-3 * max weight", "no covariates, weights spanning > 3 orders of magnitude with many tiny units"),
    "C05b": ("last_election_results_<estimand> only rebuilt when the column is absent: stale after the caller restates baselines in a re-used frame", "two polls on one baseline frame, baselines restated in between"),
    "C06a": ("in-place subtraction aliases the stored bootstrap draws: every level after the first sees doubly subtracted draws", "bootstrap, >= 2 interval levels"),
    "C06b": ("straddle guard applied only to collapsed intervals", "uncalled contest with nonreporting units, off-centre draws / narrow level"),
    "C07a": ("called contests only replaced when the prediction has the wrong sign (same idea as round 1)", "called contest with a right-signed prediction inside (0, 0.005)"),
    "C07b": ("client passes one shared race-call kwargs dict without stop_model_call", "stop-listed, uncalled contests, through ModelClient.get_estimates"),
    "C08a": ("independent-contests branch: potential losses / gains computed with != instead of > 0", "national_summary_correlation False, several toss-up contests"),
    "C08b": ("aggregate point prediction kept on the model for every aggregate and reused as interval centre", "a finer aggregate after the contest level in the aggregates list, then the national summary"),
    "C09a": ("eligibility settings read as model_parameters.get(name) or default: a configured 0 is replaced by the default", "turnout_factor_lower = 0 (or outlier threshold 0) through the client"),
    "C09b": ("_get_expected_geographic_unit_fips reads the preprocessed frame instead of the joined one", "handle_unreporting=drop and a baseline unit that is in the feed with missing (NaN) results"),
    "C10a": ("postal_code_blocklist omitted from the set kept out of the outlier-model fit", "multi-state, state blocklist, outlier models on, > 20 reporting units"),
    "C10b": ("gaussian aggregate: per-group frame replaced by the one carried in modeled_bounds, rows no longer in group order", "gaussian, sub-state aggregate, own-model and fallback groups, binding floor"),
    "C11a": ("county of an unexpected unit parsed with one split (n=1)", "precinct-district ids <district>_<county>_<precinct>, county_fips requested"),
    "C11b": ("bootstrap aggregate bounds below the contest level re-centred without the unexpected units", "bootstrap, county_fips aggregate, unexpected unit in a settled or new county"),
    "C12a": ("cross-validated lambda memoised in a module-level dict; a hit skips the generator's shuffle", "bootstrap without lambda_, two equal runs in one process"),
    "C12b": ("national summary: in-place arithmetic on the model's own divided_error_B_2", "two national-summary calls on one client (or several levels in one call)"),
    "C13a": ("one RandomState per model object instead of random_state=seed per call: later (estimand, level) calls get other splits", "nonparametric / gaussian, >= 2 levels or estimands"),
    "C13b": ("client loop split into two passes: the gaussian per-level bounds cache is overwritten by the last estimand before aggregation", "gaussian, >= 2 estimands, aggregate tables"),
    "C14a": ("minimum number of reporting units taken for the last requested level only", "nonparametric, levels not in increasing order"),
    "C14b": ("training fraction cached on first use and reused for later levels", "nonparametric, two increasing levels, n at / near the minimum"),
    "C15a": ("anti-join replaced by per-column isin: tuples are not matched as tuples", "multi-state, second-level labels that recur across states"),
    "C15b": ("own-model threshold written > instead of >=", "a group with exactly 10 calibration units next to a smaller sibling"),
    "C16a": ("reference level of a fixed effect taken from all expanded levels, not from the levels seen in fitting", "alphabetically first level only among nonreporting / unexpected units"),
    "C16b": ("_sort_features matches the special names exactly (same idea as round 1)", "states_for_separate_model with a reporting state, a second feature"),
    "C17a": ("expected-vote axis re-scaled by the maximum recorded percent instead of the latest", "history whose last percent is lower than an earlier one"),
    "C17b": ("guarded np.divide for the batch margin (same idea as round 1)", "two versions with equal total and a different split"),
    "C18a": ("live results written after the validation checks instead of before the minimum-units gate", "save_output=['results'], too few reporting units"),
    "C18b": ("conformalization keys built by a helper whose f-string carries indentation", "gaussian, 'conformalization' in save_output"),
    "C19a": ("paging continues only while the filtered page is non-empty (same family as round 1)", "end date with a first page entirely newer than it"),
    "C19b": ("except Exception narrowed to except ClientError around the downloads", "a download failing with any other exception"),
    "C20a": ("retry re-enters fit_model with weights already unwrapped: AttributeError inside the except branch", "any injected solver failure"),
    "C20b": ("lower and upper bounds fitted in one multi-quantile solver call", "a failure at the second quantile of the call: the first quantile's coefficients stay behind"),
}


def parse(path):
    res = {}
    if not os.path.exists(path):
        return res
    cur = None
    for line in open(path, encoding="utf-8", errors="replace"):
        m = re.match(r"^######## (C\d\d) ([ab])", line)
        if m:
            cur = m.group(1) + m.group(2)
            res[cur] = {"checks": [], "demo": [], "suite": None, "concrete": 0, "noinput": 0}
            continue
        if cur is None:
            continue
        m = re.match(r"^\[(C\d\d)\] .*theorems=(\d+)/(\d+) .*violations=(\d+)", line)
        if m:
            res[cur]["checks"].append({"check": m.group(1), "theorems": f"{m.group(2)}/{m.group(3)}", "violations": int(m.group(4))})
        if line.startswith("exit "):
            res[cur]["demo"].append(int(line.split()[1]))
        if line.startswith("VIOLATION"):
            res[cur]["noinput" if "no-failing-input-found" in line else "concrete"] += 1
        if line.startswith("== test suite WITH patch:"):
            res[cur]["suite"] = line.split(":", 1)[1].strip()
    return res


def main():
    first = parse("/root/seed2_eval.log")
    second = parse("/root/seed2_re.log")
    extra = json.load(open("/root/seed2_extra.json")) if os.path.exists("/root/seed2_extra.json") else {}
    rows = []
    for key in sorted(DESC):
        pid, v = key[:3], key[3]
        d = f"/verif/seeded/{pid}-2{v}"
        if not os.path.isdir(d):
            continue
        f, s = first.get(key), second.get(key)
        # the first pass is only conclusive for the seeds evaluated before the checks were edited (C01 .. C08)
        first_ok = f is not None and int(pid[1:]) <= 8
        caught_first = bool(first_ok and any(c["violations"] > 0 for c in f["checks"]))
        final = s or f
        caught_final = bool(final and any(c["violations"] > 0 for c in final["checks"]))
        meta = {"property": pid, "round": 2, "variant": v, "breaks": DESC[key][0], "needs_to_manifest": DESC[key][1],
                "source": "independent sub-agent given only the property text and a scratch worktree (second round, two changes per property)",
                "confirmed": {"demo_exit_clean_then_patched": (final or {}).get("demo"), "pinned_suite_with_patch": (final or {}).get("suite"),
                              "note": "in a scratch worktree two tests of the suite fail with and without any patch (directory name, pandas sampling); "
                                      "they are not among the 156 of the pinned baseline"},
                "first_pass": ({"caught": caught_first, "checks": f["checks"]} if first_ok else "evaluated only after the checks of this round were strengthened"),
                "final": {"caught": caught_final, "checks": (final or {}).get("checks"), "concrete_replays": (final or {}).get("concrete"),
                          "no_failing_input": (final or {}).get("noinput")}}
        if key in extra:
            meta["detection_note"] = extra[key]
        json.dump(meta, open(os.path.join(d, "meta.json"), "w"), indent=1)
        rows.append((key, caught_first if first_ok else None, caught_final))
    for r in rows:
        print(*r)


if __name__ == "__main__":
    sys.exit(main())
