"""Literal facts re-derived from /repo/src for C20 (retry call), C18 (persistence), C13 (merge keys), C12 (randomness sites)."""
import ast
import inspect
import os

from translate import HEADER, Untranslatable, attr_path, find_func, parse

STR_HDR = "From Coq Require Import List String Bool.\nImport ListNotations.\nOpen Scope string_scope.\n"


def cstr(s):
    s = str(s)
    if '"' in s:
        s = s.replace('"', "'")
    s = " ".join(s.split())
    return '"' + s + '"'


def clist(items):
    return "[" + "; ".join(items) + "]"


def call_shape(call, src):
    pos = [ast.get_source_segment(src, a) for a in call.args]
    kws = []
    for k in call.keywords:
        if k.arg is None:
            raise Untranslatable(f"UNTRANSLATABLE **kwargs in call at line {call.lineno}")
        kws.append((k.arg, ast.get_source_segment(src, k.value)))
    return pos, kws


def gen_retry(srcdir, problems):
    f = os.path.join(srcdir, "elexmodel/models/ConformalElectionModel.py")
    src, tree = parse(f)
    fn = find_func(tree, "ConformalElectionModel", "fit_model")
    if fn is None:
        raise Untranslatable(f"UNTRANSLATABLE {f}: fit_model not found")
    tries = [n for n in ast.walk(fn) if isinstance(n, ast.Try)]
    if len(tries) != 1:
        raise Untranslatable(f"UNTRANSLATABLE {f}:{fn.lineno} expected exactly one try statement in fit_model")
    t = tries[0]

    def fit_calls(stmts):
        out = []
        for s in stmts:
            for n in ast.walk(s):
                if isinstance(n, ast.Call) and isinstance(n.func, ast.Attribute) and n.func.attr == "fit":
                    out.append(n)
        return out

    first = fit_calls(t.body)
    if len(first) != 1 or len(t.handlers) != 1:
        raise Untranslatable(f"UNTRANSLATABLE {f}:{t.lineno} try/except shape")
    h = t.handlers[0]
    retry = fit_calls(h.body)
    if len(retry) != 1:
        raise Untranslatable(f"UNTRANSLATABLE {f}:{h.lineno} handler must contain exactly one fit call")
    if h.type is None:
        exc = ["BaseException"]
    elif isinstance(h.type, ast.Tuple):
        exc = [attr_path(e) or ast.get_source_segment(src, e) for e in h.type.elts]
    else:
        exc = [attr_path(h.type) or ast.get_source_segment(src, h.type)]
    p1, k1 = call_shape(first[0], src)
    p2, k2 = call_shape(retry[0], src)
    recv1 = ast.get_source_segment(src, first[0].func.value)
    recv2 = ast.get_source_segment(src, retry[0].func.value)
    # statements after the try inside fit_model (none expected) and anything that swallows the error
    filt = False
    by_text = False
    # the text of the inaccuracy warning and the way warnings are attributed, from the installed cvxpy
    inaccurate_text = "Solution may be inaccurate. Try another solver, adjusting the solver settings, or solve with verbose=True for more information."
    try:
        import cvxpy.utilities.warn  # noqa: F401  (present in the releases that attribute warnings to the calling module)

        to_caller = True
    except ImportError:
        to_caller = False
    import re as _re

    for n in tree.body:
        if isinstance(n, ast.Expr) and isinstance(n.value, ast.Call) and attr_path(n.value.func) == "warnings.filterwarnings":
            a = n.value
            if a.args and isinstance(a.args[0], ast.Constant) and a.args[0].value == "error":
                kw = {k.arg: ast.get_source_segment(src, k.value) for k in a.keywords}
                if kw.get("category") == "UserWarning" and kw.get("module") == '"cvxpy"' and "message" not in kw:
                    filt = True
                msg = [k.value for k in a.keywords if k.arg == "message"]
                if kw.get("category") == "UserWarning" and "module" not in kw and msg and isinstance(msg[0], ast.Constant) and isinstance(msg[0].value, str):
                    try:
                        if msg[0].value and _re.match(msg[0].value, inaccurate_text, _re.I):
                            by_text = True
                    except _re.error:
                        pass
    # the solver's signature, from the installed package
    try:
        from elexsolver.QuantileRegressionSolver import QuantileRegressionSolver as Q

        sig = inspect.signature(Q.fit)
        params = [(n, (repr(p.default) if p.default is not inspect._empty else "")) for n, p in sig.parameters.items() if n != "self"]
        varkw = any(p.kind == p.VAR_KEYWORD for p in sig.parameters.values())
    except Exception as e:  # noqa: BLE001
        raise Untranslatable(f"UNTRANSLATABLE solver signature: {e}")
    out = [HEADER, STR_HDR]
    out.append(f"Definition solver_params : list (string * string) := {clist([f'({cstr(n)}, {cstr(d)})' for n, d in params])}.\n")
    out.append(f"Definition solver_accepts_any_keyword : bool := {'true' if varkw else 'false'}.\n")
    out.append(f"Definition first_receiver : string := {cstr(recv1)}.\nDefinition retry_receiver : string := {cstr(recv2)}.\n")
    out.append(f"Definition first_call_pos : list string := {clist([cstr(x) for x in p1])}.\n")
    out.append(f"Definition first_call_kw : list (string * string) := {clist([f'({cstr(a)}, {cstr(b)})' for a, b in k1])}.\n")
    out.append(f"Definition retry_call_pos : list string := {clist([cstr(x) for x in p2])}.\n")
    out.append(f"Definition retry_call_kw : list (string * string) := {clist([f'({cstr(a)}, {cstr(b)})' for a, b in k2])}.\n")
    out.append(f"Definition except_types : list string := {clist([cstr(x) for x in exc])}.\n")
    out.append(f"Definition cvxpy_warnings_are_errors : bool := {'true' if filt else 'false'}.\n")
    out.append(f"Definition inaccuracy_matched_by_text : bool := {'true' if by_text else 'false'}.\n")
    out.append(f"Definition cvxpy_attributes_warnings_to_caller : bool := {'true' if to_caller else 'false'}.\n")
    return "".join(out), [{"name": "retry", "ok": True}]



# ---------------------------------------------------------------------------------------------- C18
def fstring_parts(node, src):
    """f-string (or implicit concatenation of f-strings / constants) -> list of ('lit', text) / ('hole', source)"""
    parts = []
    if isinstance(node, ast.Constant) and isinstance(node.value, str):
        return [("lit", node.value)]
    if isinstance(node, ast.JoinedStr):
        for v in node.values:
            if isinstance(v, ast.Constant):
                parts.append(("lit", v.value))
            elif isinstance(v, ast.FormattedValue):
                if v.format_spec is not None or v.conversion != -1:
                    raise Untranslatable(f"UNTRANSLATABLE f-string format spec at line {node.lineno}")
                parts.append(("hole", " ".join(ast.get_source_segment(src, v.value).split())))
        return parts
    raise Untranslatable(f"UNTRANSLATABLE key expression at line {getattr(node, 'lineno', '?')}: {type(node).__name__}")


def enclosing_ifs(fn, target):
    """list of `if` tests (source order, outermost first) enclosing node `target` inside function fn"""
    path = []

    def walk(node, stack):
        if node is target:
            path.extend(stack)
            return True
        for child in ast.iter_child_nodes(node):
            st = stack
            if isinstance(node, ast.If) and child in node.body:
                st = stack + [node.test]
            elif isinstance(node, ast.If) and child in node.orelse:
                st = stack + [ast.UnaryOp(op=ast.Not(), operand=node.test)]
            if walk(child, st):
                return True
        return False

    walk(fn, [])
    return path


def key_sites(srcdir):
    """every `<client>.put(path, ...)` whose first argument is a local name assigned from an f-string in the same function"""
    sites = []
    files = ["elexmodel/handlers/data/CombinedData.py", "elexmodel/handlers/data/ModelResults.py", "elexmodel/distributions/GaussianModel.py",
             "elexmodel/client.py"]
    for rel in files:
        f = os.path.join(srcdir, rel)
        src, tree = parse(f)
        for fn in [n for n in ast.walk(tree) if isinstance(n, ast.FunctionDef)]:
            assigns = {}
            for n in ast.walk(fn):
                if isinstance(n, ast.Assign) and len(n.targets) == 1 and isinstance(n.targets[0], ast.Name):
                    assigns.setdefault(n.targets[0].id, []).append(n)
            for n in ast.walk(fn):
                if isinstance(n, ast.Call) and isinstance(n.func, ast.Attribute) and n.func.attr == "put" and n.args:
                    a0 = n.args[0]
                    if isinstance(a0, ast.Name):
                        cands = [x for x in assigns.get(a0.id, []) if x.lineno < n.lineno]
                        if not cands:
                            raise Untranslatable(f"UNTRANSLATABLE {f}:{n.lineno} put() key {a0.id} has no assignment")
                        val = max(cands, key=lambda x: x.lineno).value
                    else:
                        val = a0
                    sites.append((f"{rel.split('/')[-1]}:{fn.name}", fstring_parts(val, src), n.lineno))
    return sites


def gen_persist(srcdir, problems):
    out = [HEADER, STR_HDR, "Inductive part := Lit (s : string) | Hole (s : string).\n"]
    sites = key_sites(srcdir)
    items = []
    for name, parts, _ in sites:
        ps = clist([("Lit " if k == "lit" else "Hole ") + cstr_raw(v) for k, v in parts])
        items.append(f"({cstr(name)}, {ps})")
    out.append(f"Definition key_templates : list (string * list part) := {clist(items)}.\n")
    # guards of the write calls in the client
    f = os.path.join(srcdir, "elexmodel/client.py")
    src, tree = parse(f)
    guards = []
    gate_line = None
    order = []
    for fname in ("get_estimates", "get_national_summary_votes_estimates"):
        fn = find_func(tree, "ModelClient", fname)
        if fn is None:
            raise Untranslatable(f"UNTRANSLATABLE {f}: {fname} not found")
        for n in ast.walk(fn):
            if isinstance(n, ast.Call) and isinstance(n.func, ast.Attribute) and n.func.attr == "write_data":
                tests = enclosing_ifs(fn, n)
                gsrc = " && ".join(" ".join(ast.get_source_segment(src, t).split()) if not isinstance(t, ast.UnaryOp) or not hasattr(t, "lineno") or True and hasattr(t, "col_offset") else "not(...)" for t in tests if hasattr(t, "col_offset")) if tests else ""
                if any(not hasattr(t, "col_offset") for t in tests):
                    gsrc = "ELSE-BRANCH " + gsrc
                recv = " ".join(ast.get_source_segment(src, n.func.value).split())
                guards.append((fname, recv, gsrc, n.lineno))
            if fname == "get_estimates" and isinstance(n, ast.Raise) and n.exc is not None and "ModelNotEnoughSubunitsException" in ast.get_source_segment(src, n.exc):
                gate_line = n.lineno
    if gate_line is None:
        raise Untranslatable(f"UNTRANSLATABLE {f}: raise ModelNotEnoughSubunitsException not found")
    out.append(f"Definition client_write_sites : list (string * string * string * bool) := "
               + clist([f"({cstr(a)}, {cstr(b)}, {cstr(c)}, {'true' if ln < gate_line else 'false'})" for a, b, c, ln in guards]) + ".\n")
    # save flags
    fn = find_func(tree, "ModelClient", "get_estimates")
    flags = []
    for n in ast.walk(fn):
        if isinstance(n, ast.Assign) and len(n.targets) == 1:
            t = " ".join(ast.get_source_segment(src, n.targets[0]).split())
            if t in ("self.save_results", "save_data", "save_config", "save_conformalization", "save_output"):
                flags.append((t, " ".join(ast.get_source_segment(src, n.value).split())))
    out.append(f"Definition save_flags : list (string * string) := {clist([f'({cstr(a)}, {cstr(b)})' for a, b in flags])}.\n")
    # the guard of the conformalization writes in GaussianModel.fit
    f2 = os.path.join(srcdir, "elexmodel/distributions/GaussianModel.py")
    src2, tree2 = parse(f2)
    fn2 = find_func(tree2, "GaussianModel", "fit")
    gg = []
    for n in ast.walk(fn2):
        if isinstance(n, ast.Call) and isinstance(n.func, ast.Attribute) and n.func.attr in ("_write_conformalization_data", "_write_gaussian_bounds"):
            tests = enclosing_ifs(fn2, n)
            gg.append((n.func.attr, " && ".join(" ".join(ast.get_source_segment(src2, t).split()) for t in tests if hasattr(t, "col_offset"))))
    out.append(f"Definition gaussian_write_guards : list (string * string) := {clist([f'({cstr(a)}, {cstr(b)})' for a, b in gg])}.\n")
    return "".join(out), [{"name": "persist", "ok": True, "sites": len(sites)}]


def cstr_raw(s):
    """string literal preserving whitespace (for the no-whitespace theorem); newlines / tabs are kept as such"""
    s = str(s).replace('"', '""')
    return '"' + s + '"'



# ---------------------------------------------------------------------------------------------- C13
def list_template(node, src, hole_vars):
    """list expression made of string constants, f-strings over `hole_vars`, `+` of lists, names in env, conditional lists"""
    if isinstance(node, ast.List):
        out = []
        for e in node.elts:
            if isinstance(e, ast.Constant) and isinstance(e.value, str):
                out.append(("const", e.value))
            elif isinstance(e, ast.JoinedStr):
                txt = ""
                for v in e.values:
                    if isinstance(v, ast.Constant):
                        txt += v.value
                    else:
                        txt += "{" + " ".join(ast.get_source_segment(src, v.value).split()) + "}"
                out.append(("templ", txt))
            else:
                raise Untranslatable(f"UNTRANSLATABLE list element at line {e.lineno}")
        return out
    if isinstance(node, ast.BinOp) and isinstance(node.op, ast.Add):
        return list_template(node.left, src, hole_vars) + list_template(node.right, src, hole_vars)
    if isinstance(node, ast.Name):
        return [("var", node.id)]
    if isinstance(node, ast.IfExp):
        return [("cond", " ".join(ast.get_source_segment(src, node).split()))]
    raise Untranslatable(f"UNTRANSLATABLE list expression at line {getattr(node, 'lineno', '?')}")


def gen_schema(srcdir, problems):
    f = os.path.join(srcdir, "elexmodel/handlers/data/ModelResults.py")
    src, tree = parse(f)
    fn = find_func(tree, "ModelResultsHandler", "process_final_results")
    if fn is None:
        raise Untranslatable(f"UNTRANSLATABLE {f}: process_final_results not found")
    merges = []
    for n in ast.walk(fn):
        if isinstance(n, ast.Assign) and len(n.targets) == 1 and isinstance(n.targets[0], ast.Name) and n.targets[0].id == "merge_on":
            merges.append(n)
    merges.sort(key=lambda n: n.lineno)
    if len(merges) != 2:
        raise Untranslatable(f"UNTRANSLATABLE {f}:{fn.lineno} expected two merge_on assignments")
    agg_merge = " ".join(ast.get_source_segment(src, merges[0].value).split())
    unit_merge = list_template(merges[1].value, src, [])
    if any(k != "const" for k, _ in unit_merge):
        raise Untranslatable(f"UNTRANSLATABLE {f}:{merges[1].lineno} unit merge_on is not a literal list")
    key_cols = None
    for n in ast.walk(fn):
        if isinstance(n, ast.Assign) and len(n.targets) == 1 and isinstance(n.targets[0], ast.Name) and n.targets[0].id == "key_columns":
            key_cols = " ".join(ast.get_source_segment(src, n.value).split())
    hows = []
    for n in ast.walk(fn):
        if isinstance(n, ast.Call) and attr_path(n.func) == "pd.merge":
            kw = {k.arg: " ".join(ast.get_source_segment(src, k.value).split()) for k in n.keywords}
            hows.append((kw.get("how", ""), kw.get("on", "")))
    # the per-estimand unit frame's columns
    fn2 = find_func(tree, "ModelResultsHandler", "add_unit_intervals")
    unit_cols = None
    for n in ast.walk(fn2):
        if isinstance(n, ast.Subscript) and isinstance(n.value, ast.Call) and isinstance(n.value.func, ast.Attribute) and n.value.func.attr == "sort_values":
            unit_cols = list_template(n.slice, src, ["estimand"])
    if unit_cols is None:
        raise Untranslatable(f"UNTRANSLATABLE {f}:{fn2.lineno} unit column selection not found")
    common = [v for k, v in unit_cols if k == "const"]
    specific = [v for k, v in unit_cols if k != "const"]
    # aggregate frames: BaseElectionModel.get_aggregate_predictions final selection
    f3 = os.path.join(srcdir, "elexmodel/models/BaseElectionModel.py")
    src3, tree3 = parse(f3)
    fn3 = find_func(tree3, "BaseElectionModel", "get_aggregate_predictions")
    agg_cols = None
    for n in ast.walk(fn3):
        if isinstance(n, ast.Subscript) and isinstance(n.value, ast.Call) and isinstance(n.value.func, ast.Attribute) and n.value.func.attr == "sort_values":
            agg_cols = list_template(n.slice, src3, ["estimand"])
    if agg_cols is None:
        raise Untranslatable(f"UNTRANSLATABLE {f3}:{fn3.lineno} aggregate column selection not found")
    out = [HEADER, STR_HDR]
    out.append(f"Definition unit_merge_on : list string := {clist([cstr(v) for _, v in unit_merge])}.\n")
    out.append(f"Definition unit_common_cols : list string := {clist([cstr(v) for v in common])}.\n")
    out.append(f"Definition unit_specific_templates : list string := {clist([cstr(v) for v in specific])}.\n")
    out.append(f"Definition agg_merge_on_expr : string := {cstr(agg_merge)}.\n")
    out.append(f"Definition agg_key_columns_expr : string := {cstr(key_cols or '')}.\n")
    out.append(f"Definition merge_calls : list (string * string) := {clist([f'({cstr(a)}, {cstr(b)})' for a, b in hows])}.\n")
    out.append(f"Definition agg_frame_cols : list (string * string) := {clist([f'({cstr(k)}, {cstr(v)})' for k, v in agg_cols])}.\n")
    return "".join(out), [{"name": "schema", "ok": True}]



# ---------------------------------------------------------------------------------------------- C12
ESTIMATE_PATH_FILES = [
    "elexmodel/client.py", "elexmodel/handlers/config.py", "elexmodel/handlers/data/PreprocessedData.py", "elexmodel/handlers/data/Estimandizer.py",
    "elexmodel/handlers/data/Featurizer.py", "elexmodel/handlers/data/CombinedData.py", "elexmodel/handlers/data/VersionedData.py",
    "elexmodel/handlers/data/ModelResults.py", "elexmodel/distributions/GaussianModel.py", "elexmodel/models/BaseElectionModel.py",
    "elexmodel/models/ConformalElectionModel.py", "elexmodel/models/NonparametricElectionModel.py", "elexmodel/models/GaussianElectionModel.py",
    "elexmodel/models/BootstrapElectionModel.py", "elexmodel/utils/math_utils.py", "elexmodel/utils/pandas_utils.py",
]
SEED_WORDS = ("self.seed", "self.rng")


def mentions_seed(txt):
    return any(w in txt for w in SEED_WORDS)


def gen_effects(srcdir, problems):
    sites = []          # (file, line, kind, seeded)
    pending = []        # (file, line, kind, function name, parameter) : seeded iff every caller passes the parameter seeded
    funcs = {}          # function name -> list of call nodes (with their file / source) across the estimate path
    parsed = {}
    for rel in ESTIMATE_PATH_FILES:
        f = os.path.join(srcdir, rel)
        src, tree = parse(f)
        parsed[rel] = (src, tree)
    # index calls by callee's last name
    for rel, (src, tree) in parsed.items():
        for n in ast.walk(tree):
            if isinstance(n, ast.Call):
                p = attr_path(n.func) or ""
                funcs.setdefault(p.split(".")[-1], []).append((rel, src, n))
    for rel, (src, tree) in parsed.items():
        short = rel.split("/")[-1]
        parents = {}
        for node in ast.walk(tree):
            for ch in ast.iter_child_nodes(node):
                parents[ch] = node

        def enclosing_function(n):
            while n in parents:
                n = parents[n]
                if isinstance(n, (ast.FunctionDef, ast.AsyncFunctionDef)):
                    return n
            return None

        for n in ast.walk(tree):
            if not isinstance(n, ast.Call):
                continue
            p = attr_path(n.func) or ""
            kws = {k.arg: " ".join(ast.get_source_segment(src, k.value).split()) for k in n.keywords if k.arg}
            argtxt = " ".join(" ".join(ast.get_source_segment(src, a).split()) for a in n.args) + " " + " ".join(kws.values())
            kind = None
            seeded = None
            last = p.split(".")[-1]
            if p.startswith("np.random.") or p.startswith("numpy.random."):
                if last in ("default_rng", "Generator", "RandomState", "SeedSequence"):
                    kind, seeded = "new-generator", mentions_seed(argtxt)
                else:
                    kind, seeded = "global-numpy-generator", False
            elif p.startswith("self.rng."):
                kind, seeded = "seeded-generator-method", True
            elif p.startswith("random.") and last in ("random", "randint", "choice", "shuffle", "sample", "uniform", "gauss", "seed"):
                kind, seeded = "global-python-generator", False
            elif last == "sample" and ("frac" in kws or "n" in kws or "random_state" in kws):
                kind, seeded = "DataFrame.sample", mentions_seed(kws.get("random_state", ""))
            elif last == "shuffle":
                kind, seeded = "shuffle", mentions_seed(p)
            elif last == "bootstrap" and p in ("bootstrap", "stats.bootstrap", "scipy.stats.bootstrap"):
                kind = "scipy.stats.bootstrap"
                rs = kws.get("random_state", "")
                if mentions_seed(rs):
                    seeded = True
                elif rs:
                    fn = enclosing_function(n)
                    params = [a.arg for a in fn.args.args] if fn is not None else []
                    if rs in params:
                        pending.append((short, n.lineno, kind, fn.name, rs))
                        continue
                    seeded = False
                else:
                    seeded = False
            if kind is not None:
                sites.append((short, n.lineno, kind, bool(seeded)))
    for short, line, kind, fname, param in pending:
        callers = funcs.get(fname, [])
        ok_all = bool(callers)
        for rel, src, call in callers:
            kws = {k.arg: " ".join(ast.get_source_segment(src, k.value).split()) for k in call.keywords if k.arg}
            if not mentions_seed(kws.get(param, "")):
                ok_all = False
        sites.append((short, line, kind + f" (through parameter {param} of {fname}, {len(callers)} call sites)", ok_all))
    sites.sort()
    # attribute reads before writes in the two client entry points
    src, tree = parsed["elexmodel/client.py"]
    rbw = {}
    for fname in ("get_estimates", "get_national_summary_votes_estimates"):
        fn = find_func(tree, "ModelClient", fname)
        if fn is None:
            raise Untranslatable(f"UNTRANSLATABLE client.py: {fname} not found")
        events = []
        item_containers = set()
        for n in ast.walk(fn):
            if isinstance(n, ast.Subscript) and isinstance(n.ctx, ast.Store):
                b = n.value
                while isinstance(b, ast.Subscript):
                    b = b.value
                if isinstance(b, ast.Attribute) and isinstance(b.value, ast.Name) and b.value.id == "self":
                    item_containers.add((b.lineno, b.col_offset))
        for n in ast.walk(fn):
            if isinstance(n, ast.Attribute) and isinstance(n.value, ast.Name) and n.value.id == "self":
                if isinstance(n.ctx, ast.Store):
                    events.append((n.lineno, 0, "w", n.attr))
                elif (n.lineno, n.col_offset) in item_containers:
                    continue
                else:
                    # method calls on self are not state reads
                    par_is_call = False
                    events.append((n.lineno, 1, "r", n.attr))
        # drop reads that are the callee of a call:  self.method(...)
        callees = set()
        for n in ast.walk(fn):
            if isinstance(n, ast.Call) and isinstance(n.func, ast.Attribute) and isinstance(n.func.value, ast.Name) and n.func.value.id == "self":
                callees.add((n.func.lineno, n.func.attr))
        written = set()
        reads = []
        for line, _, k, a in sorted(events):
            if k == "w":
                written.add(a)
            elif (line, a) in callees:
                continue
            elif a not in written and a not in reads:
                reads.append(a)
        rbw[fname] = reads
    # a fresh model object per get_estimates call: assignments to self.model inside get_estimates are constructor calls
    fn = find_func(tree, "ModelClient", "get_estimates")
    fresh = []
    for n in ast.walk(fn):
        if isinstance(n, ast.Assign) and len(n.targets) == 1 and isinstance(n.targets[0], ast.Attribute) and n.targets[0].attr == "model" \
                and isinstance(n.targets[0].value, ast.Name) and n.targets[0].value.id == "self":
            fresh.append(isinstance(n.value, ast.Call) and (attr_path(n.value.func) or "").endswith("ElectionModel"))
    out = [HEADER, STR_HDR]
    out.append("Definition rng_sites : list (string * nat * string * bool) := "
               + clist([f"({cstr(a)}, {b}%nat, {cstr(c)}, {'true' if d else 'false'})" for a, b, c, d in sites]) + ".\n")
    out.append(f"Definition reads_before_write_get_estimates : list string := {clist([cstr(x) for x in rbw['get_estimates']])}.\n")
    out.append(f"Definition reads_before_write_national_summary : list string := {clist([cstr(x) for x in rbw['get_national_summary_votes_estimates']])}.\n")
    out.append(f"Definition model_assignments_are_fresh_objects : list bool := {clist(['true' if x else 'false' for x in fresh])}.\n")
    return "".join(out), [{"name": "effects", "ok": True, "sites": len(sites)}]



def gen_contests(srcdir, problems):
    """C11 (F19): which frame each decision about contest-level effects reads in BootstrapElectionModel.compute_bootstrap_errors.

    all_units = concat(reporting, nonreporting, unexpected); a decision is 'Expected' when it reads only the first
    n_train + n_test rows (through a name bound to such a slice, or a slice written in place) and 'AllUnits' when it reads all_units /
    the unsliced indicator."""
    rel = "elexmodel/models/BootstrapElectionModel.py"
    src, tree = parse(os.path.join(srcdir, rel))
    fn = find_func(tree, "BootstrapElectionModel", "compute_bootstrap_errors")
    if fn is None:
        raise Untranslatable("UNTRANSLATABLE BootstrapElectionModel.py: compute_bootstrap_errors not found")
    seg = lambda n: " ".join(ast.get_source_segment(src, n).split())  # noqa: E731

    def is_expected_slice(node):
        # X[: (n_train + n_test)]  /  X[:n_train + n_test]  /  X.iloc[: ...]
        if not isinstance(node, ast.Subscript) or not isinstance(node.slice, ast.Slice):
            return False
        sl = node.slice
        if sl.lower is not None or sl.step is not None or sl.upper is None:
            return False
        return seg(sl.upper).replace("(", "").replace(")", "").replace(" ", "") in ("n_train+n_test", "n_test+n_train")

    # names bound to the expected prefix of all_units
    expected_names = set()
    all_names = {"all_units"}
    assigns = [n for n in ast.walk(fn) if isinstance(n, ast.Assign) and len(n.targets) == 1 and isinstance(n.targets[0], ast.Name)]
    assigns.sort(key=lambda n: n.lineno)
    for a in assigns:
        v = a.value
        if is_expected_slice(v):
            base = v.value
            if isinstance(base, ast.Attribute) and base.attr == "iloc":
                base = base.value
            if isinstance(base, ast.Name) and base.id in all_names:
                expected_names.add(a.targets[0].id)

    def frame_of(expr, indicator_names):
        """Expected / AllUnits for one right-hand side"""
        reads_all = False
        reads_exp = False
        sliced = set()
        for n in ast.walk(expr):
            if is_expected_slice(n):
                b = n.value
                if isinstance(b, ast.Attribute) and b.attr == "iloc":
                    b = b.value
                if isinstance(b, ast.Name):
                    sliced.add((b.lineno, b.col_offset))
                    reads_exp = True
        for n in ast.walk(expr):
            if isinstance(n, ast.Name) and isinstance(n.ctx, ast.Load):
                if (n.lineno, n.col_offset) in sliced:
                    continue
                if n.id in expected_names:
                    reads_exp = True
                elif n.id in all_names or n.id in indicator_names:
                    reads_all = True
        if reads_all:
            return "AllUnits"
        if reads_exp:
            return "Expected"
        return None

    found = {}
    for a in assigns:
        t = a.targets[0].id
        if t == "postal_code_filter":
            found["multi"] = frame_of(a.value, set())
        elif t == "valid_districts":
            found["valid"] = frame_of(a.value, set())
        elif t == "contest_indicator_filtered":
            # two assignments: the first selects the valid districts (no unit count), the second compares a count with 10
            if any(isinstance(n, ast.Compare) for n in ast.walk(a.value)):
                cmp_ = [n for n in ast.walk(a.value) if isinstance(n, ast.Compare)][0]
                found["count"] = frame_of(cmp_, {"contest_indicator"})
                thr = cmp_.comparators[0]
                op = type(cmp_.ops[0]).__name__
                if not (isinstance(thr, ast.Constant) and isinstance(thr.value, int)) or op not in ("Gt", "GtE"):
                    raise Untranslatable(f"UNTRANSLATABLE BootstrapElectionModel.py:{a.lineno}: contest size test {seg(cmp_)}")
                found["threshold"] = thr.value + (0 if op == "Gt" else -1)      # count > threshold
    for k in ("multi", "valid", "count", "threshold"):
        if found.get(k) is None:
            raise Untranslatable(f"UNTRANSLATABLE BootstrapElectionModel.py: contest-effect decision '{k}' not recognised in compute_bootstrap_errors")
    out = [HEADER, "From Coq Require Import List String Bool.\nFrom Elex Require Import Model.ContestEffects.\nImport ListNotations.\n"]
    out.append(f"Definition multi_frame : frame := {found['multi']}.\n")
    out.append(f"Definition valid_frame : frame := {found['valid']}.\n")
    out.append(f"Definition count_frame : frame := {found['count']}.\n")
    out.append(f"Definition contest_threshold : nat := {found['threshold']}%nat.\n")
    return "".join(out), [{"name": "contests", "ok": True, "frames": [found["multi"], found["valid"], found["count"]], "threshold": found["threshold"]}]


FACT_GENERATORS = [("Retry.v", gen_retry), ("Persist.v", gen_persist), ("Schema.v", gen_schema), ("Effects.v", gen_effects), ("Contests.v", gen_contests)]
