"""Literal facts re-derived from /repo/src for C20 (retry call), C18 (persistence), C13 (merge keys), C12 (randomness sites)."""
import ast
import inspect
import os

from translate import HEADER, Untranslatable, attr_path, find_func, parse

STR_HDR = "From Coq Require Import List String Bool.\nImport ListNotations.\nOpen Scope string_scope.\n"


def cstr(s):
    s = str(s)
    if '"' in s:
        s = s.replace('"', "'")
    s = " ".join(s.split())
    return '"' + s + '"'


def clist(items):
    return "[" + "; ".join(items) + "]"


def call_shape(call, src):
    pos = [ast.get_source_segment(src, a) for a in call.args]
    kws = []
    for k in call.keywords:
        if k.arg is None:
            raise Untranslatable(f"UNTRANSLATABLE **kwargs in call at line {call.lineno}")
        kws.append((k.arg, ast.get_source_segment(src, k.value)))
    return pos, kws


def gen_retry(srcdir, problems):
    f = os.path.join(srcdir, "elexmodel/models/ConformalElectionModel.py")
    src, tree = parse(f)
    fn = find_func(tree, "ConformalElectionModel", "fit_model")
    if fn is None:
        raise Untranslatable(f"UNTRANSLATABLE {f}: fit_model not found")
    tries = [n for n in ast.walk(fn) if isinstance(n, ast.Try)]
    if len(tries) != 1:
        raise Untranslatable(f"UNTRANSLATABLE {f}:{fn.lineno} expected exactly one try statement in fit_model")
    t = tries[0]

    def fit_calls(stmts):
        out = []
        for s in stmts:
            for n in ast.walk(s):
                if isinstance(n, ast.Call) and isinstance(n.func, ast.Attribute) and n.func.attr == "fit":
                    out.append(n)
        return out

    first = fit_calls(t.body)
    if len(first) != 1 or len(t.handlers) != 1:
        raise Untranslatable(f"UNTRANSLATABLE {f}:{t.lineno} try/except shape")
    h = t.handlers[0]
    retry = fit_calls(h.body)
    if len(retry) != 1:
        raise Untranslatable(f"UNTRANSLATABLE {f}:{h.lineno} handler must contain exactly one fit call")
    if h.type is None:
        exc = ["BaseException"]
    elif isinstance(h.type, ast.Tuple):
        exc = [attr_path(e) or ast.get_source_segment(src, e) for e in h.type.elts]
    else:
        exc = [attr_path(h.type) or ast.get_source_segment(src, h.type)]
    p1, k1 = call_shape(first[0], src)
    p2, k2 = call_shape(retry[0], src)
    recv1 = ast.get_source_segment(src, first[0].func.value)
    recv2 = ast.get_source_segment(src, retry[0].func.value)
    # statements after the try inside fit_model (none expected) and anything that swallows the error
    filt = False
    for n in tree.body:
        if isinstance(n, ast.Expr) and isinstance(n.value, ast.Call) and attr_path(n.value.func) == "warnings.filterwarnings":
            a = n.value
            if a.args and isinstance(a.args[0], ast.Constant) and a.args[0].value == "error":
                kw = {k.arg: ast.get_source_segment(src, k.value) for k in a.keywords}
                if kw.get("category") == "UserWarning" and kw.get("module") == '"cvxpy"':
                    filt = True
    # the solver's signature, from the installed package
    try:
        from elexsolver.QuantileRegressionSolver import QuantileRegressionSolver as Q

        sig = inspect.signature(Q.fit)
        params = [(n, (repr(p.default) if p.default is not inspect._empty else "")) for n, p in sig.parameters.items() if n != "self"]
        varkw = any(p.kind == p.VAR_KEYWORD for p in sig.parameters.values())
    except Exception as e:  # noqa: BLE001
        raise Untranslatable(f"UNTRANSLATABLE solver signature: {e}")
    out = [HEADER, STR_HDR]
    out.append(f"Definition solver_params : list (string * string) := {clist([f'({cstr(n)}, {cstr(d)})' for n, d in params])}.\n")
    out.append(f"Definition solver_accepts_any_keyword : bool := {'true' if varkw else 'false'}.\n")
    out.append(f"Definition first_receiver : string := {cstr(recv1)}.\nDefinition retry_receiver : string := {cstr(recv2)}.\n")
    out.append(f"Definition first_call_pos : list string := {clist([cstr(x) for x in p1])}.\n")
    out.append(f"Definition first_call_kw : list (string * string) := {clist([f'({cstr(a)}, {cstr(b)})' for a, b in k1])}.\n")
    out.append(f"Definition retry_call_pos : list string := {clist([cstr(x) for x in p2])}.\n")
    out.append(f"Definition retry_call_kw : list (string * string) := {clist([f'({cstr(a)}, {cstr(b)})' for a, b in k2])}.\n")
    out.append(f"Definition except_types : list string := {clist([cstr(x) for x in exc])}.\n")
    out.append(f"Definition cvxpy_warnings_are_errors : bool := {'true' if filt else 'false'}.\n")
    return "".join(out), [{"name": "retry", "ok": True}]


FACT_GENERATORS = [("Retry.v", gen_retry)]
