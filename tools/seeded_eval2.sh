#!/bin/bash
# tools/seeded_eval2.sh <Cxx> <a|b> [extra check ids...]
# Second round of independent seeded changes: /tmp/seed2/<Cxx> is a clean scratch worktree, /tmp/seed2/<Cxx>/_out/<v>/{patch.diff,demo.py,notes.md}
# comes from a sub-agent. Confirms the change there (demo passes clean / fails patched, pinned suite passes patched), copies it to
# /verif/seeded/<Cxx>-2<v>/, applies it to /repo, runs our checks, reverts /repo.
set -u
ID=$1; V=$2; shift; shift
ROOT=${SEEDROOT:-/tmp/seed2}; ROUND=${ROUND:-2}
WT=$ROOT/$ID; SD=$WT/_out/$V; DST=/verif/seeded/$ID-$ROUND$V
ENVV="PYTHONPATH=$WT/src APP_ENV=local DATA_ENV=dev MODEL_S3_BUCKET=b MODEL_S3_PATH_ROOT=r PYTHONHASHSEED=0"
cd $WT || exit 2
git -C $WT checkout -q -- src
echo "== demo WITHOUT patch:"; env $ENVV /venv/bin/python $SD/demo.py > $SD/demo_without.out 2>&1; echo "exit $?"; tail -2 $SD/demo_without.out
git -C $WT apply $SD/patch.diff || { echo "patch does not apply"; exit 3; }
echo "== patch: $(git -C $WT diff --stat | tail -1)"
echo "== demo WITH patch:"; env $ENVV /venv/bin/python $SD/demo.py > $SD/demo_with.out 2>&1; echo "exit $?"; tail -3 $SD/demo_with.out
(env $ENVV /venv/bin/python -m pytest -q -p no:cacheprovider --timeout=900 tests > $SD/pytest_with.out 2>&1; git -C $WT checkout -q -- src) &
mkdir -p $DST && cp $SD/patch.diff $SD/demo.py $DST/ && cp $SD/notes.md $DST/ 2>/dev/null
echo "== our checks against the patch (applied to /repo, then reverted):"
git -C /repo apply $SD/patch.diff || { echo "patch does not apply to /repo"; exit 3; }
for C in $ID "$@"; do
  (cd /verif && bin/check $C 2>&1 | grep -v "^KNOWN-FINDING" | tail -3)
  cp /verif/build/violations_$C.json $SD/violations_$C.json 2>/dev/null
done
git -C /repo checkout -- .
git -C /repo status --short | head -3
wait
echo "== test suite WITH patch: $(tail -1 $SD/pytest_with.out)"; grep "^FAILED" $SD/pytest_with.out | head -5
