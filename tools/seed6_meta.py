#!/usr/bin/env python3
"""meta.json for the sixth round of independent seeded changes (two per property; each leaves the default configuration untouched and
breaks the property only in a corner: a non-default option, an unusual input shape, an unusual order / repetition of calls)."""
import json
import os
import sys

sys.path.insert(0, os.path.dirname(os.path.abspath(__file__)))
from seed2_meta import parse  # noqa: E402

DESC = {
    "C01a": ("reporting filter compares the rounded percent_expected_vote; the non-reporting filter does not: a unit within 0.5 below the threshold is in both frames", "fractional percentages (99.6)"),
    "C01b": ("client restricts the feed to the configured states", "a feed unit of a state outside the configuration"),
    "C02a": ("_get_reporting_aggregate_votes drops blocklisted units before summing", "a blocklisted unit with votes"),
    "C02b": ("bootstrap margin divided by max(turnout, 1) instead of nan_to_num(x / turnout)", "a group whose predicted turnout lies strictly between 0 and 1"),
    "C03a": ("gaussian aggregate: redundant groupby + merge removed, floor paired by position with the wrong group", "own-model and fallback groups mixed, binding floor"),
    "C03b": ("robust nonparametric intervals forced to contain the prediction; counted-vote floor kept only in the non-robust branch", "robust=True, partial count above the lower bound"),
    "C04a": ("robust correction taken at level alpha instead of alpha(1+1/n)", "robust=True"),
    "C04b": ("population correction weighted by previous turnout whenever that column exists", "several estimands including turnout"),
    "C05a": ("median-regression weights rescaled per state when the run covers several states", "multi-state run without covariates"),
    "C05b": ("residuals of partly counted reporting units extrapolated to the full expected vote", "threshold below 100 with reporting units still counting"),
    "C06a": ("margin draws clipped before (not after) the presidential correction", "correct_from_presidential=True"),
    "C06b": ("+-0.001 straddle only for the top-level aggregate", "county / classification aggregate, group without outstanding units"),
    "C07a": ("called contests only overridden when the prediction has the wrong sign", "called contest already leading by less than 0.005"),
    "C07b": ("calls and stops passed to the model for the postal_code aggregate only", "district office: the district table ignores calls, invalid calls accepted"),
    "C08a": ("independent contests: losses / gains as 'outcome differs'", "national_summary_correlation=False"),
    "C08b": ("client filters surplus entries out of the weight dictionary", "a dictionary with more entries than contests"),
    "C09a": ("expected units taken from the preprocessed file", "drop policy, a baseline unit in the feed without results"),
    "C09b": ("explicit limit 0 replaced by the default", "turnout_factor_lower = 0"),
    "C10a": ("state blocklist omitted from the units kept out of the outlier models", "postal_code_blocklist with reporting units"),
    "C10b": ("gaussian merge operands swapped", "own-model and fallback groups, binding floor"),
    "C11a": ("county of an unexpected unit = everything after the district prefix", "precinct-district ids"),
    "C11b": ("feed rows of states outside the configuration dropped", "unexpected unit of an unknown state"),
    "C12a": ("per-group bootstrap seed derived with hash()", "gaussian, processes with different hash seeds"),
    "C12b": ("ties among national totals broken with the model's generator", "national_summary_correlation=False, repeated summary calls"),
    "C13a": ("gaussian per-level bounds cache filled with setdefault", ">= 2 estimands"),
    "C13b": ("robust corrections carried across the levels of a run", "robust=True, ascending levels"),
    "C14a": ("gate uses the last requested level only", "levels not in increasing order"),
    "C14b": ("training rows raised to the number of coefficients", "wide design at the minimum number of units"),
    "C15a": ("size threshold 20 when winsorize is on", "winsorize=True, a group with 10..19 calibration units"),
    "C15b": ("anti-join keyed on the finest level only", "labels recurring across states"),
    "C16a": ("reference level pinned to the first level overall", "first level seen only outside the fitting rows"),
    "C16b": ("_sort_features exact-name lookup", "states_for_separate_model"),
    "C17a": ("non-finite batch margins zeroed", "re-attributed votes with an unchanged total"),
    "C17b": ("before-first-observation case simplified away", "first version already holds votes"),
    "C18a": ("live results not uploaded when the feed is empty", "a feed with zero rows"),
    "C18b": ("national summary table uploaded in the local environment", "local environment, results requested, summary call"),
    "C19a": ("window filter applied per page before the paging decision", "end date, a page entirely newer than it"),
    "C19b": ("pre-computed timestamps matched by position", "a failing download followed by a successful one"),
    "C20a": ("retry drops lambda_", "lambda_ > 0"),
    "C20b": ("lower and upper bound fitted by one solver call", "failure at the second quantile of the call"),
}


def main():
    first = parse("/root/seed6_eval.log")
    second = parse("/root/seed6_re.log")
    notes = json.load(open("/root/seed6_extra.json")) if os.path.exists("/root/seed6_extra.json") else {}
    for key in sorted(DESC):
        pid, v = key[:3], key[3]
        d = f"/verif/seeded/{pid}-6{v}"
        if not os.path.isdir(d):
            continue
        f, s = first.get(key), second.get(key)
        final = s or f
        concrete_first = bool(f and f.get("concrete"))
        caught_first = bool(f and any(c["violations"] > 0 for c in f["checks"]))
        caught_final = bool(final and any(c["violations"] > 0 for c in final["checks"]))
        meta = {"property": pid, "round": 6, "variant": v, "breaks": DESC[key][0], "needs_to_manifest": DESC[key][1],
                "source": "independent sub-agent given only the property text and a scratch worktree, asked for changes that leave the default configuration untouched "
                          "and break the property only in a corner of the quantified space (sixth round)",
                "confirmed": {"demo_exit_clean_then_patched": (final or {}).get("demo"), "pinned_suite_with_patch": (final or {}).get("suite")},
                "first_pass": {"caught": caught_first, "with_concrete_replay": concrete_first, "checks": (f or {}).get("checks")},
                "final": {"caught": caught_final, "checks": (final or {}).get("checks"), "concrete_replays": (final or {}).get("concrete"),
                          "no_failing_input": (final or {}).get("noinput")}}
        if key in notes:
            meta["detection_note"] = notes[key]
        json.dump(meta, open(os.path.join(d, "meta.json"), "w"), indent=1)
        print(key, caught_first, caught_final, (final or {}).get("checks"))


if __name__ == "__main__":
    main()
