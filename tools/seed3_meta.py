#!/usr/bin/env python3
"""meta.json for the third round of independent seeded changes (one per property; the sub-agents were told which ideas had been used
before and had to break the property through a different mechanism)."""
import json
import os
import sys

sys.path.insert(0, os.path.dirname(os.path.abspath(__file__)))
from seed2_meta import parse  # noqa: E402

DESC = {
    "C01": ("row-count early exit in _get_unexpected_units: under handle_unreporting='zero' every unexpected unit is dropped when the feed has no more rows than the baseline",
            "zero policy, renamed / unexpected units, feed not longer than the baseline"),
    "C02": ("aggregate bounds clamped to the prediction (lower=min(lower,pred), upper=max(upper,pred)) for every estimator",
            "nonparametric, narrow levels (0.1, 0.3) where the summed bounds cross the summed prediction"),
    "C03": ("gaussian fallback loop: anti-join on the last aggregate column only", "multi-state, second-level ids that recur across states (House districts)"),
    "C04": ("un-normalisation as Series * Series (label alignment) instead of ndarray * Series (positional)", "the model called directly on a nonreporting frame whose row labels are not 0..n-1"),
    "C05": ("residual columns built with assign(**{... lambda ...}) closing over the loop variable: every estimand gets the last estimand's residuals", ">= 2 estimands, no covariates"),
    "C06": ("the two clips of the bootstrap margin draws merged into one placed before the presidential correction", "model parameter correct_from_presidential=True, a lopsided unit"),
    "C07": ("race-call clamp moved before the zero-turnout nan_to_num: NaN propagates through np.maximum / np.minimum", "a called contest whose predicted two-party turnout is exactly zero"),
    "C08": ("summary bounds built from the 0/1 state vectors instead of prediction -/+ losses/gains", "soft threshold (agg_model_hard_threshold=False) with fractional counts"),
    "C09": ("live feed no longer copied before the estimandizer writes derived columns into it", "second poll on the same feed DataFrame whose raw counts were updated in place"),
    "C10": ("historical evaluation: hidden results zeroed through a mask taken from the caller's frame (label alignment)", "current_data in another row order than the historical file"),
    "C11": ("live feed restricted to the configured states in the client", "an unexpected unit of a state outside the configuration"),
    "C12": ("ties among national totals broken with the model's own seeded generator", "national_summary_correlation=False and a second summary call on the same client"),
    "C13": ("zero-baseline rule extended to any requested vote-count estimand", "a unit with baseline_dem == 0 and baseline_turnout > 0; requests ['turnout'] vs ['turnout','dem']"),
    "C14": ("duplicate check counts (postal_code, unit id) pairs", "the same unit id reporting in two states of one run"),
    "C15": ("redundant groupby + merge removed: rows no longer in group order when the counted-vote floor is applied", "own-model and fallback groups mixed, partial counts in outstanding units"),
    "C16": ("levels seen in fitting read from the raw fixed-effect column (before pooling into 'other')", "fixed effect given as a dict of selected levels"),
    "C17": ("drop_duplicates over whole version rows (non-consecutive repeats too)", "a unit that reverts exactly to an earlier version; a percent estimate raised and taken back"),
    "C18": ("a baseline downloaded from remote storage is cached to a local file", "preprocessed_data=None (fetched from S3), save_output without 'data'"),
    "C19": ("last_modified stamps computed up front and zipped with the successful downloads", "a failing download that is not the last sampled version"),
    "C20": ("after a retry the model keeps passing normalize_weights=False for later fits of that estimand", "a failing fit that is not the last one of its estimand (tables differ only with lambda_ > 0)"),
}

NOTES = {
    "C04": "missed at first (the client always resets the row labels); caught by the new model-level stream of C04 (row-labels)",
    "C06": "missed at first (option never generated); caught by C06 (margin-range) after the correct_from_presidential family with an in-memory stand-in for the three files was added",
    "C07": "missed at first; caught by C07 (call-not-honoured) after six zero-turnout contests were added to the complete table",
    "C08": "missed at first; caught by C08 (order) after soft-threshold jobs (T in {25, 100, 5000}) were added",
    "C09": "missed at first; caught by C09 after the feed-frame re-use family (second poll on a frame updated in place) was added",
    "C10": "missed at first (the historical job kept the file's row order); caught by C10 (historical-leak) with shuffled / re-sorted feeds",
    "C12": "missed at first; caught by C12 after the summary-after-summaries pair was also run in the other correlation mode",
    "C13": "missed at first; caught by C13 (estimand-subset pairs) after units with a zero baseline for one estimand only were added",
    "C14": "missed at first; caught by C14 (gate model: Duplicate expected) with the same id reporting in two states",
    "C15": "missed at first by C15 (the bound-formula clause was documented but not implemented); caught by C15 (formula) now, and by C03 / C10",
    "C17": "missed at first; caught by C17 (irregular-not-discarded / domain) after the revert kinds were added",
    "C18": "missed at first (baseline always passed in memory); caught by C18 (local-file / events-differ) with the baseline served by the fake remote storage",
}


def main():
    first = parse("/root/seed3_eval.log")
    second = parse("/root/seed3_re.log")
    for pid in sorted(DESC):
        d = f"/verif/seeded/{pid}-3a"
        if not os.path.isdir(d):
            continue
        f, s = first.get(pid + "a"), second.get(pid + "a")
        final = s or f
        caught_first = bool(f and any(c["violations"] > 0 for c in f["checks"]))
        caught_final = bool(final and any(c["violations"] > 0 for c in final["checks"]))
        meta = {"property": pid, "round": 3, "variant": "a", "breaks": DESC[pid][0], "needs_to_manifest": DESC[pid][1],
                "source": "independent sub-agent given the property text, a scratch worktree and the list of ideas already used for this property (third round)",
                "confirmed": {"demo_exit_clean_then_patched": (final or {}).get("demo"), "pinned_suite_with_patch": (final or {}).get("suite")},
                "first_pass": {"caught": caught_first, "checks": (f or {}).get("checks")},
                "final": {"caught": caught_final, "checks": (final or {}).get("checks"), "concrete_replays": (final or {}).get("concrete"),
                          "no_failing_input": (final or {}).get("noinput")}}
        if pid in NOTES:
            meta["detection_note"] = NOTES[pid]
        json.dump(meta, open(os.path.join(d, "meta.json"), "w"), indent=1)
        print(pid, caught_first, caught_final, (final or {}).get("checks"))


if __name__ == "__main__":
    main()
