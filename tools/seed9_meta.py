#!/usr/bin/env python3
"""meta.json for the ninth round of independent seeded changes (two per property, both "from a distance": the edit is not in the anchored function but in
supporting code whose contract it relies on -- utils, config, Estimandizer, BaseElectionModel, ModelResults, constructors, module constants)."""
import json
import os
import sys

sys.path.insert(0, os.path.dirname(os.path.abspath(__file__)))
from seed2_meta import parse  # noqa: E402

DESC = {
    "C01a": ("_get_unexpected_units skips feed rows with percent_expected_vote 0", "an unexpected unit that has not started counting"),
    "C01b": ("Estimandizer.margin keeps existing weights: margins divided by all-party turnout", "margin estimand, third-party votes, a group without outstanding units"),
    "C02a": ("Estimandizer.add_turnout_factor uses results_turnout as numerator", "bootstrap, third-party votes"),
    "C02b": ("district of an unexpected unit is None unless the unit type has districts", "statewide office with a district column and the district table requested"),
    "C03a": ("BaseElectionModel._get_nonreporting_aggregate_votes groupby(sort=False)", "gaussian, groups not in sorted order, binding floor"),
    "C03b": ("file_utils.convert_df_to_csv float_format='%.6g': uploaded tables lose digits", "remote environment, 'results' requested"),
    "C04a": ("ModelResultsHandler.add_unit_intervals 'nests' the levels with the clip the wrong way round", ">= 2 levels"),
    "C04b": ("client default of turnout_factor_upper 1.5 instead of 2.0", "default limits, units with a turnout factor in [1.5, 2.0)"),
    "C05a": ("ModelResultsHandler sorts its unit frames by id: predictions assigned to other units", "baseline not sorted by unit id"),
    "C05b": ("fit_model raises small weights to 0.1 % of the largest", "baselines spanning more than three orders of magnitude"),
    "C06a": ("Estimandizer.add_turnout_factor uses results_turnout", "bootstrap, sub-state aggregate, third-party votes"),
    "C06b": ("ModelResultsHandler.add_unit_intervals floors the lower bound at the counted value", "bootstrap margin, a dark right-leaning unit"),
    "C07a": ("BaseElectionModel sorts aggregate frames with a numeric key for districts", "districts 1, 2, 10"),
    "C07b": ("ModelResultsHandler rounds aggregate tables to two decimals", "any called contest (clamp +-0.005 becomes 0.0)"),
    "C08a": ("BaseElectionModel sorts districts numerically (zero-padded key)", "district office, districts 1, 10, 2"),
    "C08b": ("constants.DEFAULT_AGGREGATES rebuilt without offices Y and Z", "office Y or Z"),
    "C09a": ("Estimandizer.add_estimand_baselines sets the default weights after the estimand loop", "margin estimand, third-party baseline votes"),
    "C09b": ("CombinedData._get_expected_geographic_unit_fips returns the preprocessed ids", "drop policy, a baseline unit whose feed row has no results"),
    "C10a": ("BaseElectionModel._get_nonreporting_aggregate_votes groupby(sort=False)", "gaussian, states not in sorted order, binding floor"),
    "C10b": ("gaussian merge operands swapped (own-model groups first)", "own-model and fallback groups, binding floor"),
    "C11a": ("client filters the live frame to the configured states", "an unexpected unit of a state outside the configuration"),
    "C11b": ("unexpected units keep reporting = (percent >= threshold)", "a fully counted unexpected unit"),
    "C12a": ("GaussianModel seed offset by hash((election, office))", "gaussian, processes with different hash seeds"),
    "C12b": ("national summary frame of the previous request reused", "two summary requests on one client"),
    "C13a": ("math_utils.boot_sigma caches a generator per seed", "gaussian, >= 2 levels / estimands / aggregates"),
    "C13b": ("BaseElectionModel seed stored as a RandomState", ">= 2 levels or estimands"),
    "C14a": ("GaussianModel MODEL_THRESHOLD hoisted to a module constant 10", "gaussian, fewer than 10 calibration units"),
    "C14b": ("CombinedDataHandler drops duplicate (state, id) rows after the join", "a unit listed twice"),
    "C15a": ("BaseElectionModel._get_nonreporting_aggregate_votes groupby(sort=False)", "gaussian, groups not in sorted order"),
    "C15b": ("GaussianModel seed stored as one shared generator", "gaussian, any aggregate level"),
    "C16a": ("BaseElectionModel.__init__ de-duplicates fixed_effects with dict.fromkeys: selections lost", "dict-valued fixed effects"),
    "C16b": ("unexpected / non-modelled units keep their reporting flag", "a listed state whose only reporting units are non-modelled"),
    "C17a": ("Estimandizer.margin keeps existing weights", "versions fetched through get_versioned_results, third-party votes"),
    "C17b": ("get_versioned_results sorts by unit, percent, time", "a re-scaled percent_expected_vote"),
    "C18a": ("file_utils.S3_FILE_PATH built from the bucket name", "bucket name != path root"),
    "C18b": ("ConfigHandler.get_config saves a local copy whenever the config came from S3", "no raw_config handed over"),
    "C19a": ("S3VersionUtil keeps one download-argument dict on the instance: every download fetches the first version", ">= 2 sampled versions"),
    "C19b": ("VersionedDataHandler replaces the offset of the window bounds instead of converting", "ISO strings with an explicit offset other than the requested zone's"),
    "C20a": ("logger.initialize_logging adds warnings.simplefilter('default') in front of the error filters", "inaccuracy warning, any fit"),
    "C20b": ("math_utils.boot_sigma installs a process-wide ignore filter", "gaussian, inaccuracy warning after the first interval calibration"),
}


def main():
    first = parse("/root/seed9_eval.log")
    second = parse("/root/seed9_re.log")
    notes = json.load(open("/root/seed9_extra.json")) if os.path.exists("/root/seed9_extra.json") else {}
    for key in sorted(DESC):
        pid, v = key[:3], key[3]
        d = f"/verif/seeded/{pid}-9{v}"
        if not os.path.isdir(d):
            continue
        f, s = first.get(key), second.get(key)
        final = s or f
        concrete_first = bool(f and f.get("concrete"))
        caught_first = bool(f and any(c["violations"] > 0 for c in f["checks"]))
        caught_final = bool(final and any(c["violations"] > 0 for c in final["checks"]))
        meta = {"property": pid, "round": 9, "variant": v, "breaks": DESC[key][0], "needs_to_manifest": DESC[key][1],
                "source": "independent sub-agent given only the property text and a scratch worktree, asked for two edits outside the anchored functions, in the supporting "
                          "code they rely on (ninth round)",
                "confirmed": {"demo_exit_clean_then_patched": (final or {}).get("demo"), "pinned_suite_with_patch": (final or {}).get("suite")},
                "first_pass": {"caught": caught_first, "with_concrete_replay": concrete_first, "checks": (f or {}).get("checks")},
                "final": {"caught": caught_final, "checks": (final or {}).get("checks"), "concrete_replays": (final or {}).get("concrete"),
                          "no_failing_input": (final or {}).get("noinput")}}
        if key in notes:
            meta["detection_note"] = notes[key]
        json.dump(meta, open(os.path.join(d, "meta.json"), "w"), indent=1)
        print(key, caught_first, caught_final, (final or {}).get("checks"))


if __name__ == "__main__":
    main()
