#!/usr/bin/env python3
"""Fail-closed translator: /repo/src -> coq/Gen/*.v

Re-derives from the *current* source the scalar formulas and literal facts that the theorems in
coq/Proofs and coq/Properties take as definitions.  Works on the Python AST (comments, formatting and
local renames outside the translated expressions do not matter).  Any construct it does not know
stops the translation of that item with UNTRANSLATABLE <file>:<line>; the item is then emitted as a
failing definition so that the dependent proof obligation breaks (never silently passes).

usage: translate.py <repo_src_dir> <out_dir>     (writes only files whose content changed)
"""
import ast
import json
import os
import sys
from fractions import Fraction


class Untranslatable(Exception):
    pass


def lit_q(node, src):
    """numeric literal -> exact decimal rational of the *source text* (0.9 -> 9#10)"""
    text = ast.get_source_segment(src, node)
    try:
        fr = Fraction(text)
    except Exception:
        fr = Fraction(repr(node.value))
    return fr


def q_of_fraction(fr):
    n, d = fr.numerator, fr.denominator
    if d == 1:
        return f"({n})" if n < 0 else f"{n}"
    return f"(({n}) # {d})" if n < 0 else f"({n} # {d})"


def attr_path(node):
    parts = []
    while True:
        if isinstance(node, ast.Attribute):
            parts.append(node.attr)
            node = node.value
        elif isinstance(node, ast.Subscript):
            sl = node.slice
            if isinstance(sl, ast.Constant):
                parts.append(f"[{sl.value}]")
                node = node.value
            else:
                return None
        elif isinstance(node, ast.Name):
            parts.append(node.id)
            break
        else:
            return None
    return ".".join(reversed(parts)).replace(".[", "[")


class QExpr:
    """Python scalar expression -> Gallina term over Q (Z for floor/ceil results is re-injected)"""

    def __init__(self, src, fname, env):
        self.src = src
        self.fname = fname
        self.env = env  # python name / attribute path -> coq variable

    def fail(self, node, why):
        raise Untranslatable(f"UNTRANSLATABLE {self.fname}:{getattr(node, 'lineno', '?')} {why}")

    def tr(self, node):
        if isinstance(node, ast.Constant):
            if isinstance(node.value, bool) or not isinstance(node.value, (int, float)):
                self.fail(node, "constant")
            return q_of_fraction(lit_q(node, self.src))
        if isinstance(node, ast.Name):
            if node.id in self.env:
                return self.env[node.id]
            self.fail(node, f"name {node.id}")
        if isinstance(node, (ast.Attribute, ast.Subscript)):
            p = attr_path(node)
            if p in self.env:
                return self.env[p]
            self.fail(node, f"attribute {p}")
        if isinstance(node, ast.UnaryOp) and isinstance(node.op, ast.USub):
            return f"(- {self.tr(node.operand)})"
        if isinstance(node, ast.BinOp):
            ops = {ast.Add: "+", ast.Sub: "-", ast.Mult: "*", ast.Div: "/"}
            for k, v in ops.items():
                if isinstance(node.op, k):
                    return f"({self.tr(node.left)} {v} {self.tr(node.right)})"
            self.fail(node, "operator")
        if isinstance(node, ast.Call):
            f = attr_path(node.func)
            args = node.args
            if node.keywords:
                self.fail(node, "keyword args")
            if f == "min" and len(args) == 2:
                return f"(Qmin {self.tr(args[0])} {self.tr(args[1])})"
            if f == "max" and len(args) == 2:
                return f"(Qmax {self.tr(args[0])} {self.tr(args[1])})"
            if f == "round" and len(args) == 2 and isinstance(args[1], ast.Constant) and args[1].value == 2:
                return f"(round2 {self.tr(args[0])})"
            if f in ("math.ceil", "np.ceil") and len(args) == 1:
                return f"(inject_Z (Qceiling {self.tr(args[0])}))"
            if f in ("math.floor", "np.floor") and len(args) == 1:
                return f"(inject_Z (Qfloor {self.tr(args[0])}))"
            self.fail(node, f"call {f}")
        self.fail(node, type(node).__name__)


def find_func(tree, cls, name):
    for n in ast.walk(tree):
        if isinstance(n, ast.ClassDef) and n.name == cls:
            for m in n.body:
                if isinstance(m, (ast.FunctionDef,)) and m.name == name:
                    return m
    return None


def body_stmts(fn):
    """function body without docstring / comments"""
    out = []
    for s in fn.body:
        if isinstance(s, ast.Expr) and isinstance(s.value, ast.Constant) and isinstance(s.value.value, str):
            continue
        out.append(s)
    return out


def straightline(fn, src, fname, env, want):
    """Translate a straight-line function: Assign* ; Return.  `want` = 'return' or a local name.
    Locals are inlined by substitution."""
    env = dict(env)
    tr = QExpr(src, fname, env)
    for s in body_stmts(fn):
        if isinstance(s, ast.Assign) and len(s.targets) == 1 and isinstance(s.targets[0], ast.Name):
            env[s.targets[0].id] = tr.tr(s.value)
            if want == s.targets[0].id:
                return env[want]
        elif isinstance(s, ast.Return):
            if want == "return":
                return tr.tr(s.value)
            if isinstance(want, tuple) and want[0] == "return_tuple":
                if isinstance(s.value, ast.Tuple):
                    return [tr.tr(e) for e in s.value.elts]
            raise Untranslatable(f"UNTRANSLATABLE {fname}:{s.lineno} return before {want}")
        else:
            raise Untranslatable(f"UNTRANSLATABLE {fname}:{s.lineno} statement {type(s).__name__}")
    raise Untranslatable(f"UNTRANSLATABLE {fname}:{fn.lineno} no {want}")


def find_assign(fn, name):
    """first `name = expr` anywhere in fn"""
    for n in ast.walk(fn):
        if isinstance(n, ast.Assign) and len(n.targets) == 1 and isinstance(n.targets[0], ast.Name) and n.targets[0].id == name:
            return n
    return None


def parse(path):
    src = open(path, encoding="utf-8").read()
    return src, ast.parse(src)


HEADER = "(* GENERATED by tools/translate.py from /repo/src -- do not edit, never committed *)\n"


def gen_formulas(srcdir, problems):
    """Gen/Formulas.v: scalar formulas of C14 / C06 / C04"""
    out = [HEADER, "From Coq Require Import ZArith QArith Qround Qminmax.\nFrom Elex Require Import Base.QRound.\nOpen Scope Q_scope.\n"]
    items = []

    def emit(name, params, typ, thunk):
        try:
            body = thunk()
            out.append(f"Definition {name} {params} : {typ} := {body}.\n")
            items.append({"name": name, "ok": True})
        except Untranslatable as e:
            problems.append(str(e))
            items.append({"name": name, "ok": False, "why": str(e)})
            # a definition of the right type that makes the equivalence lemma fail
            out.append(f"(* {e} *)\nDefinition {name} {params} : {typ} := {'untranslatable_Q' if typ == 'Q' else '(untranslatable_Q, untranslatable_Q)'}.\n")

    f = os.path.join(srcdir, "elexmodel/models/NonparametricElectionModel.py")
    src, tree = parse(f)
    fn = find_func(tree, "NonparametricElectionModel", "_compute_conf_frac")
    emit("gen_np_conf_frac", "(n_reporting_units alpha : Q)", "Q",
         lambda: straightline(fn, src, f, {"n_reporting_units": "n_reporting_units", "alpha": "alpha"}, "return"))
    fn2 = find_func(tree, "NonparametricElectionModel", "get_minimum_reporting_units")
    emit("gen_np_minimum", "(alpha : Q)", "Q", lambda: straightline(fn2, src, f, {"alpha": "alpha"}, "return"))
    fn3 = find_func(tree, "NonparametricElectionModel", "get_unit_prediction_intervals")

    def cq():
        a = find_assign(fn3, "correction_quantile")
        if a is None:
            raise Untranslatable(f"UNTRANSLATABLE {f}:{fn3.lineno} correction_quantile not found")
        return QExpr(src, f, {"alpha": "alpha", "prediction_intervals.conformalization.shape[0]": "n_cal"}).tr(a.value)

    emit("gen_np_correction_quantile", "(alpha n_cal : Q)", "Q", cq)

    f = os.path.join(srcdir, "elexmodel/models/GaussianElectionModel.py")
    src, tree = parse(f)
    fn = find_func(tree, "GaussianElectionModel", "_compute_conf_frac")
    emit("gen_gauss_conf_frac", "", "Q", lambda: straightline(fn, src, f, {}, "return"))
    fn2 = find_func(tree, "GaussianElectionModel", "get_minimum_reporting_units")
    emit("gen_gauss_minimum", "(alpha : Q)", "Q",
         lambda: straightline(fn2, src, f, {"alpha": "alpha", "self._compute_conf_frac()": "gen_gauss_conf_frac"}, "return")
         if not any(isinstance(n, ast.Call) and attr_path(n.func) == "self._compute_conf_frac" for n in ast.walk(fn2))
         else _gauss_min(fn2, src, f))

    f = os.path.join(srcdir, "elexmodel/models/ConformalElectionModel.py")
    src, tree = parse(f)
    fn = find_func(tree, "ConformalElectionModel", "get_unit_prediction_interval_bounds")

    def tr_rows():
        a = find_assign(fn, "train_rows")
        if a is None:
            raise Untranslatable(f"UNTRANSLATABLE {f}:{fn.lineno} train_rows not found")
        return QExpr(src, f, {"self.n_train": "n_train", "conf_frac": "conf_frac"}).tr(a.value)

    emit("gen_train_rows", "(n_train conf_frac : Q)", "Q", tr_rows)

    def lu(which):
        def th():
            a = find_assign(fn, which)
            if a is None:
                raise Untranslatable(f"UNTRANSLATABLE {f}:{fn.lineno} {which} not found")
            return QExpr(src, f, {"alpha": "alpha"}).tr(a.value)
        return th

    emit("gen_conf_upper_tau", "(alpha : Q)", "Q", lu("upper_bound"))
    emit("gen_conf_lower_tau", "(alpha : Q)", "Q", lu("lower_bound"))

    f = os.path.join(srcdir, "elexmodel/models/BootstrapElectionModel.py")
    src, tree = parse(f)
    fn = find_func(tree, "BootstrapElectionModel", "_get_quantiles")

    def quant():
        r = straightline(fn, src, f, {"alpha": "alpha", "self.B": "B"}, ("return_tuple",))
        if not isinstance(r, list) or len(r) != 2:
            raise Untranslatable(f"UNTRANSLATABLE {f}:{fn.lineno} return shape")
        return f"({r[0]}, {r[1]})"

    emit("gen_boot_quantiles", "(alpha B : Q)", "(Q * Q)", quant)
    return "".join(out), items


def _gauss_min(fn2, src, f):
    # get_minimum_reporting_units = 10 * self._compute_conf_frac(): the call is replaced by the generated constant
    class T(QExpr):
        def tr(self, node):
            if isinstance(node, ast.Call) and attr_path(node.func) == "self._compute_conf_frac" and not node.args:
                return "gen_gauss_conf_frac"
            return super().tr(node)

    t = T(src, f, {"alpha": "alpha"})
    for s in body_stmts(fn2):
        if isinstance(s, ast.Return):
            return t.tr(s.value)
    raise Untranslatable(f"UNTRANSLATABLE {f}:{fn2.lineno} no return")


def write_if_changed(path, text):
    old = None
    if os.path.exists(path):
        old = open(path, encoding="utf-8").read()
    if old != text:
        os.makedirs(os.path.dirname(path), exist_ok=True)
        with open(path, "w", encoding="utf-8") as fh:
            fh.write(text)
        return True
    return False


def main():
    srcdir, outdir = sys.argv[1], sys.argv[2]
    problems = []
    report = {"files": {}, "problems": problems}
    gens = [("Formulas.v", gen_formulas)]
    try:
        from translate_facts import FACT_GENERATORS  # noqa

        gens += FACT_GENERATORS
    except ImportError:
        pass
    for fname, g in gens:
        try:
            text, items = g(srcdir, problems)
        except Untranslatable as e:
            problems.append(str(e))
            text, items = HEADER + f"(* {e} *)\nDefinition translation_failed : False := I.\n", [{"ok": False, "why": str(e)}]
        except (OSError, SyntaxError) as e:
            problems.append(f"UNTRANSLATABLE {fname}: {e}")
            text, items = HEADER + f"(* {e} *)\nDefinition translation_failed : False := I.\n", [{"ok": False, "why": str(e)}]
        changed = write_if_changed(os.path.join(outdir, fname), text)
        report["files"][fname] = {"changed": changed, "items": items}
    print(json.dumps(report))
    return 0


if __name__ == "__main__":
    sys.path.insert(0, os.path.dirname(os.path.abspath(__file__)))
    sys.exit(main())
