#!/usr/bin/env python3
"""meta.json for the fourth round of independent seeded changes (two per property, 'the slip a maintainer is most likely to make')."""
import json
import os
import sys

sys.path.insert(0, os.path.dirname(os.path.abspath(__file__)))
from seed2_meta import parse  # noqa: E402

DESC = {
    "C01a": "de-duplication of non-modelled units moved before the outlier models: a unit flagged by both appears twice and is double counted",
    "C01b": "_get_expected_geographic_unit_fips reads the preprocessed frame: a baseline unit in the feed with missing results vanishes under 'drop'",
    "C02a": "nonparametric aggregate intervals: reporting / unexpected frames passed to _get_reporting_aggregate_votes in swapped order (classification tables use the wrong frame)",
    "C02b": "bootstrap unit turnout rounded on return but not in the stored attribute the aggregates use (sub-vote mismatch)",
    "C03a": "gaussian aggregate: merge operands swapped, counted-vote floor applied to the wrong group",
    "C03b": "nonparametric unit upper bound no longer floored at the partial count",
    "C04a": "conformal quantile uses the number of reporting units instead of the number of calibration units",
    "C04b": "features taken from the unshuffled frame while residuals / weights come from the shuffled one",
    "C05a": "unit prediction simplified to (1 + m) * baseline: floor at the partial count dropped",
    "C05b": "baseline + 1 column built in a hoisted loop with the last estimand's baseline for every estimand",
    "C06a": "in-place subtraction aliases the stored bootstrap draws (levels no longer nested)",
    "C06b": "overlap guarantee (+-0.001 around the prediction) applied to top-level aggregates only",
    "C07a": "called contests only lifted when the prediction has the wrong sign",
    "C07b": "client no longer passes stop_model_call to the model",
    "C08a": "weights taken in dict insertion order instead of sorted by contest",
    "C08b": "aggregate point prediction kept on the model for every aggregate: summary fails after a finer aggregate",
    "C09a": "turnout-factor limits become inclusive (Series.between)",
    "C09b": "configured turnout_factor_lower = 0 replaced by the default (x or default)",
    "C10a": "margin outlier model fitted on the unfiltered reporting frame (blocklisted / zero-baseline units included)",
    "C10b": "historical results hidden with a mask aligned by row label instead of by unit",
    "C11a": "county of an unexpected unit parsed with split('_', 1): wrong for precinct-district ids",
    "C11b": "bootstrap interval numerator adds the unexpected units' turnout instead of their margin",
    "C12a": "one bootstrap draw taken from numpy's global generator instead of the model's seeded one",
    "C12b": "GaussianModel seed default removed: scipy bootstrap seeded from entropy when no seed is configured",
    "C13a": "one RandomState per model object: later levels / estimands get other calibration splits",
    "C13b": "aggregate tables of several estimands merged without 'reporting': reporting_x / reporting_y columns",
    "C14a": "minimum-units gate uses the last requested level only",
    "C14b": "gaussian group-size threshold hoisted to a constant 10: infinite recursion with fewer than 10 calibration units",
    "C15a": "own-calibration threshold exclusive instead of inclusive",
    "C15b": "matching loop stops one level early: states too small for their own model never get the all-units model",
    "C16a": "fitting rows no longer exclude reporting unexpected units",
    "C16b": "_sort_features matches exact names instead of prefixes",
    "C17a": "guarded np.divide zeroes x/0 as well: impossible batches no longer discarded",
    "C17b": "before the first observation the estimate is the first batch margin instead of the first observed margin",
    "C18a": "live results written after the validation checks",
    "C18b": "conformalization keys interpolate the whole aggregate list (whitespace, brackets)",
    "C19a": "window filters applied per page before the keep-paging decision",
    "C19b": "failed downloads are still yielded (yield moved out of the try)",
    "C20a": "warnings filter removed: cvxpy's inaccuracy warning is no longer an error, nothing is retried",
    "C20b": "retry omits lambda_: runs unregularised",
}


def main():
    first = parse("/root/seed4_eval.log")
    second = parse("/root/seed4_re.log")
    notes = json.load(open("/root/seed4_extra.json")) if os.path.exists("/root/seed4_extra.json") else {}
    for key in sorted(DESC):
        pid, v = key[:3], key[3]
        d = f"/verif/seeded/{pid}-4{v}"
        if not os.path.isdir(d):
            continue
        f, s = first.get(key), second.get(key)
        final = s or f
        caught_first = bool(f and any(c["violations"] > 0 for c in f["checks"]))
        caught_final = bool(final and any(c["violations"] > 0 for c in final["checks"]))
        meta = {"property": pid, "round": 4, "variant": v, "breaks": DESC[key],
                "source": "independent sub-agent given only the property text and a scratch worktree, asked for the slip a maintainer is most likely to make (fourth round)",
                "confirmed": {"demo_exit_clean_then_patched": (final or {}).get("demo"), "pinned_suite_with_patch": (final or {}).get("suite")},
                "first_pass": {"caught": caught_first, "checks": (f or {}).get("checks")},
                "final": {"caught": caught_final, "checks": (final or {}).get("checks"), "concrete_replays": (final or {}).get("concrete"),
                          "no_failing_input": (final or {}).get("noinput")}}
        if key in notes:
            meta["detection_note"] = notes[key]
        json.dump(meta, open(os.path.join(d, "meta.json"), "w"), indent=1)
        print(key, caught_first, caught_final, (final or {}).get("checks"))


if __name__ == "__main__":
    main()
