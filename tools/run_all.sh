#!/bin/bash
# runs every registered quick (or thorough) check once on the current /repo tree and prints one line per property
TIER=${1:-quick}
cd /verif
for p in $(python3 -c "import json; print(' '.join(c['property_id'] for c in json.load(open('MANIFEST.json'))['checks']))"); do
  s=$(date +%s); out=$(bin/check $p --tier $TIER 2>&1); rc=$?; e=$(date +%s)
  echo "$p rc=$rc $((e-s))s $(echo "$out" | grep -c '^VIOLATION') violations $(echo "$out" | grep -c '^KNOWN-FINDING') known | $(echo "$out" | tail -1 | cut -c1-140)"
done
