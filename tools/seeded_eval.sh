#!/bin/bash
# tools/seeded_eval.sh <Cxx> [extra check ids...]   -- confirm a sub-agent's seeded change in its scratch worktree, then run our checks against it
# expects /tmp/wt-<id> (worktree with the patch applied) and /tmp/seed-<id>/{patch.diff,demo.py}
set -u
ID=$1; shift
WT=/tmp/wt-$ID; SD=/tmp/seed-$ID
ENVV="PYTHONPATH=$WT/src APP_ENV=local DATA_ENV=dev MODEL_S3_BUCKET=b MODEL_S3_PATH_ROOT=r"
cd $WT || exit 2
git -C $WT diff > /tmp/seed-$ID/patch.confirmed.diff
echo "== patch: $(git -C $WT diff --stat | tail -1)"
echo "== demo WITH patch:"; env $ENVV /venv/bin/python $SD/demo.py > /tmp/seed-$ID/demo_with.out 2>&1; echo "exit $?"; tail -3 /tmp/seed-$ID/demo_with.out
git -C $WT apply -R /tmp/seed-$ID/patch.confirmed.diff
echo "== demo WITHOUT patch:"; env $ENVV /venv/bin/python $SD/demo.py > /tmp/seed-$ID/demo_without.out 2>&1; echo "exit $?"; tail -2 /tmp/seed-$ID/demo_without.out
git -C $WT apply /tmp/seed-$ID/patch.confirmed.diff
echo "== test suite WITH patch:"
env $ENVV /venv/bin/python -m pytest -q -p no:cacheprovider --timeout=900 tests 2>&1 | tail -4
echo "== our checks against the patch (applied to /repo, then reverted):"
git -C /repo apply /tmp/seed-$ID/patch.confirmed.diff || { echo "patch does not apply to /repo"; exit 3; }
for C in $ID "$@"; do
  (cd /verif && bin/check $C 2>&1 | grep -v "^KNOWN-FINDING" | tail -3)
  cp /verif/build/violations_$C.json /tmp/seed-$ID/violations_$C.json 2>/dev/null
done
git -C /repo checkout -- .
git -C /repo status --short | head -3
